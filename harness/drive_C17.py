"""C17 -- keepalive: correspondence of Model/Keepalive.v with grpclib.protocol.Connection's keepalive
code on the virtual-time loop, and a direct oracle stating the property on what the peer sees.

All instants and configuration values are integers in ticks of 2^-20 s and multiples of GRID (2^-10 s),
so the floats grpclib computes with are exact (see the header of Model/Keepalive.v).

A case (JSON):
  {'op': 'run', 'role': 'server'|'client', 't0': ticks,
   'cfg': {'time': ticks|None, 'timeout': ticks, 'permit': bool, 'maxp': int, 'minint': ticks,
           'as_int': bool},
   'peer': {'delays': [ticks|None, ...] (ack delay of the i-th ping, cyclic; None = never),
            'stop_at': ticks|None (nothing is acknowledged at or after this instant),
            'before_timer': bool (an ack falling on an instant where a timer is due is processed
                                  before that timer)},
   'traffic': [[ticks, action, call_index], ...]   action in ACTIONS,
   'horizon': ticks}
  {'op': 'none_limit', 'field': 'maxp'|'minint', 'role': ...}      (validator accepts None)
  {'op': 'validate', ...} / {'op': 'defaults'}                      (Configuration facts)
"""
import asyncio
import heapq
import logging

from harness import vloop, wire, peer as P
from harness.core import Result
from harness.svc import Service, exc_name

PROPERTY = 'C17'
THEOREM_FILES = ['Props/C17.v']
ALLOWED_AXIOMS = []
LABEL = ('partial: safety, detection (with the exact side conditions), rate, periodicity and configuration '
         'facts are proved for all configurations and schedules; the per-ping claim "a ping unanswered for '
         'keepalive_timeout closes the connection" is REFUTED on the faithful model and on the code '
         '(acknowledgement of an older ping clears the only close timer), kept as a known finding with the '
         'strongest true partial theorem')
TRUSTED = ['tools/facts_C17.py (fail-closed ast translator: Configuration field table, _is_need_send_ping as an '
           'expression tree, statement skeletons of the six keepalive methods)',
           'modelled, not verified: asyncio call_later/TimerHandle.cancel (a timer runs at its due time; the order '
           'of two timers due at the same instant is an input of the model, read off the loop heap by the '
           'harness), h2 (PING / PING-ACK framing, stream .open), float arithmetic (exact on the dyadic grid '
           'the harness uses)',
           'the per-step state comparison reads Connection.ping_count_in_sequence / last_ping_sent (skipped when '
           'absent), finds the two keepalive timers by role among loop._scheduled (callbacks bound to the '
           'Connection object; the one bound to close() is the close timer) and h2 stream states by type']
ASSUMPTIONS = ['instants and configured durations are multiples of 2^-10 s below 2^20 s (float arithmetic exact); '
               'outside that grid the theorems speak about the real numbers the floats approximate',
               'timers run at their due time (the virtual loop is never late); a real loop adds its scheduling '
               'latency to every bound',
               'acknowledgements answer pings in order (reliable ordered transport, h2 acks every PING)',
               'Configuration values are of the types the annotations state (None for the two limits passes '
               'validation and breaks keepalive: reported as finding)']

TPS = 1 << 20
GRID = 1 << 10
ACTIONS = ['open', 'data', 'big', 'credit', 'recv', 'park', 'cancel', 'finish', 'reset', 'lose', 'pause',
           'resume']

logging.getLogger('grpclib').setLevel(logging.CRITICAL)
logging.getLogger('asyncio').setLevel(logging.CRITICAL)


def secs(ticks):
    return ticks / TPS


def to_ticks(x):
    if x is None:
        return None
    t = x * TPS
    if t != int(t):
        raise ValueError('instant %r is off the tick grid' % (x,))
    return int(t)


def make_config(cfg):
    from grpclib.config import Configuration

    def num(t):
        if t is None:
            return None
        if cfg.get('as_int') and t % TPS == 0:
            return t // TPS
        return secs(t)
    return Configuration(
        _keepalive_time=num(cfg['time']), _keepalive_timeout=num(cfg['timeout']),
        _keepalive_permit_without_calls=cfg['permit'], _http2_max_pings_without_data=cfg['maxp'],
        _http2_min_sent_ping_interval_without_data=num(cfg['minint']))


# ---- the connection's keepalive timers, found by ROLE on the loop (never by attribute name): the
#      handles of loop._scheduled whose callback is a bound method of the Connection object; the one
#      bound to its public close() is the close timer, any other is the periodic ping timer

def conn_handles(loop, conn, live_only=True):
    out = []
    for h in list(loop._scheduled):
        if live_only and h._cancelled:
            continue
        cb = h._callback
        cb = getattr(cb, 'func', cb)                     # functools.partial
        if getattr(cb, '__self__', None) is conn:
            out.append(h)
    return out


def is_close_handle(h):
    cb = getattr(h._callback, 'func', h._callback)
    return getattr(cb, '__name__', '') == 'close'


def h2_of(conn, peer):
    """the H2Connection the Connection object drives (looked up by type); the scripted peer's own h2
    state is the fallback: both ends agree on which streams are open"""
    from h2.connection import H2Connection
    for v in vars(conn).values():
        if isinstance(v, H2Connection):
            return v
    return peer.h2


def split_frames(data):
    out, i = [], 0
    while i + 9 <= len(data):
        n = int.from_bytes(data[i:i + 3], 'big')
        out.append((data[i + 3], data[i + 4], data[i:i + 9 + n]))
        i += 9 + n
    return out


# ------------------------------------------------------------------------------------------------
# implementation side

class Run:
    """One scenario on the real grpclib objects.  Produces
       .events : the model events that happened (strings of the dC17 line protocol)
       .obs    : per event, the observation in the model's answer format
       and the raw observations the oracle uses."""

    def __init__(self, case):
        self.case = case
        self.events, self.obs = [], []
        self.pings = []          # ticks at which the peer received a PING
        self.acks = []           # (ticks delivered, index of the ping it answers)
        self.close_at = None     # ticks of transport.close() by grpclib
        self.lost_at = None      # ticks of the scripted connection loss
        self.wire = []           # (ticks, 'H'|'D') frames grpclib sent, seen at the peer
        self.chron = []          # everything observed, in order: ('F', t, open streams) a timer step
                                 # begins; ('P', t) PING; ('H'|'D', t) frame; ('A', t, k) ack fed;
                                 # ('X', t) closed by grpclib; ('L', t) scripted loss
        self.calls = []          # per call: dict(state, q, task, rec, sid)
        self.unhandled = []
        self.stalled = 0
        self.paused = False
        self.ties = []           # for every instant with both timers due: did close run first?
        self.end = None
        self.notes = []

    # ---- plumbing
    def now(self):
        return to_ticks(self.loop.time())

    def conn(self):
        return self.proto.connection

    def open_count(self):
        return sum(1 for s in h2_of(self.conn(), self.peer).streams.values() if s.open)

    def handle_when(self, h):
        if h is None or h.cancelled():
            return None
        return to_ticks(h.when())

    def timers(self):
        """(due ticks of the periodic ping timer, due ticks of the close timer), None = not armed"""
        pt = ct = None
        for h in conn_handles(self.loop, self.conn()):
            w = to_ticks(h.when())
            if is_close_handle(h):
                ct = w if ct is None else min(ct, w)
            else:
                pt = w if pt is None else min(pt, w)
        return pt, ct

    def snapshot(self):
        """counter, open streams, ping timer, close timer, last ping, closed -- '?' for what cannot be
        observed on this version of the code (the comparison skips such fields)"""
        c = self.conn()
        closed = self.tr.closing or self.tr.lost

        def w(x):
            return '-' if x is None else str(x)
        pt, ct = self.timers()
        cnt = getattr(c, 'ping_count_in_sequence', '?')
        lp = getattr(c, 'last_ping_sent', '?')
        return '%s,%d,%s,%s,%s,%d' % (
            cnt if isinstance(cnt, int) else '?', self.open_count(), w(pt), w(ct),
            w(to_ticks(lp)) if (lp is None or isinstance(lp, (int, float))) else '?',
            1 if closed else 0)

    def ping_handles(self):
        """every periodic-timer handle the connection has created so far (recorded at loop.call_at, the
        public asyncio entry point; cancelled ones included)"""
        conn = self.conn()
        out = []
        for h, cb in self.created:           # (cancel() clears a handle's callback: kept separately)
            cb = getattr(cb, 'func', cb)
            if getattr(cb, '__self__', None) is conn and getattr(cb, '__name__', '') != 'close':
                out.append(h)
        return out

    def on_write(self, data):
        from h2.events import (PingReceived, DataReceived, RequestReceived, ResponseReceived,
                               TrailersReceived)
        n0 = len(self.peer.events)
        self.peer.receive(data)
        t = self.now()
        for ev in self.peer.events[n0:]:
            if isinstance(ev, PingReceived):
                self.pings.append(t)
                self.chron.append(('P', t))
                self.step_items.append('P@%d' % t)
            elif isinstance(ev, (RequestReceived, ResponseReceived, TrailersReceived)):
                self.wire.append((t, 'H'))
                self.chron.append(('H', t))
            elif isinstance(ev, DataReceived) and len(ev.data) > 0:
                self.wire.append((t, 'D'))
                self.chron.append(('D', t))
        for ftype, flags, raw in split_frames(self.peer.h2.data_to_send()):
            if ftype == 6 and flags & 1:
                self.ack_frames.append(raw)          # the peer's automatic PING ACK: held back
            else:
                self.other_out.append(raw)

    def on_close(self):
        if self.close_at is None:
            self.close_at = self.now()
            self.chron.append(('X', self.close_at))
            self.step_items.append('X@%d' % self.close_at)
            for c in self.calls:
                if c['rec']['state'] in ('idle', 'park') or c['rec']['state'].startswith('big:'):
                    c['inflight_at_close'] = True
                if c['rec']['state'].startswith('big:'):
                    self.stalled_seen = True

    def deliver_other(self):
        while self.other_out and not self.tr.lost and not self.tr.closing:
            self.tr.feed(self.other_out.pop(0))
        del self.other_out[:]

    def settle(self):
        """deliver what the peer has to say (SETTINGS acks, WINDOW_UPDATEs -- never its PING acks) and
        let the tasks react, until nothing more happens at this instant"""
        for _ in range(200):
            self.loop.run_quiet(0.0)
            if not self.other_out or self.tr.lost or self.tr.closing:
                break
            self.deliver_other()
        self.loop.run_quiet(0.0)

    # ---- model events
    def begin(self):
        self.step_items = []
        self.ping_handles_before = self.ping_handles()

    def emit(self, evs, skip_at=None):
        """close one harness step that corresponds to the model events `evs` (a list; a composite
        action such as "client opens a call" is several model events at one instant and only the
        state after the last one is observable): items seen since begin() + state now"""
        if isinstance(evs, str):
            evs = [evs]
        if not evs:
            return
        items = list(self.step_items)
        c = self.conn()
        rearmed = len(self.ping_handles()) > len(self.ping_handles_before)
        if skip_at is not None and rearmed and not any(i.startswith('P@') for i in items):
            items.insert(0, 'S@%d' % skip_at)        # the ping callback ran (it re-armed) and sent nothing
        items.sort(key=lambda i: {'P': 0, 'S': 0, 'X': 1}[i[0]])
        for e in evs[:-1]:
            self.events.append(e)
            self.obs.append(None)
        self.events.append(evs[-1])
        self.obs.append((','.join(items) if items else '-') + '|' + self.snapshot())
        self.step_items = []
        self.ping_handles_before = self.ping_handles()

    def sync_opens(self):
        """h2's view of open streams is an input of the model: StreamOpened/StreamClosed events"""
        n = self.open_count()
        out = []
        while self.model_opens < n:
            self.model_opens += 1
            out.append('O')
        while self.model_opens > n:
            self.model_opens -= 1
            out.append('C')
        return out

    # ---- timers of the loop
    def live_timers(self):
        return [h for h in self.loop._scheduled if not h._cancelled]

    def next_timer(self):
        ws = [h._when for h in self.live_timers()]
        return to_ticks(min(ws)) if ws else None

    def close_first(self, when):
        """asyncio's order for two timers due at the same instant: which callback is popped first"""
        conn = self.conn()
        due = [h for h in conn_handles(self.loop, conn) if to_ticks(h._when) == when]
        if len(due) < 2:
            return False
        heap = list(self.loop._scheduled)
        while heap:
            h = heapq.heappop(heap)
            if h in due:
                cf = is_close_handle(h)
                self.ties.append(cf)
                return cf
        return False

    # ---- calls
    def client_call(self, idx):
        from grpclib.client import StreamStreamMethod
        m = StreamStreamMethod(self.end_.channel, '/v.S/M', bytes, bytes)
        rec = {'state': 'new', 'exc': None, 'ops': []}
        q = asyncio.Queue()

        async def body():
            try:
                async with m.open() as s:
                    await s.send_request()
                    rec['state'] = 'idle'
                    while True:
                        cmd = await q.get()
                        rec['state'] = cmd
                        if cmd == 'data':
                            await s.send_message(b'x')
                        elif cmd.startswith('big:'):
                            await s.send_message(b'z' * int(cmd[4:]))
                        elif cmd == 'park':
                            await s.recv_message()
                        elif cmd == 'recv1':
                            rec['got'] = await s.recv_message()
                        elif cmd == 'cancel':
                            await s.cancel()
                            rec['state'] = 'done'
                            return
                        elif cmd == 'end':
                            await s.end()
                        elif cmd == 'quit':
                            rec['state'] = 'done'
                            return
                        rec['ops'].append(cmd)
                        rec['state'] = 'idle'
            except BaseException as e:
                rec['exc'] = e
                rec['state'] = 'failed'
                if not isinstance(e, Exception):
                    raise
        task = self.loop.create_task(body())
        return {'rec': rec, 'q': q, 'task': task, 'sid': None, 'sent_initial': True}

    def server_handler(self):
        run = self

        async def handler(stream):
            rec = {'state': 'idle', 'exc': None, 'ops': []}
            q = asyncio.Queue()
            run.started.append({'rec': rec, 'q': q, 'task': asyncio.current_task(),
                                'sid': None, 'sent_initial': False})   # sid: set by the opener
            try:
                while True:
                    cmd = await q.get()
                    rec['state'] = cmd
                    if cmd == 'data':
                        await stream.send_message(b'x')
                    elif cmd.startswith('big:'):
                        await stream.send_message(b'z' * int(cmd[4:]))
                    elif cmd == 'park':
                        await stream.recv_message()
                    elif cmd == 'recv1':
                        rec['got'] = await stream.recv_message()
                    elif cmd in ('quit', 'finish'):
                        rec['state'] = 'done'
                        return
                    rec['ops'].append(cmd)
                    rec['state'] = 'idle'
            except BaseException as e:
                rec['exc'] = e
                rec['state'] = 'failed'
                raise
        return handler

    def do_action(self, action, idx):
        """perform one traffic action now; emits the model events it causes.  HeadersSent / DataSent are
        taken from the WIRE: one event per HEADERS / non-empty DATA frame this side sent during the step
        (a payload larger than the peer's frame size or window is several frames, and the frames that
        went out before a stall count); Acked from the script (a message was read by the application);
        StreamOpened/Closed from h2's stream table."""
        role = self.case['role']
        live = [c for c in self.calls if c['rec']['state'] == 'idle']
        alive = [c for c in self.calls
                 if (c['rec']['state'] in ('idle', 'park') or c['rec']['state'].startswith('big:'))
                 and c['sid']]
        extra = []
        self.begin()
        c0 = len(self.chron)
        if action == 'lose':
            self.lost_at = self.now()
            self.chron.append(('L', self.lost_at))
            self.tr.lose(None)
            self.loop.run_quiet(0.0)
            self.emit(['L'])
            return
        if action in ('pause', 'resume'):
            # the transport's write buffer fills up / drains (asyncio calls pause_writing /
            # resume_writing on the protocol): no keepalive variable is concerned, pings go on
            if action == 'pause':
                self.tr.pause()
                self.paused = True
            else:
                self.tr.resume()
                self.paused = False
            self.settle()
            frames = [e[0] for e in self.chron[c0:] if e[0] in ('H', 'D')]
            self.emit(frames + self.sync_opens())
            return
        if getattr(self, 'paused', False) and action in ('open', 'data', 'big', 'finish', 'cancel'):
            return          # the application would just wait for write_ready; keep the script simple
        if action == 'open':
            if len(alive) + len([c for c in self.calls if c['rec']['state'] == 'new']) >= 4:
                return
            if role == 'client':
                from h2.events import RequestReceived
                self.peer.take_events()
                call = self.client_call(len(self.calls))
                self.loop.run_quiet(0.0)
                sids = [e.stream_id for e in self.peer.events if isinstance(e, RequestReceived)]
                call['sid'] = sids[-1] if sids else None
                self.calls.append(call)
            else:
                n0 = len(self.started)
                sid = self.peer.request(P.REQ_HEADERS)       # the scripted peer chose the stream id
                self.loop.run_quiet(0.0)
                for c in self.started[n0:]:                  # the handler this request started
                    c['sid'] = sid
                self.calls += self.started[n0:]
        elif action == 'credit':
            # the peer returns flow-control credit: stalled senders resume
            self.peer.window_update(0, 1 << 20)
            for c in alive:
                try:
                    self.peer.window_update(c['sid'], 1 << 20)
                except Exception:
                    pass
        elif action == 'reset':
            if not alive:
                return
            call = alive[idx % len(alive)]
            self.peer.reset(call['sid'])
            self.loop.run_quiet(0.0)
            if call['rec']['state'] == 'idle':
                call['q'].put_nowait('quit')
        elif not live:
            return
        else:
            call = live[idx % len(live)]
            if action == 'data':
                call['q'].put_nowait('data')
            elif action == 'big':
                # a payload of several DATA frames; with a peer that returns no credit it stalls
                # half-way (65535 bytes of connection window), the frames before the stall are out
                call['q'].put_nowait('big:%d' % [20000, 40000, 70000, 200000][idx % 4])
            elif action == 'recv':
                # the PEER sends a message and the application reads it: Connection.ack returns the
                # flow-control credit (model event R) -- inbound traffic, nothing "sent" by this side
                size = [1, 5, 300, 9000, 16000][idx % 5]
                if role == 'client' and not call.get('got_headers'):
                    self.peer.headers(call['sid'], P.RESP_HEADERS)
                    call['got_headers'] = True
                self.peer.data(call['sid'], P.grpc_frame(b'y' * size))
                call['q'].put_nowait('recv1')
                self.loop.run_quiet(0.0)
                if 'recv1' in call['rec']['ops'][-1:] and call['rec'].get('got') == b'y' * size:
                    extra.append('R')
            elif action == 'park':
                call['q'].put_nowait('park')
            elif action == 'cancel':
                if role == 'client':
                    call['q'].put_nowait('cancel')
                else:
                    self.peer.reset(call['sid'], code=8)
            elif action == 'finish':
                if role == 'client':
                    call['q'].put_nowait('end')
                    self.loop.run_quiet(0.0)
                    if not call.get('got_headers'):
                        self.peer.headers(call['sid'], P.RESP_HEADERS)
                        call['got_headers'] = True
                    self.peer.headers(call['sid'], [('grpc-status', '0')], end_stream=True)
                    call['q'].put_nowait('quit')
                else:
                    call['q'].put_nowait('finish')
        self.settle()
        frames = [e[0] for e in self.chron[c0:] if e[0] in ('H', 'D')]
        self.emit(frames + extra + self.sync_opens())

    # ---- the scenario
    def execute(self):
        case = self.case
        with vloop.session() as loop:
            self.loop = loop
            self.created = []
            orig_call_at = loop.call_at

            def call_at(when, callback, *args, **kw):
                h = orig_call_at(when, callback, *args, **kw)
                self.created.append((h, callback))
                return h
            loop.call_at = call_at
            loop.run_until(secs(case['t0']))
            self.ack_frames, self.other_out, self.step_items = [], [], []
            self.started = []
            self.model_opens = 0
            cfg = make_config(case['cfg'])
            if case['role'] == 'server':
                end = wire.ServerEnd(loop, [Service('v.S', {'M': (self.server_handler(), 'SS')})],
                                     config=cfg)
            else:
                end = wire.ClientEnd(loop, config=cfg)
                t = loop.create_task(end.channel.__connect__())
                loop.run_quiet(0.0)
                assert t.done() and t.exception() is None, 'connect failed'
            self.end_ = end
            self.proto, self.tr, self.peer = end.conns[-1]
            self.peer.take_events()
            self.tr.on_write = self.on_write
            self.tr.on_close = self.on_close
            # a peer that returns no flow-control credit on its own (only by 'credit' actions)
            self.peer.auto_ack = bool(case['peer'].get('credit', True))
            self.ping_handles_before = self.ping_handles()
            self.init_obs = self.snapshot()
            # unrelated timers of the application sharing the loop (they do nothing; they change the
            # shape of asyncio's timer heap and with it the order of callbacks due at the same instant)
            for t in case.get('noise', []):
                if t > case['t0']:
                    loop.call_at(secs(t), lambda: None)
            self._loop_body()
            self.end = self.now()
            self._finish_calls()
            self.unhandled = [type(c.get('exception')).__name__ for c in loop.unhandled
                              if c.get('exception') is not None]
        # keep plain data only: live tasks/loops of finished scenarios would pile up in asyncio's
        # global task registry and make every later session slower
        for c in self.calls:
            c.clear()
        self.calls, self.started = [], []
        self.loop = self.proto = self.tr = self.peer = self.end_ = None
        self.ping_handles_before, self.created = [], []
        self.ack_frames, self.other_out = [], []
        return self

    def is_closed(self):
        return self.close_at is not None or self.lost_at is not None

    def _loop_body(self):
        case = self.case
        peer = case['peer']
        horizon = case['horizon']
        traffic = sorted([list(x) for x in case['traffic']], key=lambda x: x[0])
        pending_acks = []        # [deliver_at, ping_index]
        seen_pings = 0
        fifo = peer.get('fifo', True)
        dead = False
        last_ack_at = 0
        guard = 0
        while True:
            guard += 1
            if guard > 5000:
                self.notes.append('step guard hit')
                break
            # acknowledgements owed for newly seen pings.  fifo (the default): the peer answers pings
            # in order -- an ack is never delivered before the ack of an earlier ping, and a ping that
            # is never answered means the peer answers nothing after it either (it is dead)
            while seen_pings < len(self.pings):
                d = peer['delays'][seen_pings % len(peer['delays'])] if peer['delays'] else None
                if fifo and dead:
                    d = None
                if d is not None:
                    at = self.pings[seen_pings] + d
                    if fifo:
                        at = max(at, last_ack_at)
                    if peer.get('stop_at') is None or at < peer['stop_at']:
                        pending_acks.append([at, seen_pings])
                        last_ack_at = at
                    else:
                        dead = True
                else:
                    dead = True
                seen_pings += 1
            pending_acks.sort()
            closed = self.is_closed()
            cand = []
            if not closed:
                if pending_acks:
                    cand.append((pending_acks[0][0], 0, 'ack'))
                if traffic:
                    cand.append((traffic[0][0], 1, 'traffic'))
            he = min(cand) if cand else None
            tt = self.next_timer()
            te = he[0] if he else None
            nxt = min(x for x in (tt, te, horizon + 1) if x is not None)
            if nxt > horizon:
                if self.now() < horizon:             # nothing more can happen before the horizon
                    self.begin()
                    self.loop.run_until(secs(horizon))
                    self.emit('T:%d:1:0' % horizon)
                break
            now = self.now()
            before = bool(peer.get('before_timer')) and he is not None and he[2] == 'ack'
            if tt is not None and (te is None or tt < te or (tt == te and not before)):
                # the timers due at tt run (one instant)
                cf = self.close_first(tt)
                self.begin()
                self.chron.append(('F', tt, self.open_count()))
                self.loop.run_until(secs(tt))
                self.settle()
                self.emit('T:%d:1:%d' % (tt, 1 if cf else 0), skip_at=tt)
                continue
            # a harness event at te (>= now); no timer is due before it
            if te > now:
                self.begin()
                if tt is not None and tt == te:
                    self.loop._vtime = secs(te)      # reach the instant without running its timers
                else:
                    self.loop.run_until(secs(te))
                self.emit('T:%d:%d:0' % (te, 0 if (tt is not None and tt == te) else 1))
            if he[2] == 'ack':
                at, k = pending_acks.pop(0)
                self.begin()
                if k < len(self.ack_frames):
                    self.tr.feed(self.ack_frames[k])
                    self.acks.append((self.now(), k))
                    self.chron.append(('A', self.now(), k))
                    self.emit('A')
            else:
                _, action, idx = traffic.pop(0)
                self.do_action(action, idx)

    def _finish_calls(self):
        """after the end of the scenario: ask every call that is still around to do one more
        operation so that its final outcome is observable, then collect"""
        self.outcomes = []
        for c in self.calls:
            if c['rec']['state'] == 'idle':
                c['q'].put_nowait('park')
        self.loop.run_quiet(0.0)
        self.stalled = sum(1 for c in self.calls if c['rec']['state'].startswith('big:')) + \
            (1 if getattr(self, 'stalled_seen', False) else 0)
        for c in self.calls:
            r = c['rec']
            self.outcomes.append({'state': r['state'], 'exc': exc_name(r['exc']) if r['exc'] else None,
                                  'inflight': bool(c.get('inflight_at_close'))})


def run_impl(case):
    return Run(case).execute()


def model_line(case, events):
    c = case['cfg']
    en = 0 if c['time'] is None else 1
    head = [en, c['time'] or 0, c['timeout'], 1 if c['permit'] else 0, c['maxp'], c['minint'], case['t0']]
    return ' '.join(str(x) for x in head) + (' ' + ' '.join(events) if events else '')


# ------------------------------------------------------------------------------------------------
# direct oracle: the property statement on what was observed (never calls the model)

def oracle(case, r):
    """list of (what, signature) -- the property text evaluated on the observations of one run:
    PING instants at the peer, instants at which acknowledgements were fed, the instant grpclib
    closed the transport, HEADERS/DATA frames grpclib sent, h2's open-stream count when a timer step
    began, outcomes of the calls."""
    out = []
    c = case['cfg']
    time_, timeout, permit, maxp, minint = c['time'], c['timeout'], c['permit'], c['maxp'], c['minint']
    t0, end = case['t0'], r.end
    pings = r.pings
    acks = sorted(r.acks)                     # (fed at, index of the ping answered)
    ack_of = {k: a for a, k in acks}
    closed_at, lost_at = r.close_at, r.lost_at

    if r.unhandled:
        out.append(('exception escaped into the event loop: %s' % r.unhandled[0],
                    {'kind': 'loop_exception', 'exc': r.unhandled[0]}))
    if time_ is None:
        if pings or closed_at is not None:
            out.append(('keepalive disabled but a ping was sent / the connection was closed',
                        {'kind': 'disabled_not_inert'}))
        return out

    # ---- never drops a live peer
    timely = all((k in ack_of and ack_of[k] - p < timeout) or end - p < timeout
                 for k, p in enumerate(pings))
    if timely and closed_at is not None:
        out.append(('the peer acknowledged every ping within keepalive_timeout but keepalive closed the '
                    'connection at %d' % closed_at, {'kind': 'live_peer_dropped'}))

    # ---- "if a ping stays unanswered for keepalive_timeout the connection is closed"
    for k, p in enumerate(pings):
        if not case['peer'].get('fifo', True):
            break                  # a peer answering out of order is outside the property's quantifier
        deadline = p + timeout
        if k in ack_of and ack_of[k] <= deadline:
            continue
        if (lost_at is not None and lost_at <= deadline) or end <= deadline:
            continue
        if closed_at is None or closed_at > deadline:
            older = any(j < k and p <= a <= deadline for a, j in acks)
            out.append(('ping #%d sent at %d stayed unanswered for keepalive_timeout but the connection was %s'
                        % (k, p, 'not closed (run ended at %d)' % end if closed_at is None
                           else 'closed only at %d' % closed_at),
                        {'kind': 'unanswered_ping_not_closed', 'older_ack_in_window': older}))
            break

    # ---- "every keepalive_time a ping is sent whenever the configured limits allow it", never otherwise
    last_ping, run_len = None, 0
    fired = {}                 # grid instant -> allowed?
    chron = r.chron
    for i, e in enumerate(chron):
        if e[0] == 'P':
            on_grid = e[1] > t0 and (e[1] - t0) % time_ == 0
            if not on_grid or e[1] not in fired:
                out.append(('PING at %d outside the keepalive_time grid' % e[1], {'kind': 'ping_off_grid'}))
                break
            last_ping, run_len = e[1], run_len + 1
        elif e[0] in ('H', 'D'):
            run_len = 0
        elif e[0] in ('X', 'L'):
            break                      # closed: the timers are cancelled
        elif e[0] == 'F':
            q, n_open = e[1], e[2]
            if q <= t0 or (q - t0) % time_ != 0:
                continue
            allowed = (permit or n_open > 0) and (maxp == 0 or run_len < maxp) and \
                      (last_ping is None or q - last_ping >= minint)
            fired[q] = allowed
            step = []
            for f in chron[i + 1:]:
                if f[0] == 'F' or f[1] != q:
                    break
                step.append(f[0])
            if 'X' in step:
                continue               # close timer due at the same instant: either order is legitimate
            if allowed and 'P' not in step:
                out.append(('the limits allow a ping at %d (calls/permit, budget, interval) but none was sent'
                            % q, {'kind': 'ping_missing'}))
                break
            if not allowed and 'P' in step:
                out.append(('a ping was sent at %d although the configured limits forbid it' % q,
                            {'kind': 'ping_not_allowed'}))
                break
    stop = min(x for x in (closed_at, lost_at, end) if x is not None)
    q = t0 + time_
    while q < stop and not any(sig['kind'] in ('ping_missing', 'ping_not_allowed', 'ping_off_grid')
                               for _, sig in out):
        if q not in fired:
            out.append(('the ping timer did not run at %d' % q, {'kind': 'ping_timer_missed'}))
            break
        q += time_

    # ---- rate limits
    for a, b in zip(pings, pings[1:]):
        if b - a < minint or b - a < time_:
            out.append(('pings at %d and %d are closer than configured' % (a, b), {'kind': 'ping_rate'}))
            break
    if maxp != 0:
        n = 0
        for e in chron:
            if e[0] == 'P':
                n += 1
                if n > maxp:
                    out.append(('more than max_pings_without_data pings without data/headers sent in between',
                                {'kind': 'ping_budget'}))
                    break
            elif e[0] in ('H', 'D'):
                n = 0

    # ---- detection within keepalive_time + keepalive_timeout of the peer going silent
    sigma = max([t0] + [a + 1 for a, _ in acks])
    bound = sigma + time_ + timeout
    scan_broken = any(sig['kind'] in ('ping_missing', 'ping_not_allowed', 'ping_off_grid')
                      for _, sig in out)
    if lost_at is None and end > bound and not scan_broken:
        window = [q for q in fired if sigma <= q <= sigma + time_]
        if all(fired[q] for q in window) and (closed_at is None or closed_at > bound):
            out.append(('peer silent from %d while pings are allowed, yet not closed by %d '
                        '(sigma + keepalive_time + keepalive_timeout)' % (sigma, bound),
                        {'kind': 'silent_peer_not_detected'}))

    # ---- "the connection is closed and all its calls fail"
    if closed_at is not None:
        good = ('StreamTerminated',) if case['role'] == 'client' else ('StreamTerminated', 'Cancelled')
        for o in r.outcomes:
            if o['inflight'] and not (o['state'] == 'failed' and o['exc'] in good):
                out.append(('a call in flight when keepalive closed the connection did not fail '
                            '(state %s, exception %s)' % (o['state'], o['exc']),
                            {'kind': 'call_survives_close', 'exc': o['exc'], 'role': case['role']}))
                break
    return out


# ------------------------------------------------------------------------------------------------
# Configuration facts: validators and role defaults, model (generated table) vs. the real class

FIELDS = {'time': '_keepalive_time', 'timeout': '_keepalive_timeout',
          'permit': '_keepalive_permit_without_calls', 'maxp': '_http2_max_pings_without_data',
          'minint': '_http2_min_sent_ping_interval_without_data'}
VALUES = [None, True, False, -1, 0, 1, 2, 7200, -1.0, 0.0, 0.5, 2.0, 7200.0]


def impl_validate(field, value):
    from grpclib.config import Configuration
    try:
        Configuration(**{FIELDS[field]: value})
        return '1'
    except (TypeError, ValueError):
        return '0'


def model_validate_line(field, value):
    if value is None:
        v = 'none'
    elif isinstance(value, bool):
        v = 'bool:%d' % int(value)
    elif isinstance(value, int):
        v = 'int:%d' % value
    else:
        v = 'float:%d' % to_ticks(value)
    return 'validate %s %s' % (field, v)


def impl_defaults():
    from grpclib.config import Configuration
    out = []
    for role in ('server', 'client', 'test'):
        c = getattr(Configuration(), '__for_%s__' % role)()
        t = c._keepalive_time
        out.append('%s:%s,%d,%d,%d,%d' % (
            role, '-' if t is None else str(to_ticks(t)), to_ticks(c._keepalive_timeout),
            1 if c._keepalive_permit_without_calls else 0, c._http2_max_pings_without_data,
            to_ticks(c._http2_min_sent_ping_interval_without_data)))
    return ' '.join(out)


def run_none_limit(case):
    """Configuration accepts None for a limit; what does keepalive do then?"""
    from grpclib.config import Configuration
    kw = dict(_keepalive_time=1, _keepalive_timeout=0.5, _keepalive_permit_without_calls=True)
    kw[FIELDS[case['field']]] = None
    try:
        cfg = Configuration(**kw)
    except (TypeError, ValueError):
        return {'accepted': False}
    with vloop.session() as loop:
        if case['role'] == 'server':
            end = wire.ServerEnd(loop, [], config=cfg)
        else:
            end = wire.ClientEnd(loop, config=cfg)
            loop.create_task(end.channel.__connect__())
            loop.run_quiet(0.0)
        proto, tr, peer = end.conns[-1]
        from h2.events import PingReceived
        pings = []
        # a live peer: every PING is acknowledged at once (h2 does it; flushed from the loop)
        tr.on_write = lambda d: (peer.receive(d), loop.call_soon(peer.flush))
        loop.run_quiet(10.0)
        n = len([e for e in peer.events if isinstance(e, PingReceived)])
        armed = any(not is_close_handle(h) and h.when() > loop.time()
                    for h in conn_handles(loop, proto.connection))
        return {'accepted': True, 'pings': n, 'closing': tr.closing, 'timer_armed': armed,
                'unhandled': [type(c.get('exception')).__name__ for c in loop.unhandled]}


# ------------------------------------------------------------------------------------------------
# generators

def dy(rng, lo_exp, hi_exp):
    """a dyadic duration m * 2^e s in ticks, m in {1, 3, 5}, within [2^-10 s, 2^13 s]"""
    e = rng.randint(lo_exp, hi_exp)
    m = rng.choice([1, 1, 1, 3, 5])
    t = m * (1 << (e + 20)) if e + 20 >= 0 else 0
    return max(GRID, min(t, 1 << 33))


def gen_case(rng, kind=None):
    role = rng.choice(['server', 'client'])
    e = rng.randint(-10, 13)
    time_ = max(GRID, min(rng.choice([1, 1, 3, 5]) * (1 << (e + 20)), 1 << 33))
    rel = rng.choice(['lt', 'lt', 'eq', 'gt', 'mult', 'tiny'])
    if rel == 'lt':
        timeout = max(GRID, (time_ // rng.choice([2, 4, 8])) // GRID * GRID)
    elif rel == 'eq':
        timeout = time_
    elif rel == 'gt':
        timeout = time_ + max(GRID, (time_ // rng.choice([1, 2, 4])) // GRID * GRID)
    elif rel == 'mult':
        timeout = time_ * rng.choice([2, 3])
    else:
        timeout = GRID
    minint = rng.choice([GRID, GRID, max(GRID, time_ // 2 // GRID * GRID), time_, time_ + GRID,
                         2 * time_, 3 * time_, 300 * TPS])
    cfg = {'time': time_, 'timeout': timeout, 'permit': rng.random() < 0.6,
           'maxp': rng.choice([0, 0, 1, 2, 2, 3, 5]), 'minint': minint, 'as_int': rng.random() < 0.3}
    if rng.random() < 0.04:
        cfg['time'] = None
    periods = rng.choice([3, 5, 8, 12])
    t0 = rng.choice([0, 0, GRID, 5 * GRID, time_, 3 * TPS + GRID])
    horizon = t0 + periods * time_ + timeout + rng.choice([0, GRID, time_ // 2 // GRID * GRID])
    kind = kind or rng.choice(['live', 'live', 'stop', 'stop', 'never', 'late', 'boundary', 'old', 'mixed'])

    def frac(x, num, den):
        return (x * num // den) // GRID * GRID
    live = [0, GRID, frac(timeout, 1, 2), frac(timeout, 7, 8), timeout - GRID]
    live = sorted(set(d for d in live if 0 <= d < timeout))
    stop_at = None
    before = rng.random() < 0.5
    if kind == 'live':
        delays = [rng.choice(live) for _ in range(rng.randint(1, 3))]
    elif kind == 'stop':
        delays = [rng.choice(live) for _ in range(rng.randint(1, 3))]
        stop_at = t0 + rng.randint(1, max(1, periods * time_ // GRID)) * GRID
    elif kind == 'never':
        delays = [None]
    elif kind == 'late':
        delays = [rng.choice(live), timeout + rng.choice([GRID, time_, timeout])]
        rng.shuffle(delays)
    elif kind == 'boundary':
        delays = [timeout, rng.choice(live)]
        rng.shuffle(delays)
    elif kind == 'old':
        # acknowledgements that arrive after the NEXT ping went out (needs timeout > time to be "in time")
        delays = [time_ + rng.choice([GRID, frac(time_, 1, 2)]), rng.choice([None, rng.choice(live)])]
        stop_at = rng.choice([None, t0 + rng.randint(2, periods) * time_ + frac(time_, 1, 2)])
    else:
        pool = live + [timeout, timeout + GRID, None, time_ + GRID]
        delays = [rng.choice(pool) for _ in range(rng.randint(2, 5))]
    traffic = []
    credit = True
    pattern = rng.choice(['idle', 'idle', 'one_call', 'streaming', 'download', 'download', 'duplex', 'bigsend',
                          'bigsend', 'paused', 'paused', 'churn', 'churn'])
    span = horizon - t0
    if pattern == 'one_call':
        traffic.append([t0 + rng.randint(0, 3) * GRID, 'open', 0])
        if rng.random() < 0.5:
            traffic.append([t0 + rng.randint(1, max(1, span // GRID)) * GRID, rng.choice(['park', 'data']), 0])
    elif pattern == 'streaming':
        traffic.append([t0 + GRID, 'open', 0])
        step = max(GRID, frac(time_, rng.choice([1, 1, 3, 5]), rng.choice([2, 4])))
        t = t0 + GRID + step
        while t < horizon and len(traffic) < 40:
            traffic.append([t, 'data', 0])
            t += step
    elif pattern in ('download', 'duplex'):
        # receive-heavy: the peer streams messages which the application reads (credit goes back to the
        # peer); 'duplex' also sends now and then, after a long receive-only period
        traffic.append([t0 + GRID, 'open', 0])
        step = max(GRID, frac(time_, rng.choice([1, 1, 3, 5]), rng.choice([2, 4, 8])))
        t = t0 + GRID + step
        k = 0
        while t < horizon and len(traffic) < 60:
            k += 1
            send = pattern == 'duplex' and k % rng.choice([7, 11, 16]) == 0
            traffic.append([t, 'data' if send else 'recv', rng.randint(0, 4)])
            t += step
    elif pattern == 'paused':
        # a call in flight, then the transport pauses writing (the peer stopped reading) at some
        # instant, possibly resuming later; keepalive must go on pinging and detecting all the while
        traffic.append([t0 + rng.randint(0, 3) * GRID, 'open', 0])
        if rng.random() < 0.5:
            traffic.append([t0 + 4 * GRID, rng.choice(['park', 'data', 'recv']), 0])
        tp = t0 + 5 * GRID + rng.randint(0, max(1, (periods - 1) * time_ // GRID)) * GRID
        traffic.append([tp, 'pause', 0])
        if rng.random() < 0.4:
            traffic.append([tp + rng.randint(1, max(1, 3 * time_ // GRID)) * GRID, 'resume', 0])
            traffic.append([tp + 4 * time_, rng.choice(['data', 'recv']), 0])
    elif pattern == 'bigsend':
        # a quiet open call (the ping budget gets used up), then payloads of several DATA frames; the
        # peer may return no credit, so that a payload stalls with part of its frames on the wire
        credit = rng.random() < 0.4
        traffic.append([t0 + GRID, 'open', 0])
        t = t0 + GRID + rng.randint(1, max(1, periods - 1)) * time_ + frac(time_, rng.choice([1, 3]), 4)
        for _ in range(rng.randint(1, 4)):
            if t >= horizon:
                break
            traffic.append([t, rng.choice(['big', 'big', 'big', 'credit', 'data']), rng.randint(0, 3)])
            t += max(GRID, frac(time_, rng.choice([1, 2, 5]), 4))
    elif pattern == 'churn':
        credit = rng.random() < 0.7
        for _ in range(rng.randint(2, 14)):
            traffic.append([t0 + rng.randint(0, max(1, span // GRID)) * GRID,
                            rng.choice(['open', 'open', 'data', 'data', 'big', 'big', 'credit', 'recv', 'recv',
                                        'recv', 'park', 'cancel', 'finish', 'reset', 'pause', 'resume']), rng.randint(0, 4)])
        # make coincidences with the timer grid frequent
        for _ in range(rng.randint(0, 3)):
            traffic.append([t0 + rng.randint(1, periods) * time_, rng.choice(['open', 'data', 'recv', 'reset']), 0])
    if rng.random() < 0.05:
        traffic.append([t0 + rng.randint(1, max(1, span // GRID)) * GRID, 'lose', 0])
    traffic.sort(key=lambda x: x[0])
    noise = []
    if rng.random() < 0.5:
        for _ in range(rng.randint(1, 6)):
            noise.append(t0 + rng.choice([rng.randint(1, max(1, span // GRID)) * GRID,
                                          rng.randint(1, periods + 2) * time_,
                                          rng.randint(1, periods) * time_ + timeout]))
    return {'op': 'run', 'role': role, 't0': t0, 'cfg': cfg, 'kind': kind, 'pattern': pattern,
            'noise': sorted(noise),
            'peer': {'delays': delays, 'stop_at': stop_at, 'before_timer': before,
                     'fifo': rng.random() < 0.9, 'credit': credit},
            'traffic': traffic, 'horizon': horizon}


def signature(case, r):
    """distinct non-trivial case = (role, timeout vs time, limits shape, peer kind, traffic pattern,
    outcome shape)"""
    c = case['cfg']
    if c['time'] is None:
        rel = 'off'
    else:
        rel = 'lt' if c['timeout'] < c['time'] else ('eq' if c['timeout'] == c['time'] else 'gt')
    return (case['role'], rel, c['permit'], min(c['maxp'], 3),
            'min<=t' if c['time'] and c['minint'] <= c['time'] else 'min>t',
            case.get('kind'), case.get('pattern'), min(len(r.pings), 4), r.close_at is not None,
            min(len(r.acks), 3))


# ------------------------------------------------------------------------------------------------

def same_obs(model, impl):
    """model answer == observation, fields the implementation could not show ('?') skipped"""
    if model == impl:
        return True
    mi, ms = model.split('|')
    ii, is_ = impl.split('|')
    if mi != ii:
        return False
    mf, if_ = ms.split(','), is_.split(',')
    return len(mf) == len(if_) and all(y == '?' or x == y for x, y in zip(mf, if_))


def check_runs(ctx, res, cases, chunk=2000):
    for i in range(0, len(cases), chunk):
        check_runs_chunk(ctx, res, cases[i:i + chunk])


def check_runs_chunk(ctx, res, cases):
    runs = []
    for case in cases:
        try:
            r = run_impl(case)
        except Exception as e:        # the harness itself failed: the tie is broken, not the property
            res.disagreements.append({'case': case, 'model': None, 'impl': 'harness: %r' % (e,)})
            continue
        runs.append((case, r))
    model = ctx.model([model_line(case, r.events) for case, r in runs]) if (ctx.model_ok and runs) else None
    for i, (case, r) in enumerate(runs):
        res.evaluations += 1
        res.signatures.add(signature(case, r))
        res.count('role:' + case['role'])
        res.count('peer:' + str(case.get('kind')))
        res.count('traffic:' + str(case.get('pattern')))
        res.count('pings:%d' % min(len(r.pings), 6))
        res.count('closed_by_keepalive:%s' % (r.close_at is not None))
        res.count('steps:%d0+' % (len(r.events) // 10))
        if getattr(r, 'stalled', 0):
            res.count('send_stalled_under_flow_control')
        for cf in r.ties:
            res.count('tie:' + ('close_first' if cf else 'ping_first'))
        for e in r.events:
            res.count('ev:' + e[0])
        res.sample({'case': case, 'pings': r.pings, 'acks': r.acks, 'closed_at': r.close_at,
                    'end': r.end, 'calls': r.outcomes})
        if model is not None:
            res.traces += 1
            m = model[i].split() if model[i] != '-' else []
            bad = None
            if len(m) != len(r.obs):
                bad = 'length'
            else:
                for j, (a, b) in enumerate(zip(m, r.obs)):
                    if b is None:
                        continue
                    for it in a.split('|')[0].split(','):
                        res.count('model:' + it[0])
                    if not same_obs(a, b):
                        bad = j
                        break
            if bad is not None:
                j = bad if isinstance(bad, int) else 0
                res.disagreements.append({
                    'case': case, 'at_event': bad,
                    'events': r.events[max(0, j - 3):j + 1],
                    'model': m[max(0, j - 3):j + 1], 'impl': r.obs[max(0, j - 3):j + 1]})
        for what, sig in oracle(case, r):
            res.oracle_failures.append({'case': case, 'what': what, 'signature': sig,
                                        'observed': {'pings': r.pings, 'acks': r.acks,
                                                     'closed_at': r.close_at, 'end': r.end,
                                                     'calls': r.outcomes, 'unhandled': r.unhandled}})


def check_config(ctx, res, cases):
    lines, impl = [], []
    for c in cases:
        if c['op'] == 'validate':
            v = c['value']
            if isinstance(v, dict):
                v = v['v']
            lines.append(model_validate_line(c['field'], v))
            impl.append(impl_validate(c['field'], v))
        elif c['op'] == 'defaults':
            lines.append('defaults')
            impl.append(impl_defaults())
    model = ctx.model(lines) if (ctx.model_ok and lines) else None
    for i, c in enumerate(cases):
        res.evaluations += 1
        res.count('config:' + c['op'])
        res.signatures.add(('config', c['op'], c.get('field'), repr(c.get('value'))))
        if model is not None:
            res.traces += 1
            if model[i] != impl[i]:
                res.disagreements.append({'case': c, 'model': model[i], 'impl': impl[i]})
        if c['op'] == 'defaults':
            want = ('server:%d,%d,0,2,%d client:-,%d,0,2,%d test:-,%d,0,2,%d' % (
                7200 * TPS, 20 * TPS, 300 * TPS, 20 * TPS, 300 * TPS, 20 * TPS, 300 * TPS))
            if impl[i] != want:
                res.oracle_failures.append({'case': c, 'what': 'per-role keepalive defaults are not the '
                                            'documented ones (server 7200 s, client off)',
                                            'signature': {'kind': 'defaults'}, 'observed': impl[i]})
        else:
            v = c['value']['v'] if isinstance(c['value'], dict) else c['value']
            num = isinstance(v, (int, float)) and not isinstance(v, bool)
            f = c['field']
            if f in ('time', 'timeout', 'minint') and num and (impl[i] == '1') != (v > 0):
                res.oracle_failures.append({'case': c, 'what': 'validator of %s does not accept exactly the '
                                            'positive numbers' % f, 'signature': {'kind': 'validator', 'field': f},
                                            'observed': impl[i]})
            if f == 'maxp' and isinstance(v, int) and not isinstance(v, bool) and (impl[i] == '1') != (v >= 0):
                res.oracle_failures.append({'case': c, 'what': 'validator of max_pings_without_data does not '
                                            'accept exactly the non-negative ints',
                                            'signature': {'kind': 'validator', 'field': f}, 'observed': impl[i]})


def check_none_limit(ctx, res, cases):
    for c in cases:
        res.evaluations += 1
        res.count('config:none_limit')
        res.signatures.add(('none_limit', c['field'], c['role']))
        o = run_none_limit(c)
        if o['accepted'] and (o['unhandled'] or not o['timer_armed']):
            res.oracle_failures.append({
                'case': c, 'what': 'Configuration accepts None for %s; _is_need_send_ping then raises inside '
                'the ping timer, which is never re-armed: keepalive silently stops' % FIELDS[c['field']],
                'signature': {'kind': 'none_limit_kills_keepalive', 'field': c['field']}, 'observed': o})


def split_cases(cases):
    runs = [c for c in cases if c.get('op', 'run') == 'run']
    conf = [c for c in cases if c.get('op') in ('validate', 'defaults')]
    none = [c for c in cases if c.get('op') == 'none_limit']
    return runs, conf, none


def run(ctx):
    res = Result()
    rng = ctx.rng
    res.rule = ('scenarios on the virtual loop, real Server/Channel protocol objects + scripted h2 peer: PRNG '
                'configuration (keepalive_time m*2^e s, e in -10..13, m in {1,3,5}; timeout <, =, >, multiple of '
                'time or 2^-10 s; permit flag; max_pings 0..5; min interval from 2^-10 s to 3*time and the default '
                '300 s; int and float spellings; 4% keepalive off) x peer (acks after delay < timeout, = timeout '
                'before/after the timer, late, stops at T, never, acks older pings, mixed) x traffic (idle, one '
                'call, streaming data between pings, multi-frame payloads that stall under flow control with part of their '
                'DATA frames sent (peer returning no credit), pause_writing/resume_writing at arbitrary instants with a call '
                'in flight, receive-heavy downloads and duplex calls where the peer sends DATA '
                'that the application reads, calls opening/closing/reset, traffic on timer instants, '
                'connection loss) x start instant; finite horizon of 3..12 periods; every step compared with the '
                'model (items P/S/X with instants + counter, open streams, both timers, last ping, closed); '
                'Configuration validators on a value table and the role defaults; distinct = (role, timeout vs '
                'time, limits shape, peer kind, traffic pattern, #pings, closed?, #acks)')
    corpus = ctx.corpus()
    runs, conf, none = split_cases(corpus)
    n = ctx.n(6000, 100000)
    for _ in range(n):
        runs.append(gen_case(rng))
    conf += [{'op': 'validate', 'field': f, 'value': {'v': v}} for f in FIELDS for v in VALUES]
    conf.append({'op': 'defaults'})
    none += [{'op': 'none_limit', 'field': f, 'role': ro} for f in ('maxp', 'minint')
             for ro in ('server', 'client')]
    check_runs(ctx, res, runs)
    check_config(ctx, res, conf)
    check_none_limit(ctx, res, none)
    return res


def replay(ctx, case):
    res = Result()
    runs, conf, none = split_cases([case])
    check_runs(ctx, res, runs)
    check_config(ctx, res, conf)
    check_none_limit(ctx, res, none)
    return res
