"""C09 -- cancellation reaches the handler once; shutdown waits for handlers and ends.
Correspondence of Model/ServerLife.v with the real Server / Handler / EventsProcessor / request_handler /
Wrapper on the virtual-time loop (scripted scenarios, snapshot after every run-to-quiescence), direct
oracle on the instrumented user handlers, graceful_exit stage logic, and (thorough tier) loopback
sockets for Server.wait_closed with an idle client connection."""
import asyncio
import json
import logging
import socket
import time

from harness.core import Result
from harness import c09_util as U

PROPERTY = 'C09'
THEOREM_FILES = ['Props/C09.v']
ALLOWED_AXIOMS = []
LABEL = ('partial (handler life-cycle, cancellation causes, release, wait_closed and the graceful_exit stage '
         'logic are modelled and proved for all programs/cause sequences/schedules; OS signal delivery and '
         'socket teardown are runtime behaviour the model does not exhibit -- asyncio.Server.wait_closed is an '
         'assumption of the model, exercised on loopback sockets in the thorough tier only)')
TRUSTED = ['modelled, not verified: asyncio Task.cancel / step / done-callback semantics as encoded in '
           'Model/ServerLife.v (cancel_req collapse, never-run task), hyper-h2 (one StreamReset per stream, no '
           'event after the processors were deleted), asyncio.base_events.Server.wait_closed (Python 3.12.1: '
           'closed and no attached transport) re-implemented by harness/c09_util.AsyncioServerStandIn',
           'harness/c09_util.py: instrumented SS handler (await kinds recv_message / sleep / send_message with '
           'the peer stream window at 0 / send_trailing_metadata), instance-level wrapper of Handler.accept to '
           'learn the task (asyncio.all_tasks) and the release callback; Handler._tasks/_cancelled and Server._handlers '
           'are located by role (a mapping / a collection holding handler tasks, a collection holding the Handlers), '
           'never by name, and masked in the comparison when they cannot be located; EventsProcessor.streams, '
           'Stream.wrapper and Wrapper.cancelled are read through their public names']
ASSUMPTIONS = ['the transport is writable while a handler exits (no suspension in Stream.__aexit__)',
               'hyper-h2 emits at most one StreamReset per stream',
               'asyncio.Server.wait_closed has the Python 3.12.1 semantics (returns when closed and every '
               'accepted connection was detached by connection_lost)',
               'handlers that swallow CancelledError continue with recv_message / sleep only (what stream I/O '
               'does on a dead stream is C03/C07 territory)',
               'all external events happen at integer virtual instants, deadlines fire at half instants']

CAUSES = ('rst', 'deadline', 'goaway', 'protoerr', 'lost', 'srvclose')


# ---- generators -----------------------------------------------------------------------------------

def gen_prog(rng, beh):
    n = rng.choice([1, 1, 2, 2, 3, 4])
    if beh == 'sw':
        if rng.random() < 0.3:
            n += 4          # still busy after several cancellations
        return ''.join(rng.choice('RS') for _ in range(n))
    p = ''
    if rng.random() < 0.15:
        n += 3              # keeps working for a while after its trailers
    for k in range(n):
        if 'T' in p or 'X' in p:
            p += rng.choice('SSR') if 'T' in p else 'S'
        else:
            p += rng.choice('RSSWWTX' if k else 'RSSWWTX')
    return p


def gen_open(rng, c, i):
    beh = rng.choice(['h0', 'h1', 'h2', 'h2', 'h3', 'sw'])
    dl = rng.choice([0, 0, 0, 0, 1, 2, 3])
    return ['open', c, i, beh, dl, gen_prog(rng, beh)]


def gen_script(rng, big=False):
    s = []
    if rng.random() < 0.97:
        s.append(['start'])
    nconn = rng.choice([1, 1, 2, 2, 3])
    for _ in range(nconn):
        s.append(['connect', int(rng.random() < 0.35)])
    nxt = [0] * 32
    streams = []
    closed_srv = False

    def maybe_settle():
        if rng.random() < 0.7:
            s.append(['settle'])
    for _ in range(rng.choice([6, 10, 14, 20]) if not big else 40):
        r = rng.random()
        c = rng.randrange(nconn)
        if r < 0.22 or not streams:
            if big and rng.random() < 0.5:
                for _ in range(rng.choice([5, 9, 10, 11])):
                    s.append(['open', c, nxt[c], rng.choice(['h0', 'h1']), 0, rng.choice(['', 'S', 'R'])])
                    streams.append((c, nxt[c]))
                    nxt[c] += 1
            if rng.random() < 0.3:
                sub = [gen_open(rng, c, nxt[c])]
                streams.append((c, nxt[c]))
                i0 = nxt[c]
                nxt[c] += 1
                for _ in range(rng.choice([1, 1, 2])):
                    sub.append(rng.choice([['rst', c, i0], ['msg', c, i0], ['credit', c, i0], ['goaway', c]]))
                s.append(['batch', c, sub])
            else:
                s.append(gen_open(rng, c, nxt[c]))
                streams.append((c, nxt[c]))
                nxt[c] += 1
            maybe_settle()
        elif r < 0.34:
            s.append(['msg'] + list(rng.choice(streams)))
            maybe_settle()
        elif r < 0.44:
            s.append(['credit'] + list(rng.choice(streams)))
            maybe_settle()
        elif r < 0.62:
            s.append(['tick'])
        elif r < 0.74:
            if rng.random() < 0.5:
                s.append(['settle'])
            s.append(['rst'] + list(rng.choice(streams)))
            s.append(['settle'])
        elif r < 0.79:
            s.append(['goaway', c])
            maybe_settle()
        elif r < 0.82:
            s.append(['protoerr', c])
            maybe_settle()
        elif r < 0.88:
            s.append(['lose', c])
            maybe_settle()
        elif r < 0.94:
            s.append(['srvclose'])
            closed_srv = True
            maybe_settle()
        elif r < 0.97:
            s.append(['wait'])
            maybe_settle()
        else:
            # new client connections, singly or in bursts that cross the Server-level GC interval
            # (Server._protocol_factory -> __gc_step__ -> every 10th: __gc_collect__ of closing handlers)
            for _ in range(rng.choice([1, 1, 2, 5, 9, 10, 11] if (big or rng.random() < 0.3) else [1])):
                if nconn < 26:
                    s.append(['connect', int(rng.random() < 0.3)])
                    nconn += 1
    # epilogue: usually shut down and let every cleanup finish
    if rng.random() < 0.8:
        if not closed_srv:
            s.append(['srvclose'])
        s.append(['wait'])
        if rng.random() < 0.75:
            for c in range(nconn):
                s.append(['lose', c])
    s += [['tick']] * 5
    return s


def matrix_scripts():
    """cause x position in the life-cycle x behaviour, one handler under test plus a bystander on the
    same connection and one on another connection"""
    out = []
    progs = {'R': 'RS', 'S': 'SS', 'W': 'WS', 'afterT': 'WTS'}
    for cause in ('rst', 'goaway', 'protoerr', 'lose', 'srvclose', 'deadline'):
        for pos in ('before-run', 'R', 'S', 'W', 'afterT', 'in-cleanup', 'finished'):
            for beh in ('h0', 'h2', 'sw'):
                for lazy in (0, 1):
                    if beh == 'sw' and pos in ('W', 'afterT', 'in-cleanup'):
                        continue
                    prog = progs.get(pos, 'S')
                    if pos == 'finished':
                        prog = ''
                    dl = 0
                    if cause == 'deadline':
                        if pos in ('before-run', 'finished'):
                            continue
                        dl = 2 if pos == 'in-cleanup' else 1
                    s = [['start'], ['connect', lazy], ['connect', 0], ['connect', 1],     # conn 2 stays idle
                         ['open', 0, 1, 'h1', 0, 'SS'], ['open', 1, 0, 'h1', 0, 'R'], ['settle']]
                    inj = {'rst': ['rst', 0, 0], 'goaway': ['goaway', 0], 'protoerr': ['protoerr', 0],
                           'lose': ['lose', 0], 'srvclose': ['srvclose']}.get(cause)
                    op = ['open', 0, 0, beh, dl, prog]
                    if pos == 'before-run':
                        if cause in ('rst', 'goaway'):
                            s.append(['batch', 0, [op, inj]])
                        else:
                            s += [op, inj]
                        s.append(['settle'])
                    else:
                        s += [op, ['settle']]
                        if pos == 'afterT':
                            s += [['credit', 0, 0], ['settle']]
                        if pos == 'in-cleanup':
                            s += [['rst', 0, 0], ['settle']]
                        if inj is not None:
                            s += [inj, ['settle']]
                        else:
                            s += [['tick']]
                    s += [['tick'], ['srvclose'], ['wait'], ['tick'], ['lose', 0], ['lose', 1], ['tick'],
                          ['lose', 2]] + [['tick']] * 4
                    out.append({'kind': 'script', 'name': 'matrix:%s:%s:%s:%d' % (cause, pos, beh, lazy),
                                'script': s})
    return out


def gc_scripts():
    """Server-level and Handler-level GC at every alignment relative to a cancelled handler that is still
    in its slow cleanup: first cause x (connection dropped or not) x number of connections accepted before /
    after x accepts on the same connection, then Server.close(); wait_closed().  wait_closed() must not
    return before the cleanup has finished, whatever the sweeps collected."""
    out = []
    for first in ('rst', 'lose', 'deadline', 'goaway'):
      for beh, prog in (('h3', 'RS'), ('sw', 'RSSSSS')):     # a cleanup that a second cancel abandons (D20) /
        for drop in (0, 1):                                   # a handler that survives it and is still busy
            for before in (0, 3, 8, 9):
                for after in (0, 1, 9, 10, 11, 20):
                    if before + after > 22 or (beh == 'sw' and before == 3):
                        continue
                    s = [['start']] + [['connect', 0]] * (1 + before)
                    s += [['open', 0, 0, beh, 2 if first == 'deadline' else 0, prog],
                          ['open', 0, 1, 'h1', 0, ''], ['settle']]
                    if first == 'deadline':
                        s += [['tick'], ['tick']]
                    elif first == 'lose':
                        s += [['lose', 0], ['settle']]
                    else:
                        s += [[first, 0, 0] if first == 'rst' else [first, 0], ['settle']]
                    if drop and first != 'lose':
                        s += [['lose', 0], ['settle']]
                    s += [['connect', 0]] * after
                    s += [['srvclose'], ['wait'], ['settle']]
                    s += [['lose', c] for c in range(1 + before + after)]
                    s += [['settle']] + [['tick']] * 4
                    out.append({'kind': 'script', 'name': 'gc:%s:%s:drop%d:%d+%d' % (first, beh, drop, before, after),
                                'script': s})
    # Handler-level GC (every 10th accept on a connection) once and twice while an earlier handler is in a LATE
    # state -- still working after OK trailers, after non-OK trailers (stream closed by the server itself),
    # in the middle of its cleanup, cancelled but carrying on -- and then each shutdown path; every such handler
    # must still be cancelled by the shutdown and waited for by wait_closed()
    late = {'after-trailers': ('h1', 'TSSSSSS', None), 'after-error-trailers': ('h1', 'XSSSSSS', None),
            'after-message-and-trailers': ('h2', 'WTSSSSS', 'credit'), 'mid-cleanup': ('h3', 'SS', 'rst'),
            'cancelled-carrying-on': ('sw', 'SSSSSSS', 'rst'), 'plain': ('h2', 'SSSSSSS', None)}
    for state, (beh, prog, prep) in sorted(late.items()):
        for n in (9, 10, 11, 20, 21):
            for cause in (['srvclose'], ['lose', 0], ['goaway', 0], ['rst', 0, 0]):
                if cause[0] == 'rst' and prep == 'rst':
                    continue
                s = [['start'], ['connect', 0], ['connect', 0], ['open', 0, 0, beh, 0, prog], ['settle']]
                if prep == 'credit':
                    s += [['credit', 0, 0], ['settle']]
                elif prep == 'rst':
                    s += [['rst', 0, 0], ['settle']]
                s += [['open', 0, i, 'h1', 0, '' if i % 2 else 'S'] for i in range(1, n)]
                s += [['settle'], cause, ['settle'], ['open', 0, n, 'h1', 0, 'S'], ['settle'],
                      ['srvclose'], ['wait'], ['settle'], ['lose', 0], ['lose', 1], ['settle']] + [['tick']] * 4
                out.append({'kind': 'script', 'name': 'hgc:%s:%d:%s' % (state, n, cause[0]), 'script': s})
    return out


def pair_script(a, b, lazy):
    """first cause a, the handler enters its 2-step cleanup, second cause b"""
    inj = {'rst': ['rst', 0, 0], 'goaway': ['goaway', 0], 'protoerr': ['protoerr', 0], 'lost': ['lose', 0],
           'srvclose': ['srvclose']}
    s = [['start'], ['connect', lazy], ['open', 0, 0, 'h2', 1 if 'deadline' in (a, b) else 0, 'SS'], ['settle']]
    if a == 'deadline':
        s.append(['tick'])
    else:
        s += [inj[a], ['settle']]
    if b == 'deadline':
        if a == 'deadline':
            return None
        s.append(['tick'])
    else:
        s += [inj[b], ['settle']]
    s += [['tick']] * 3 + [['lose', 0]] + [['tick']] * 4
    return s


MODEL_CAUSE = {'rst': 'rst', 'deadline': 'dl', 'goaway': 'ga', 'protoerr': 'ga', 'lost': 'lo', 'srvclose': 'sc'}


# ---- direct oracle --------------------------------------------------------------------------------

def oracle(out):
    """The property on the implementation's behaviour alone.  -> list of (what, signature).
    out['causes'] = [(clock, kind, {handler: phase at that moment})] for every cancellation cause that
    was injected (kind in CAUSES); every CancelledError a handler saw carries the clock of its delivery."""
    fails = []
    ev = out['events']
    recs = {r['key']: r for r in out['recs'] if r['reached']}
    final = out['final']
    views = [e[2] for e in ev] + [final]
    for k, r in recs.items():
        fin = final.get(k)
        if fin is None:
            continue
        hits = [(c[0], c[1], c[2][k], c[3]) for c in out['causes'] if k in c[2]]
        # attribute each delivery to the cause(s) that reached the handler since the previous delivery
        prev, labels, implicit = 0, [], []
        for (clk, where) in r['deliveries']:
            win = [h for h in hits if prev < h[0] <= clk]
            cands = sorted(set(h[1] for h in win))
            labels.append(cands[0] if len(cands) == 1 else ('multiple' if cands else '?'))
            # the only cause is the connection_lost that an ordinary transport delivers by itself right after
            # EventsProcessor.close(): nothing can run in between, it must collapse with the first cancel
            implicit.append(bool(win) and all(h[1] == 'lost' and h[3] for h in win))
            prev = clk
        # (1) exactly once: no CancelledError inside the cleanup ...
        for n, (clk, where) in enumerate(r['deliveries']):
            if where == 'cleanup':
                pair = '%s>%s' % (labels[n - 1] if n else '?', labels[n])
                fails.append(('a second CancelledError was delivered inside the cleanup of handler %s (%s)' % (k, pair),
                              {'kind': 'second-cancel-in-cleanup', 'pair': pair, 'implicit_lost': implicit[n]}))
        nmain = len([d for d in r['deliveries'] if d[1] == 'main'])
        if r['beh'] != 'sw':
            if nmain > 1:
                fails.append(('handler %s saw %d cancellations at its main awaits' % (k, nmain),
                              {'kind': 'cancelled-more-than-once'}))
            # ... and the cleanup runs to completion
            if nmain == 1 and r['nhit'] == 0 and fin[0] == 'F' and not r['cleanup_done']:
                fails.append(('handler %s finished without completing its cleanup' % k,
                              {'kind': 'cleanup-not-completed'}))
        if len(r['deliveries']) > len(hits):
            fails.append(('handler %s: %d cancellations for %d causes' % (k, len(r['deliveries']), len(hits)),
                          {'kind': 'more-cancellations-than-causes'}))
        # (2) every affected handler is cancelled: a running one sees CancelledError at its current await,
        #     one that never ran just ends
        running_hits = [h for h in hits if h[2][0] in 'RK']
        if running_hits and r['ncancel'] == 0:
            fails.append(('handler %s was at %s when %s happened but never saw CancelledError' %
                          (k, running_hits[0][2], running_hits[0][1]),
                          {'kind': 'cancellation-not-delivered', 'cause': running_hits[0][1]}))
        if hits and out['drained'] and r['beh'] != 'sw' and fin[0] != 'F':
            fails.append(('handler %s was hit by %s but is still %s at the end' % (k, hits[0][1], fin[0]),
                          {'kind': 'cancelled-handler-not-finished', 'cause': hits[0][1]}))
        if not r['entered'] and r['ncancel']:
            fails.append(('handler %s counted a cancellation without having been entered' % k,
                          {'kind': 'harness-inconsistent'}))
        if r['exc'] is not None:
            fails.append(('handler %s raised %s' % (k, r['exc']), {'kind': 'handler-exception', 'exc': r['exc']}))
    # (3) registry: a stream is registered exactly while its handler task is unfinished (released once:
    #     never released early, never left behind -- including handlers that never ran)
    for j, v in enumerate([] if out.get('midloop') else views):
        for k, st in v.items():
            if (st[0] == 'F') == bool(st[4]):
                fails.append(('handler %s is %s but its stream is %sregistered' % (k, st[0], '' if st[4] else 'not '),
                              {'kind': 'release-mismatch', 'finished': st[0] == 'F',
                               'never_ran': not recs.get(k, {}).get('entered', True)}))
                break
    # (4) isolation: a reset of one stream (a close of one connection) leaves the other handlers alone
    for j in range(1, len(ev) - 1):
        it, eff, before, after = ev[j]
        if not eff or ev[j - 1][0][0] not in ('settle', 'tick') or ev[j + 1][0][0] != 'settle':
            continue
        if it[0] == 'rst':
            me = '%d.%d' % (it[1], it[2])
            others = [k for k in before if k != me]
        elif it[0] in ('goaway', 'protoerr', 'lose'):
            others = [k for k in before if not k.startswith('%d.' % it[1])]
        else:
            continue
        later = ev[j + 1][3]
        for k in others:
            if before[k] != later.get(k):
                fails.append(('%s changed handler %s: %r -> %r' % (it[0], k, before[k], later.get(k)),
                              {'kind': 'not-isolated', 'cause': it[0]}))
    for e in out['errors']:
        if e[0] == 'data_received':
            fails.append(('%s escaped H2Protocol.%s on connection %d' % (e[2], e[0], e[1]),
                          {'kind': 'exception-escaped-data_received', 'exc': e[2]}))
    for u in out['unhandled']:
        fails.append(('unhandled exception in the loop: %s' % u, {'kind': 'loop-unhandled-exception'}))
    # (5) wait_closed returns only when every handler has finished, and does return once they have
    for allfin, alllost, w in out['wait_log']:
        if w == 'done' and not allfin:
            fails.append(('wait_closed() returned while a handler was still running', {'kind': 'wait-closed-early'}))
            break
    if out['wait_log']:
        allfin, alllost, w = out['wait_log'][-1]
        if w == 'pending' and allfin and alllost and out['srvclosed']:
            fails.append(('wait_closed() still pending although every handler finished and every connection is gone',
                          {'kind': 'wait-closed-hangs'}))
    return fails


# ---- running cases --------------------------------------------------------------------------------

def run_case_impl(case):
    kind = case.get('kind', 'script')
    if kind == 'script':
        out = U.run_script(case['script'])
        out['drained'] = case['script'][-4:] == [['tick']] * 4
        return out
    if kind == 'micro':
        return MICRO[case['name']]()
    raise ValueError(kind)


def sig_of(out):
    """distinct non-trivial = distinct multiset of per-handler life histories"""
    hist = {}
    for v in [e[2] for e in out.get('events', [])] + [out.get('final', {})]:
        for k, st in v.items():
            h = hist.setdefault(k, [])
            t = (st[0][0], st[1], st[2])
            if not h or h[-1] != t:
                h.append(t)
    return tuple(sorted(tuple(h) for h in hist.values()))


def check_cases(ctx, res, cases):
    outs = []
    for case in cases:
        try:
            outs.append(run_case_impl(case))
        except Exception as e:          # the harness itself failed on this case
            outs.append({'harness_error': '%s: %s' % (type(e).__name__, e)})
    lines = [o.get('ops', 'run') for o in outs]
    model = ctx.model(lines) if ctx.model_ok else None
    for n, (case, out) in enumerate(zip(cases, outs)):
        res.evaluations += 1
        if 'harness_error' in out:
            res.disagreements.append({'case': case, 'model': None, 'impl': out['harness_error']})
            continue
        res.count('case:' + case.get('kind', 'script'))
        for r in out.get('recs', []):
            res.count('handler:beh=%s' % r['beh'])
            res.count('handler:end=%s%s' % (r['phase'][0], ':never-run' if not r['entered'] else ''))
            res.count('handler:cancels=%d' % min(r['ncancel'], 3))
        for e in out.get('events', []):
            if e[1] and e[0][0] in ('rst', 'goaway', 'protoerr', 'lose', 'srvclose', 'batch', 'wait', 'tick'):
                res.count('op:' + e[0][0])
        res.signatures.add(sig_of(out))
        res.sample({'case': case, 'model_line': out['ops'][:300], 'final': out['snaps'][-1] if out['snaps'] else ''},
                   limit=4)
        if model is not None:
            res.traces += 1
            msn = [] if model[n] == '-' else model[n].split(' | ')
            avail = out.get('avail', {})
            for r, ok in avail.items():
                if not ok:
                    res.count('internal-observation-unavailable:' + r)
            canon = [U.canon_model_snapshot(x, avail) for x in msn]
            mm = [c[0] for c in canon]
            isn = [U.mask_impl_snapshot(x, avail) for x in out['snaps']]
            if mm != isn or not all(c[1] for c in canon):
                first = next((i for i, (a, b) in enumerate(zip(mm, isn)) if a != b), min(len(mm), len(isn)))
                res.disagreements.append({'case': case,
                                          'model': {'line': out['ops'], 'at': first, 'snap': mm[first:first + 1]},
                                          'impl': {'snap': isn[first:first + 1]}})
        for what, sig in oracle(out):
            res.oracle_failures.append({'case': case, 'what': what, 'signature': sig,
                                        'observed': {'recs': out['recs'], 'final': out['snaps'][-1:] }})


# ---- micro scenarios: interleavings finer than run-to-quiescence -----------------------------------

def micro_gc_keyerror():
    """Server.close() cancels a handler task that has not run yet; the task ends (cancelled) but its
    done-callback -- the only thing that releases a never-run task's stream -- has not run; in that
    loop iteration the connection reads HEADERS of a 10th stream (Handler.accept -> __gc_collect__ drops
    the finished task from _tasks) followed by RST_STREAM of the cancelled stream.  (D91, repaired in
    c48c3b0: Handler.cancel used to raise KeyError out of data_received here.)"""
    from harness import vloop
    with vloop.session() as loop:
        sc = U.Scenario(loop)
        for it in [['start'], ['connect', 0]] + [['open', 0, i, 'h1', 0, 'S'] for i in range(8)] + [['settle']]:
            sc.do(it)
        proto, tr, peer = sc.conns[0]

        def feed1():
            sc.do(['open', 0, 8, 'h1', 0, 'S'])        # accept #9; its task is scheduled
            loop.call_soon(feed2)

        def feed2():
            sc.ops += ['ru', '0', '8']                 # the task's (cancelled) first step ran just before
            sc.do(['batch', 0, [['open', 0, 9, 'h1', 0, 'S'], ['rst', 0, 8]]])
        loop.call_soon(feed1)
        loop.call_soon(lambda: sc.do(['srvclose']))
        sc.settle()
        for it in [['tick'], ['tick'], ['tick']]:
            sc.do(it)
        sc.settle()
        return _finish_micro(sc, loop)


def micro_data_goaway_same_read():
    """DATA (wakes the handler) and GOAWAY in one read on an ordinary connection: the handler's wake-up
    is queued before connection_lost, so it is cancelled by GOAWAY, starts its cleanup, and
    connection_lost then cancels it a second time."""
    from harness import vloop
    with vloop.session() as loop:
        sc = U.Scenario(loop)
        for it in [['start'], ['connect', 0], ['open', 0, 0, 'h2', 0, 'RS'], ['settle']]:
            sc.do(it)
        proto, tr, peer = sc.conns[0]
        # no settle between the two frames, and none before the GOAWAY
        sc.same_read = True
        for it in (['msg', 0, 0], ['goaway', 0]):
            toks = sc._frames(it)
            sc.ops += toks
        before = sc.view()
        sc._flush(0)
        sc._note_close(0)
        sc.events.append((['goaway', 0], True, before, sc.view()))
        sc.ops += ['ru', '0', '0']                     # FIFO: the wake-up precedes connection_lost
        sc.settle()
        for it in [['tick'], ['tick'], ['tick']]:
            sc.do(it)
        sc.settle()
        return _finish_micro(sc, loop)


def _finish_micro(sc, loop):
    out = U.collect(sc, loop)
    out['drained'] = True
    out['midloop'] = True        # views are taken between callbacks of one loop iteration
    return out


MICRO = {'gc-keyerror': micro_gc_keyerror, 'data-goaway-same-read': micro_data_goaway_same_read}


# ---- graceful_exit --------------------------------------------------------------------------------

class FakeServer:
    def __init__(self, started):
        self.started, self.closes = started, 0

    def close(self):
        if not self.started:
            raise RuntimeError('Server is not started')
        self.closes += 1


class SignalRecorder:
    """stands for the loop in graceful_exit(servers, loop=...): remembers what add_signal_handler registers"""

    def __init__(self):
        self.handlers = {}

    def add_signal_handler(self, sig, callback, *args):
        self.handlers[sig] = (callback, args)

    def remove_signal_handler(self, sig):
        self.handlers.pop(sig, None)


def graceful_impl(bits, sigs, real, loop):
    """graceful_exit through its public API: the signal handlers it registers are called as the loop would"""
    import warnings
    from grpclib.utils import graceful_exit
    from grpclib.server import Server
    servers = []
    for b in bits:
        if real:
            s = Server([])
            s.closes = 0
            if b == '1':
                class A:
                    def __init__(self, owner):
                        self.owner = owner

                    def close(self):
                        self.owner.closes += 1

                    async def wait_closed(self):
                        return None
                U.start_server(loop, s, A(s))
            servers.append(s)
        else:
            servers.append(FakeServer(b == '1'))
    rec, exits = SignalRecorder(), []
    with warnings.catch_warnings():
        warnings.simplefilter('ignore')
        with graceful_exit(servers, loop=rec, signals=sorted(set(sigs)) or (2, 15)):
            for sg in sigs:
                cb, args = rec.handlers[sg]
                try:
                    cb(*args)
                except SystemExit as e:
                    exits.append(e.code)
    flag = None
    return [s.closes for s in servers], flag, exits


def check_graceful(ctx, res, cases):
    from harness import vloop
    lines = ['gx %s %s' % (b or '-', ','.join(map(str, s)) or '-') for b, s, _ in cases]
    model = ctx.model(lines) if ctx.model_ok else None
    with vloop.session() as loop:
        for n, (bits, sigs, real) in enumerate(cases):
            impl = graceful_impl(bits, sigs, real, loop)
            res.evaluations += 1
            res.count('graceful:%s' % ('all-started' if '0' not in bits else 'some-not-started'))
            res.signatures.add(('gx', bits, len(sigs)))
            case = {'kind': 'graceful', 'bits': bits, 'sigs': list(sigs), 'real': real}
            if model is not None:
                res.traces += 1
                w = model[n].split()
                # the `flag` list is private to graceful_exit: its effect shows in the later signals
                m = ([] if w[0] == '-' else [int(x) for x in w[0].split(',')], None,
                     [] if w[2] == '-' else [int(x) for x in w[2].split(',')])
                if m != impl:
                    res.disagreements.append({'case': case, 'model': m, 'impl': impl})
            closes, flag, exits = impl
            bad = None
            if sigs:
                if '0' not in bits:
                    if closes != [1] * len(bits):
                        bad = 'servers not closed exactly once: %r' % closes
                    elif exits != [128 + s for s in sigs[1:]]:
                        bad = 'second and later signals must raise SystemExit(128+sig): %r' % exits
                elif not exits or exits[0] != 128 + sigs[0]:
                    bad = 'a server was not started, the first signal must go to the second stage: %r' % exits
            if bad:
                res.oracle_failures.append({'case': case, 'what': bad, 'signature': {'kind': 'graceful-exit'},
                                            'observed': impl})


# ---- one Wrapper, several tasks ------------------------------------------------------------------------------

def wrapper_impl(ntasks, ops):
    """The public grpclib.utils.Wrapper driven by several tasks: 'e<t>' task t enters `with wrapper` and blocks
    inside, 'x<t>' it leaves, 'k' wrapper.cancel(error).  -> (cancelled, refused, failures of the oracle)"""
    from harness import vloop
    from grpclib.utils import Wrapper

    class Woken(Exception):
        pass
    with vloop.session() as loop:
        w = Wrapper()
        inbox = [asyncio.Queue() for _ in range(ntasks)]
        inside = [False] * ntasks
        cancelled, refused, stray = [], [], []

        async def worker(t):
            while True:
                try:
                    cmd = await inbox[t].get()
                except asyncio.CancelledError:
                    stray.append(t)                 # cancelled while OUTSIDE the with-block
                    continue
                if cmd == 'stop':
                    return
                if cmd != 'e':
                    continue
                try:
                    with w:
                        inside[t] = True
                        try:
                            await inbox[t].get()      # blocked inside, until told to leave
                        finally:
                            inside[t] = False
                except Woken:
                    (cancelled if t in was_inside else refused).append(t)
                except asyncio.CancelledError:
                    stray.append(t)
        tasks = [loop.create_task(worker(t)) for t in range(ntasks)]
        loop.run_quiet(0.0)
        fails, effective = [], []
        for op in ops:
            if op == 'k':
                was_inside = {t for t in range(ntasks) if inside[t]}
                before = list(cancelled)
                w.cancel(Woken())
                loop.run_quiet(0.0)
                # a task woken inside its with-block leaves it (its __exit__ runs): that is an exit of its own
                effective += ['k'] + ['x%d' % t for t in sorted(was_inside) if not inside[t]]
                woken = list(cancelled)
                for t in before:
                    woken.remove(t)
                missed = sorted(was_inside - set(woken))
                if missed:
                    fails.append(('task(s) %r blocked inside `with wrapper` were not woken by Wrapper.cancel' % missed,
                                  {'kind': 'wrapper-task-not-cancelled'}))
            else:
                was_inside = {t for t in range(ntasks) if inside[t]}
                t = int(op[1:])
                if op[0] == 'e' and inside[t] or op[0] == 'x' and not inside[t]:
                    continue
                effective.append(op)
                inbox[t].put_nowait(op[0])
                loop.run_quiet(0.0)
        if stray:
            fails.append(('task(s) %r were cancelled by Wrapper.cancel while outside the with-block' % sorted(set(stray)),
                          {'kind': 'wrapper-outside-task-cancelled'}))
        for t in range(ntasks):
            inbox[t].put_nowait('stop')
            inbox[t].put_nowait('stop')
        loop.run_quiet(0.0)
        for t in tasks:
            t.cancel()
        return sorted(cancelled), sorted(refused), fails, effective


def gen_wrapper_ops(rng, ntasks):
    inside, ops, cancelled = set(), [], False
    for _ in range(rng.choice([3, 5, 8, 12])):
        t = rng.randrange(ntasks)
        r = rng.random()
        if r < 0.12 and ops:
            ops.append('k')
            inside = set()
        elif t in inside:
            ops.append('x%d' % t)
            inside.discard(t)
        else:
            ops.append('e%d' % t)
            inside.add(t)
    ops.append('k')
    if rng.random() < 0.5:
        ops.append('e%d' % rng.randrange(ntasks))
    return ops


def check_wrapper_tasks(ctx, res, cases):
    impl = [wrapper_impl(ntasks, ops) for ntasks, ops in cases]
    lines = ['wset ' + ' '.join(r[3]) for r in impl]
    model = ctx.model(lines) if ctx.model_ok else None
    for n, (ntasks, ops) in enumerate(cases):
        cancelled, refused, fails, _ = impl[n]
        res.evaluations += 1
        res.count('wrapper-tasks:%d' % ntasks)
        res.signatures.add(('wset', tuple(ops)))
        case = {'kind': 'wrapper-tasks', 'ntasks': ntasks, 'ops': ops}
        if model is not None:
            res.traces += 1
            w = model[n].split()
            m = ([] if w[0] == '-' else [int(x) for x in w[0].split(',')],
                 [] if w[1] == '-' else [int(x) for x in w[1].split(',')])
            if m != (cancelled, refused):
                res.disagreements.append({'case': case, 'model': m, 'impl': (cancelled, refused)})
        for what, sig in fails:
            res.oracle_failures.append({'case': case, 'what': what, 'signature': sig,
                                        'observed': {'cancelled': cancelled, 'refused': refused}})


def wrapper_cases(ctx):
    import itertools
    cases = []
    # every order of entering and leaving of two and three tasks (each enters once, a prefix of them leaves)
    for nt in (2, 3):
        for enter in itertools.permutations(range(nt)):
            for k in range(nt):
                for leave in itertools.permutations(range(nt), k):
                    cases.append((nt, ['e%d' % t for t in enter] + ['x%d' % t for t in leave] + ['k', 'e0']))
    # re-entry after leaving, in both orders
    cases += [(2, ['e0', 'e1', 'x0', 'e0', 'k']), (2, ['e0', 'e1', 'x1', 'e1', 'x0', 'k']),
              (3, ['e0', 'e1', 'e2', 'x0', 'x1', 'e0', 'k', 'e1'])]
    for _ in range(ctx.n(150, 3000)):
        nt = ctx.rng.choice([2, 2, 3, 4])
        cases.append((nt, gen_wrapper_ops(ctx.rng, nt)))
    return cases


# ---- loopback sockets: Server.wait_closed with an idle client connection (thorough tier) -----------

def loopback_wait_closed(idle, close_client_after, budget=5.0):
    """real asyncio loop, real sockets, real time (bounded).  -> (returned?, seconds)"""
    from grpclib.server import Server

    async def main():
        server = Server([])
        lsock = socket.socket()
        lsock.bind(('127.0.0.1', 0))
        port = lsock.getsockname()[1]
        await server.start(sock=lsock)
        socks = []
        for _ in range(idle):
            s = socket.create_connection(('127.0.0.1', port))
            socks.append(s)
        await asyncio.sleep(0.1)
        server.close()
        t0 = time.monotonic()
        w = asyncio.ensure_future(server.wait_closed())
        if close_client_after is not None:
            await asyncio.sleep(close_client_after)
            for s in socks:
                s.close()
        done, _ = await asyncio.wait([w], timeout=budget - (time.monotonic() - t0) - 0.5)
        dt = time.monotonic() - t0
        ret = bool(done)
        if not ret:
            for s in socks:
                s.close()
            try:
                await asyncio.wait_for(w, 2)
            except Exception:
                w.cancel()
        else:
            for s in socks:
                s.close()
        return ret, dt
    loop = asyncio.new_event_loop()
    asyncio.set_event_loop(loop)
    try:
        return loop.run_until_complete(asyncio.wait_for(main(), budget + 3))
    finally:
        loop.close()
        asyncio.set_event_loop(None)


def check_loopback(ctx, res):
    for idle, closing in [(0, None), (1, None), (2, None), (1, 0.3)]:
        case = {'kind': 'loopback', 'idle': idle, 'close_client_after': closing}
        try:
            ret, dt = loopback_wait_closed(idle, closing)
        except Exception as e:
            res.notes.append('loopback scenario %r could not run: %s' % (case, e))
            continue
        res.evaluations += 1
        res.count('loopback:idle=%d:%s' % (idle, 'returned' if ret else 'hung'))
        res.signatures.add(('loopback', idle, closing))
        # no handler exists at all: wait_closed() must return promptly after close()
        if not ret:
            res.oracle_failures.append({
                'case': case, 'what': 'Server.wait_closed() did not return within %.1fs of close() although no '
                'handler was running (%d idle client connection(s) still open)' % (dt, idle),
                'signature': {'kind': 'wait-closed-idle-connection'}, 'observed': {'returned': ret, 'seconds': round(dt, 1)}})


# ---- driver ---------------------------------------------------------------------------------------

def pair_cases():
    out = []
    for a in CAUSES:
        for b in CAUSES:
            for lazy in (0, 1):
                s = pair_script(a, b, lazy)
                if s is not None:
                    out.append({'kind': 'script', 'name': 'pair:%s>%s:%d' % (a, b, lazy), 'script': s})
    return out


def check_pair_table(ctx, res):
    """the model's cause-pair table (theorem C09_pair_table) against the real code"""
    if not ctx.model_ok:
        return
    pairs = [(a, b) for a in CAUSES for b in CAUSES if a != 'protoerr' and b != 'protoerr' and (a, b) != ('deadline', 'deadline')]
    model = ctx.model(['pair %s %s' % (MODEL_CAUSE[a], MODEL_CAUSE[b]) for a, b in pairs])
    for (a, b), m in zip(pairs, model):
        out = U.run_script(pair_script(a, b, 1))
        impl = any(r['nhit'] > 0 for r in out['recs'])
        res.evaluations += 1
        res.traces += 1
        res.count('pair-table:%s' % ('lands' if impl else 'safe'))
        if impl != (m == '1'):
            res.disagreements.append({'case': {'kind': 'pair-table', 'a': a, 'b': b}, 'model': m, 'impl': impl})


def run(ctx):
    logging.disable(logging.CRITICAL)
    res = Result()
    rng = ctx.rng
    res.rule = ('scripted scenarios on the real Server/Handler/EventsProcessor: 1-6 connections (35% of them with '
                'delayed connection_lost, some idle), instrumented SS handlers with PRNG programs over '
                '{recv_message, sleep, send_message at window 0, send_trailing_metadata} honouring (0-3 step '
                'cleanup) or swallowing cancellation, optional grpc-timeout; PRNG interleavings of open / message / '
                'credit / tick / RST / GOAWAY / protocol error / connection_lost / Server.close / wait_closed, with '
                'and without a loop run in between (HEADERS+RST in one read); complete matrix cause x life-cycle '
                'position x behaviour x transport kind; complete cause-pair matrix; Server-level and Handler-level GC '
                'sweeps (bursts of up to 25 connections / 20 accepts) at every alignment relative to a cancelled '
                'handler in its cleanup, followed by Server.close + wait_closed; micro-interleavings; '
                'graceful_exit over all started/not-started vectors up to 3 servers x signal sequences up to 3; '
                'one public Wrapper driven by 2-4 tasks entering and leaving in every order (not LIFO), then cancel(); '
                'distinct = distinct multiset of per-handler (phase, cancels, cleanup-hits) histories')
    cases = list(ctx.corpus())
    cases += matrix_scripts()
    cases += pair_cases()
    cases += gc_scripts()
    cases += [{'kind': 'micro', 'name': n} for n in sorted(MICRO)]
    for _ in range(ctx.n(500, 12000)):
        cases.append({'kind': 'script', 'script': gen_script(rng)})
    for _ in range(ctx.n(20, 300)):
        cases.append({'kind': 'script', 'script': gen_script(rng, big=True)})
    scripts = [c for c in cases if c.get('kind', 'script') in ('script', 'micro')]
    check_cases(ctx, res, scripts)
    check_pair_table(ctx, res)
    gx = []
    for n in range(0, 4):
        for v in range(2 ** n):
            bits = format(v, '0%db' % n) if n else ''
            for sigs in ([], [2], [15], [2, 2], [2, 15], [15, 2, 2]):
                gx.append((bits, sigs, False))
                if n <= 2:
                    gx.append((bits, sigs, True))
    gx += [(c['bits'], c['sigs'], c['real']) for c in cases if c.get('kind') == 'graceful']
    check_graceful(ctx, res, gx)
    check_wrapper_tasks(ctx, res, [(c['ntasks'], c['ops']) for c in cases if c.get('kind') == 'wrapper-tasks'] +
                        wrapper_cases(ctx))
    if ctx.tier == 'thorough':
        check_loopback(ctx, res)
    else:
        res.notes.append('loopback-socket scenarios for Server.wait_closed with an idle connection (D10) run in the '
                         'thorough tier only')
    return res


def replay(ctx, case):
    logging.disable(logging.CRITICAL)
    res = Result()
    kind = case.get('kind', 'script')
    if kind in ('script', 'micro'):
        check_cases(ctx, res, [case])
    elif kind == 'graceful':
        check_graceful(ctx, res, [(case['bits'], case['sigs'], case['real'])])
    elif kind == 'pair-table':
        check_pair_table(ctx, res)
    elif kind == 'wrapper-tasks':
        check_wrapper_tasks(ctx, res, [(case['ntasks'], case['ops'])])
    elif kind == 'loopback':
        ret, dt = loopback_wait_closed(case['idle'], case['close_client_after'])
        res.evaluations = 1
        if not ret:
            res.oracle_failures.append({'case': case, 'what': 'Server.wait_closed() did not return (%.1fs)' % dt,
                                        'signature': {'kind': 'wait-closed-idle-connection'},
                                        'observed': {'returned': ret}})
    return res
