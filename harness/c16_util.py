"""C16 helper: a ClientEnd whose connection attempts resolve ON COMMAND, plus the command interpreter
that drives one C16 case on the real grpclib Channel and records the observables.

A case is  {'script': [[outcome, mode], ...], 'ka': bool, 'batches': [[stim, ...], ...]}
  outcome 'ok' | 'fail';  mode 'd' (deferred: `_create_connection` awaits until a `resolve` stimulus)
                               | 'i' (inline: `_create_connection` returns / raises without suspending)
  stim:  ['start'] | ['resolve'] | ['cancel', k] | ['lose', c] |
         ['goaway', c] or ['goaway', c, error_code, 'zero'|'seen'|'max', debug] (last_stream_id 0 / highest seen / 2**31-1) | ['kaclose'] |
         ['close'] | ['pause', c] | ['resume', c] | ['answer', k] |
         ['startstream'] (client-streaming call whose sender blocks on the flow-control window) |
         ['trailers', k] (trailers-only response, END_STREAM, to call k) |
         ['hold', c]  (from now on c's transport withholds connection_lost after close(); only `lose` delivers it)
All stimuli of one batch are applied back to back WITHOUT running the loop; then the loop runs until
no callback is ready (virtual time does not advance, except inside `kaclose`, which advances it by
keepalive_time + keepalive_timeout so that the real keepalive timer of every open connection fires with a
silent peer).  The observation vector is taken after every batch.
"""
import asyncio

from grpclib.client import UnaryUnaryMethod, StreamStreamMethod
from grpclib.config import Configuration
from h2.events import DataReceived

from harness import wire, peer as P
from harness.svc import exc_name

KA_TIME, KA_TIMEOUT = 10.0, 5.0


class HoldTransport(wire.MemTransport):
    """MemTransport that can withhold connection_lost after close(), like a selector transport whose write
    buffer towards a dead peer is never flushed: `hold = True` -> close() marks the transport closing but does
    not schedule connection_lost; it is delivered only by lose()."""
    hold = False

    def close(self):
        if self.closing:
            return
        if not self.hold:
            return super().close()
        self.closing = True
        if self.on_close is not None:
            self.on_close()


class CmdClientEnd:
    """A real Channel on the virtual loop whose connection attempts are scripted at the PUBLIC asyncio boundary:
    the loop's `create_connection` / `create_unix_connection` (what Channel awaits to connect, whatever its private
    helpers are called) are replaced on the loop instance.  As asyncio's create_connection behaves, an attempt
    suspends on a future that the harness completes (`resolve`): the transport is built and connection_made is
    called at that moment, and the awaiting task resumes one loop iteration later.  If the awaiting task is
    cancelled after the connection was made, the transport is closed (asyncio: `except: transport.close(); raise`)."""

    def __init__(self, loop, config=None, connect_script=None, auto_settings=True):
        from grpclib.client import Channel
        from harness.svc import RawCodec
        self.loop = loop
        self.channel = Channel(codec=RawCodec(), config=config)
        loop.create_connection = self._loop_create_connection
        loop.create_unix_connection = self._loop_create_connection
        self.connect_script = list(connect_script or [])
        self.connects = 0
        self.conns = []              # [(protocol, transport, peer)]
        self.auto_settings = auto_settings
        self.pending = []            # [(future, outcome, owner, protocol_factory)] attempts in flight, oldest first
        self.max_in_flight = 0
        self.create_log = []         # (virtual time, number in flight after the invocation)
        self.failed_owners = []      # caller in whose task the connection attempt raised OSError
        self.made_by = []            # conn index -> caller whose attempt made it
        self.owner_of = None         # callable: current caller id
        self.delays = []             # delays of timed attempts (mode 't')
        self.default_mode = 'd'
        self.timed_in_flight = 0
        self.live_at_make = []       # number of live connections right after each connection_made

    def _make(self, protocol_factory):
        proto = protocol_factory()
        peer = P.Peer(client_side=False, auto_ack=getattr(self, 'window_updates', True))
        tr = HoldTransport(proto, self.loop, on_write=peer.receive)
        peer.attach(tr)
        peer.start()
        proto.connection_made(tr)
        if self.auto_settings:
            peer.flush()
        self.conns.append((proto, tr, peer))
        self.live_at_make.append(sum(1 for p, t, _ in self.conns if not conn_dead(p, t)))
        return tr, proto

    async def _loop_create_connection(self, protocol_factory, *args, **kw):
        self.connects += 1
        kind, mode = self.connect_script.pop(0) if self.connect_script else ('ok', self.default_mode)
        owner = self.owner_of() if self.owner_of else None
        if mode == 'i':
            self.create_log.append((self.loop.time(), len(self.pending)))
            if kind == 'fail':
                self.failed_owners.append(owner)
                raise ConnectionRefusedError('scripted connect failure')
            self.made_by.append(owner)
            return self._make(protocol_factory)
        if mode == 't':
            # timed attempt (oracle-only family): the outcome arrives after `delay` virtual seconds
            self.timed_in_flight += 1
            self.max_in_flight = max(self.max_in_flight, self.timed_in_flight + len(self.pending))
            try:
                await asyncio.sleep(self.delays.pop(0) if self.delays else 1.0)
            finally:
                self.timed_in_flight -= 1
            if kind == 'fail':
                self.failed_owners.append(owner)
                raise ConnectionRefusedError('scripted connect failure')
            self.made_by.append(owner)
            return self._make(protocol_factory)
        fut = self.loop.create_future()
        entry = (fut, kind, owner, protocol_factory)
        self.pending.append(entry)
        self.max_in_flight = max(self.max_in_flight, len(self.pending))
        self.create_log.append((self.loop.time(), len(self.pending)))
        try:
            return await fut
        except BaseException:
            if entry in self.pending:
                self.pending.remove(entry)
            if fut.done() and not fut.cancelled() and fut.exception() is None:
                # the connection had been made; asyncio closes the transport when the waiter is cancelled
                fut.result()[0].close()
            raise

    def resolve(self):
        """the oldest attempt in flight finishes with its scripted outcome"""
        # an attempt whose waiting task was cancelled is no longer in flight
        self.pending = [e for e in self.pending if not e[0].done()]
        if not self.pending:
            return False
        fut, kind, owner, factory = self.pending.pop(0)
        if kind == 'fail':
            self.failed_owners.append(owner)
            fut.set_exception(ConnectionRefusedError('scripted connect failure'))
        else:
            self.made_by.append(owner)
            fut.set_result(self._make(factory))
        return True

    @property
    def transport(self):
        return self.conns[-1][1]

    @property
    def peer(self):
        return self.conns[-1][2]


def conn_lost_flag(proto):
    """the client handler's `connection_lost` flag, or None when it cannot be observed"""
    h = getattr(proto, 'handler', None)
    v = getattr(h, 'connection_lost', None)
    return None if v is None else bool(v)


def conn_closing(proto, tr):
    c = getattr(proto, 'connection', None)
    f = getattr(c, 'is_closing', None)
    try:
        return bool(f()) if f is not None else bool(tr.closing)
    except Exception:
        return bool(tr.closing)


def conn_dead(proto, tr):
    return bool(conn_lost_flag(proto)) or conn_closing(proto, tr)


def find_by_role(ch, pred):
    """a private attribute of the channel is located by what it holds, never by its name"""
    try:
        items = list(vars(ch).items())
    except TypeError:
        return None, None
    for name, val in items:
        try:
            if pred(val):
                return name, val
        except Exception:
            pass
    return None, None


def payload(k):
    return b'call-%d' % k


def big_payload(k):
    # larger than any flow-control credit the silent peer ever grants: the sender blocks in send_message()
    return b'call-%d;' % k + b'x' * 150000


class Runner:
    """drives one case; see the module docstring"""

    def __init__(self, loop, case):
        self.loop = loop
        self.case = case
        cfg = None
        if case.get('ka'):
            try:
                cfg = Configuration(_keepalive_time=KA_TIME, _keepalive_timeout=KA_TIMEOUT,
                                    _keepalive_permit_without_calls=True)
            except TypeError:
                # keepalive cannot be configured this way any more: run the case without keepalive stimuli
                self.case = case = dict(case, ka=False)
        self.ce = CmdClientEnd(loop, config=cfg,
                               connect_script=[(o, m) for o, m in case.get('script', [])])
        self.ce.owner_of = self._current_caller
        self.ce.delays = list(case.get('delays', []))
        self.ce.default_mode = 't' if case.get('timed') else 'd'
        self.entered = set()         # callers whose task reached Channel.__connect__
        self.method = UnaryUnaryMethod(self.ce.channel, '/v.S/M', bytes, bytes)
        self.smethod = StreamStreamMethod(self.ce.channel, '/v.S/SS', bytes, bytes)
        self.ce.window_updates = not case.get('nomodel_stream')
        self.tasks = []
        self.req = {}                # caller -> (conn index, stream id) once the peer saw the request
        self.answered = set()
        self.obs = []
        self.inflight_at_close = []  # [(batch index, [callers unfinished when close() ran])]
        self.handed = []             # (caller, conn index or None, dead at return) from __connect__
        self.handed_at = []          # batch index of each entry of `handed`
        self.goaway_at = {}          # conn index -> batch index at which a GOAWAY was delivered to it
        self.was_unregistered = set()  # callers seen blocked in protocol.Stream.send_request (not registered)
        self.bi = 0
        self.anomalies = []
        self.started_before = set()
        self.instrumented = False
        self._wrap_connect()

    # ---- instrumentation at the Channel's own method boundary (no source hook)
    def _wrap_connect(self):
        ch = self.ce.channel
        orig = getattr(ch, '__connect__', None)
        self.instrumented = callable(orig)
        if not self.instrumented:
            return                   # degrade: what __connect__ hands out is then not observed
        runner = self

        async def connect():
            runner.entered.add(runner._current_caller())
            proto = await orig()
            k = runner._current_caller()
            idx = runner._conn_index(proto)
            tr = next((t for p, t, _ in runner.ce.conns if p is proto), None)
            dead = proto is None or (tr is not None and conn_dead(proto, tr))
            runner.handed.append((k, idx, bool(dead)))
            runner.handed_at.append(runner.bi)
            return proto
        ch.__connect__ = connect

    def _current_caller(self):
        t = asyncio.current_task()
        for k, task in enumerate(self.tasks):
            if task is t:
                return k
        return None

    def _conn_index(self, proto):
        for i, (p, _, _) in enumerate(self.ce.conns):
            if p is proto:
                return i
        return None

    # ---- stimuli
    def start(self):
        k = len(self.tasks)
        self.tasks.append(self.loop.create_task(self.method(payload(k))))

    def start_stream(self):
        """a client-streaming call whose sender blocks on the exhausted flow-control window"""
        k = len(self.tasks)

        async def call():
            async with self.smethod.open() as s:
                await s.send_message(big_payload(k))
                await s.end()
                await s.recv_message()
            return b'reply-%d' % k
        self.tasks.append(self.loop.create_task(call()))

    def apply(self, st, bi):
        ce = self.ce
        op = st[0]
        if op == 'start':
            self.start()
        elif op == 'startstream':
            self.start_stream()
        elif op == 'trailers':
            # the peer ends call k's stream with a trailers-only response (END_STREAM, no RST_STREAM): the
            # response is complete while the client may still be sending
            self.scan_requests()
            k = st[1]
            if k in self.req and k not in self.answered and not self.tasks[k].done():
                c, sid = self.req[k]
                proto, tr, peer = ce.conns[c]
                if not tr.closing and not tr.lost and c not in self.goaway_at:
                    self.answered.add(k)
                    peer.headers(sid, P.RESP_HEADERS + [('grpc-status', '8'), ('grpc-message', 'early reply')],
                                 end_stream=True)
        elif op == 'resolve':
            ce.resolve()
        elif op == 'advance':
            self.loop.run_until(self.loop.time() + st[1])
        elif op == 'cancel':
            if st[1] < len(self.tasks):
                self.tasks[st[1]].cancel()
        elif op == 'close':
            if self.instrumented:
                unfinished = [k for k, t in enumerate(self.tasks) if not t.done() and k in self.entered]
            else:
                unfinished = [k for k, t in enumerate(self.tasks) if not t.done() and k in self.started_before]
            self.inflight_at_close.append((bi, unfinished, self.stages(),
                                          {'creates': ce.connects, 'fails': len(ce.failed_owners),
                                           'protocol': self.held_protocol()}))
            ce.channel.close()
        elif op in ('lose', 'goaway', 'pause', 'resume', 'hold'):
            c = st[1]
            if c >= len(ce.conns):
                return
            proto, tr, peer = ce.conns[c]
            if op == 'lose':
                tr.lose()
            elif op == 'hold':
                tr.hold = True
            elif op == 'goaway':
                # asyncio delivers no data once the transport is closing
                if not tr.closing and not tr.lost:
                    # ['goaway', c, error_code, last, debug]: last in 'zero' | 'seen' | 'max' (2**31-1, the
                    # "graceful shutdown notice"); defaults = h2's defaults
                    code = st[2] if len(st) > 2 else 0
                    last = st[3] if len(st) > 3 else 'seen'
                    dbg = st[4] if len(st) > 4 else 0
                    lsid = {'zero': 0, 'seen': None, 'max': 2 ** 31 - 1}[last]
                    peer.h2.close_connection(error_code=code, additional_data=(b'bye' * dbg) or None,
                                             last_stream_id=lsid)
                    self.goaway_at.setdefault(c, bi)
                    peer.flush()
            elif op == 'pause':
                if not tr.closing and not tr.lost:
                    tr.pause()
            elif op == 'resume':
                if not tr.closing and not tr.lost:
                    tr.resume()
        elif op == 'answer':
            self.scan_requests()
            k = st[1]
            if k in self.req and k not in self.answered and not self.tasks[k].done():
                c, sid = self.req[k]
                proto, tr, peer = ce.conns[c]
                # (the scripted peer's own h2 is CLOSED once it has sent GOAWAY: it cannot answer any more)
                if not tr.closing and not tr.lost and c not in self.goaway_at:
                    self.answered.add(k)
                    peer.headers(sid, P.RESP_HEADERS, flush=False)
                    peer.data(sid, P.grpc_frame(b'reply-%d' % k), flush=False)
                    peer.headers(sid, [('grpc-status', '0')], end_stream=True, flush=False)
                    peer.flush()
        else:
            raise ValueError('unknown stimulus %r' % (st,))

    def scan_requests(self):
        """which caller's request reached which connection (callers are told apart by their payload)"""
        for c, (proto, tr, peer) in enumerate(self.ce.conns):
            sids = getattr(peer, '_c16_sids', None)
            if sids is None:
                sids = peer._c16_sids = {}
            for ev in peer.take_events():
                if isinstance(ev, DataReceived):
                    data = ev.data[5:]
                    if data.startswith(b'call-'):
                        num = data[5:].split(b';')[0]
                        if num.isdigit():
                            self.req.setdefault(int(num), (c, ev.stream_id))

    def held_protocol(self):
        """index of the connection the channel holds (found by role: the attribute whose value is one of the
        protocols that were made), or None"""
        protos = [p for p, _, _ in self.ce.conns]
        _, val = find_by_role(self.ce.channel, lambda v: any(v is p for p in protos))
        return self._conn_index(val) if val is not None else None

    def run_batch(self, batch, bi):
        self.bi = bi
        self.started_before = set(range(len(self.tasks)))
        self._run_batch(batch, bi)
        self.was_unregistered |= {k for k, v in self.stages().items() if v == 'unregistered'}

    def _run_batch(self, batch, bi):
        """apply the stimuli back to back, then run the loop until nothing is ready.  A batch containing
        `kaclose` (keepalive cases only; at most one per batch, no `resolve` before it) advances virtual time
        by keepalive_time + keepalive_timeout so that the REAL keepalive timer runs Connection.close(); the
        other stimuli of the batch are applied inside that timer callback, immediately before / after
        Connection.close() -- e.g. a call created there takes its first step between Connection.close() and
        connection_lost (the D16 interleaving)."""
        ka = [i for i, st in enumerate(batch) if st[0] == 'kaclose']
        if not self.case.get('ka'):
            batch = [st for st in batch if st[0] != 'kaclose']
            ka = []
        open_conns = [(p, tr) for p, tr, _ in self.ce.conns if not tr.closing and not tr.lost]
        if ka and open_conns:
            if len(ka) > 1 or any(st[0] == 'resolve' for st in batch[:ka[0]]):
                raise ValueError('unsupported batch shape around kaclose: %r' % (batch,))
            pre, post = batch[:ka[0]], batch[ka[0] + 1:]
            fired = []

            def hook(conn):
                orig = conn.close

                def close():
                    first = not fired
                    fired.append(1)
                    if first:
                        for st in pre:
                            self.apply(st, bi)
                    orig()
                    if first:
                        for st in post:
                            self.apply(st, bi)
                conn.close = close
            for p, tr in open_conns:
                hook(p.connection)
            self.loop.run_until(self.loop.time() + KA_TIME + KA_TIMEOUT)
            for p, tr in open_conns:
                p.connection.__dict__.pop('close', None)
            if not fired:
                # the real keepalive timer did not close a silent connection (not C16's clause; the model will
                # disagree on the observation vector): apply the remaining stimuli so that the case goes on
                self.anomalies.append('batch %d: keepalive timer did not close the open connection(s)' % bi)
                for st in pre + post:
                    self.apply(st, bi)
        else:
            for st in batch:
                if st[0] != 'kaclose':
                    self.apply(st, bi)
        self.loop.run_quiet(0.0)
        self.scan_requests()
        self.obs.append(self.observe())

    # ---- observables
    def stages(self):
        """for the oracle: where is each unfinished call?  'connecting' (inside __connect__),
        'unregistered' (got a protocol, its request has not reached the peer), 'registered'"""
        out = {}
        got = {k: c for k, c, _ in self.handed if k is not None}
        for k, t in enumerate(self.tasks):
            if t.done():
                continue
            if k in self.req:             # the peer saw its request: the stream exists, the call is registered
                out[k] = 'registered'
            elif k in got or not self.instrumented:
                out[k] = 'unregistered' if k in got else 'unknown'
            else:
                out[k] = 'connecting'
        return out

    def observe(self):
        """the observation vector; a field that cannot be observed (a private attribute that is not there any
        more) is None and is left out of the comparison with the model -- never an exception"""
        import enum
        ce = self.ce
        ch = ce.channel
        conns = []
        for proto, tr, peer in ce.conns:
            lost = conn_lost_flag(proto)
            streams = getattr(getattr(proto, 'processor', None), 'streams', None)
            try:
                n = len(streams) if streams is not None else None
            except TypeError:
                n = None
            conns.append((None if lost is None else int(lost), int(conn_closing(proto, tr)), int(bool(tr.lost)), n))
        callers = []
        for k, t in enumerate(self.tasks):
            if not t.done():
                callers.append('p')
            elif t.cancelled():
                callers.append('x:Cancelled')
            elif t.exception() is not None:
                e = t.exception()
                callers.append('x:' + ('OSError' if isinstance(e, OSError) else exc_name(e)))
            else:
                r = t.result()
                c = self.req.get(k, (None,))[0]
                callers.append('ok:%s' % c if r == b'reply-%d' % k else 'badreply')
        _, lock = find_by_role(ch, lambda v: isinstance(v, asyncio.Lock))
        locked = waiters = None
        if lock is not None:
            locked = int(lock.locked())
            w = getattr(lock, '_waiters', None)          # asyncio's, not grpclib's
            waiters = len(w) if w else 0
        _, st = find_by_role(ch, lambda v: isinstance(v, enum.Enum))
        state = {'IDLE': 1, 'CONNECTING': 2, 'READY': 3, 'TRANSIENT_FAILURE': 4}.get(getattr(st, 'name', None))
        return {
            'creates': ce.connects,
            'inflight': len([e for e in ce.pending if not e[0].done()]) + ce.timed_in_flight,
            'protocol': self.held_protocol(),
            'locked': locked,
            'waiters': waiters,
            'state': state,
            'conns': conns,
            'callers': callers,
        }
