"""C02 helpers: run ONE client call of the real grpclib against a scripted response on the virtual loop.

case = {
  'card': 'UU'|'US'|'SU'|'SS',
  'variant': 'call' | 'open',
  'prog': ['RI'|'RM'|'IT'|'RT', ...]      # open() variant only: explicit steps after the request was sent
  'nreq': 0|1|2                           # request messages (stream-request cardinalities; unary: always 1)
  'send': 'flag' | 'implicit' | 'explicit_end' | 'req_first' | 'req_first_implicit'
                                          # open() variant: how the request is sent and ended -- end=True on the
                                          # last message (or on send_request); unary message WITHOUT end=True
                                          # (ended implicitly); messages then `await stream.end()`; an explicit
                                          # send_request() first.  All are legal and end the outgoing stream.
  'codec': bool                           # status_details_codec=ProtoStatusDetailsCodec() present
  'csub': 'proto' | 'json'                # __content_subtype__ of the channel's message codec
  'lis': 'imt' subset, e.g. 'it'          # suspending listeners: RecvInitialMetadata / RecvMessage /
                                          # RecvTrailingMetadata
  'batches': [{'trig': 'B' | k, 'events': [ev, ...]}, ...]
}
ev = ['H', [[name, value], ...], end_stream] | ['D', n_bytes_of_payload, end_stream] | ['T', [[name, value], ...]]
   | ['RST', code] | ['GOAWAY', code] | ['LOST']

Delivery rule (the same rule is implemented by Model/ClientCall.v):
  * batches are delivered in order;
  * trig = k (an int): the batch is delivered inline immediately BEFORE explicit step number k of `prog`
    starts (k = len(prog) means: before the context exit), or when the client is blocked, whichever
    comes first ("the cut is delivered before the operation starts");
  * trig = 'B': the batch is delivered only when the client is blocked at quiescence ("while the
    operation blocks");
  * trig = 'L': the batch is delivered while a listener is suspended: every listener parks its task once;
    if the NEXT batch has trigger 'L' it is delivered then (at most one per suspension), after which the
    listener is released;
  * when the client is blocked, exactly one batch (the next one, whatever its trigger) is delivered and
    the loop runs to quiescence again; blocked with no batch left = HANG.
Observation: ('ok', n_replies) | ('exc', exc_name, message_check) | ('hang',)
"""
import asyncio
import logging
import struct

from grpclib.client import (UnaryUnaryMethod, UnaryStreamMethod, StreamUnaryMethod,
                            StreamStreamMethod)
from grpclib.encoding.proto import ProtoStatusDetailsCodec
from grpclib.events import listen, RecvInitialMetadata, RecvMessage, RecvTrailingMetadata
from grpclib.exceptions import GRPCError
from h2.events import RequestReceived

from harness import vloop, wire, peer as P
from harness.svc import exc_name, RawCodec

logging.getLogger('grpclib').setLevel(logging.CRITICAL)

METHODS = {'UU': UnaryUnaryMethod, 'US': UnaryStreamMethod, 'SU': StreamUnaryMethod,
           'SS': StreamStreamMethod}


class JsonSubtypeCodec(RawCodec):
    """opaque bytes, announced as application/grpc+json"""
    __content_subtype__ = 'json'


class Delivery:
    def __init__(self, ce, batches):
        self.ce = ce
        self.batches = list(batches)
        self.pos = 0
        self.sid = None
        self.errors = []       # exceptions escaping from the connection's input path (C12's concern)
        self.log = []
        self.gate = None       # future a suspended listener waits on

    async def listener(self, event):
        self.gate = asyncio.get_event_loop().create_future()
        try:
            await self.gate
        finally:
            self.gate = None

    def in_listener(self):
        """a listener is suspended: deliver the next batch if it is an 'L' batch, then release it"""
        if self.pos < len(self.batches) and self.batches[self.pos]['trig'] == 'L':
            self.deliver_one()
        if self.gate is not None and not self.gate.done():
            self.gate.set_result(None)

    def _sid(self):
        if self.sid is None:
            for e in self.ce.peer.take_events():
                if isinstance(e, RequestReceived):
                    self.sid = e.stream_id
        return self.sid

    def deliver_one(self):
        b = self.batches[self.pos]
        self.pos += 1
        if not self.ce.conns:
            self.log.append('no-connection')
            return
        sid = self._sid()
        peer, tr = self.ce.peer, self.ce.transport
        for ev in b['events']:
            try:
                k = ev[0]
                if k == 'H':
                    peer.headers(sid, [tuple(h) for h in ev[1]], end_stream=bool(ev[2]), flush=False)
                elif k == 'D':
                    peer.data(sid, P.grpc_frame(b'r' * int(ev[1])), end_stream=bool(ev[2]), flush=False)
                elif k == 'T':
                    peer.headers(sid, [tuple(h) for h in ev[1]], end_stream=True, flush=False)
                elif k == 'RST':
                    # a raw frame: the peer's own h2 refuses to reset a stream it has already ended,
                    # a real server may still do it (RFC 7540 8.1)
                    peer.flush()
                    peer.raw(P.frame_bytes(0x3, 0, sid, struct.pack('>I', int(ev[1]) & 0xffffffff)))
                    continue
                elif k == 'GOAWAY':
                    peer.goaway(code=int(ev[1]), flush=False)
                elif k == 'LOST':
                    peer.flush()
                    tr.lose(None)
                    continue
                else:
                    raise ValueError('unknown event %r' % (ev,))
                # everything of one batch reaches the client without the client running in between
                # (data_received is synchronous); one flush per event keeps frames separate
                peer.flush()
            except Exception as e:   # the scripted peer refused (script not expressible) or input path raised
                self.errors.append('%s:%s' % (k, type(e).__name__))

    def before_step(self, k):
        while self.pos < len(self.batches) and isinstance(self.batches[self.pos]['trig'], int) \
                and self.batches[self.pos]['trig'] <= k:
            self.deliver_one()

    def when_blocked(self):
        if self.pos < len(self.batches):
            self.deliver_one()
            return True
        return False


def run_case(case, span=50.0):
    card = case['card']
    with vloop.session() as loop:
        kw = {}
        if case.get('codec', True):
            kw['status_details_codec'] = ProtoStatusDetailsCodec()
        if case.get('csub', 'proto') == 'json':
            kw['codec'] = JsonSubtypeCodec()
        ce = wire.ClientEnd(loop, **kw)
        method = METHODS[card](ce.channel, '/v.S/M', bytes, bytes)
        dl = Delivery(ce, case['batches'])
        lis = case.get('lis', '')
        for ch, ev in (('i', RecvInitialMetadata), ('m', RecvMessage), ('t', RecvTrailingMetadata)):
            if ch in lis:
                listen(ce.channel, ev, dl.listener)
        nreq = int(case.get('nreq', 1))
        info = {}

        async def simple():
            if card in ('UU', 'US'):
                r = await method(b'q')
            else:
                r = await method([b'q'] * nreq)
            return len(r) if isinstance(r, list) else 1

        async def opened():
            got = 0
            prog = case.get('prog', [])
            async with method.open() as stream:
                info['stream'] = stream
                send = case.get('send', 'flag')
                if send in ('req_first', 'req_first_implicit') and not (card[0] == 'S' and nreq == 0):
                    await stream.send_request()
                if card in ('UU', 'US'):
                    # a unary request is ended by its only message, with or without end=True
                    if send in ('implicit', 'req_first_implicit'):
                        await stream.send_message(b'q')
                    else:
                        await stream.send_message(b'q', end=True)
                elif send in ('explicit_end', 'req_first_implicit'):
                    if nreq == 0:
                        await stream.send_request()
                    for _ in range(nreq):
                        await stream.send_message(b'q')
                    await stream.end()
                else:
                    for _ in range(max(0, nreq - 1)):
                        await stream.send_message(b'q')
                    if nreq:
                        await stream.send_message(b'q', end=True)
                    else:
                        await stream.send_request(end=True)
                for k, op in enumerate(prog):
                    dl.before_step(k)
                    if op == 'RI':
                        await stream.recv_initial_metadata()
                    elif op == 'RM':
                        if (await stream.recv_message()) is not None:
                            got += 1
                    elif op == 'IT':
                        async for _ in stream:
                            got += 1
                    elif op == 'RT':
                        await stream.recv_trailing_metadata()
                    else:
                        raise ValueError(op)
                dl.before_step(len(prog))
            return got

        task = loop.create_task(simple() if case['variant'] == 'call' else opened())
        why = None
        for _ in range(4 * len(case['batches']) + 40):
            why = loop.run_quiet(span)
            if task.done():
                break
            if why != 'quiescent':
                break
            if dl.gate is not None:
                dl.in_listener()
                continue
            if not dl.when_blocked():
                break
        o = vloop.outcome(task)
        extra = {'errors': dl.errors, 'unhandled': len(loop.unhandled), 'why': why}
        if o[0] == 'pending':
            obs = ('hang',)
        elif o[0] == 'ok':
            obs = ('ok', o[1])
        elif o[0] == 'cancelled':
            obs = ('exc', 'Cancelled', None)
        else:
            e = o[1]
            msg = None
            if isinstance(e, GRPCError):
                msg = {'message': e.message, 'details': None if e.details is None else 'decoded'}
            obs = ('exc', exc_name(e), msg)
        return obs, extra
