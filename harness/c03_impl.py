"""C03 -- implementation side: run ONE case (request x handler program x environment) on a real
grpclib Server protocol instance wired to a scripted validating h2 client peer on the virtual loop,
and return the canonical observation.

case = {
  'headers': [[name, value], ...]        request header list exactly as sent (HTTP/2 validation is off)
  'card':    'UU'|'US'|'SU'|'SS'
  'body':    {'msgs': n, 'partial': bool, 'eof': bool, 'framing': 'one'|'split'|'sep'}
  'ops':     ['R'|'I'|'M'|'C'|'S'|'P'|['T', code, msg|None], ...]      the handler program
             'I!a' 'M!a' ['T', code, msg, 'a']: the call is given an argument that fails part-way (invalid user
             metadata {'Bad Key': 'x'} / a non-ASCII metadata value / a message the codec refuses);
             'I!h' 'M!h' ['T', code, msg, 'h']: a listener registered with grpclib.events.listen raises in it;
             'P': the transport is paused here (pause_writing), so the next sending call waits for write_ready;
             the environment resumes writing once the handler coroutine has ended
  'fin':     ['ret'] | ['grpc', code, msg|None] | ['exc'] | ['exc', 'timeout'|'streamterm'|'protocol'] |
             ['base'] | ['wait']       (exc kinds: RuntimeError, the handler's OWN asyncio.TimeoutError,
             StreamTerminatedError (e.g. from a client call it made), grpclib ProtocolError)
  'policy':  'honour' | 'swallow'        what the handler does with a CancelledError at an await
  'fin2':    like fin (never 'wait'); how a swallowing handler ends
  'ext':     'none'|'reset'|'close'      what the environment does (client RST_STREAM / Server.close())
  'ext_at':  None | k                    during the k-th Sleep (0-based); otherwise when the handler blocks
  'paused0': bool                        the transport is paused before the request arrives (the reply path of
                                         _abort / __aexit__ has to wait for write_ready); writing is resumed
                                         once the handler coroutine has ended or when it is never called
  'big':     bool                        reply messages are 100000 bytes, the client advertises 1 MiB per stream
                                         but keeps the default 65535-byte connection window and returns credit as
                                         it consumes (connection-level WINDOW_UPDATE): the reply needs that credit
  'codec':   None | 'json' | ...         content subtype of the server's codec (None: 'proto', like ProtoCodec); a
                                         server with another codec speaks application/grpc+<subtype> and must not
                                         accept the bare application/grpc (which means +proto)
  'details': None | 'empty' | 'obj' | 'nested'   status details the handler attaches to every GRPCError it raises
                                         and to its explicit trailers: none, [], an arbitrary python object (dict),
                                         a list of arbitrary objects -- whatever they are, the call must be answered
  'hooks_await': bool                    listeners on RecvRequest / RecvMessage / SendInitialMetadata /
                                         SendMessage / SendTrailingMetadata really suspend (await asyncio.sleep(0))
}

The handler program is interpreted as this Python coroutine:

    try:
        for op in ops:
            try: await <op>
            except Exception: pass           # a handler that lets the error escape == program cut here + 'exc'
        <fin>                                # return / raise / await sleep(forever)
    except CancelledError:
        if policy == 'honour': raise
        <fin2>
"""
import asyncio
import logging

from h2.events import (ResponseReceived, TrailersReceived, DataReceived, StreamEnded, StreamReset,
                       WindowUpdated)

from harness import vloop, wire, peer as P
from harness.svc import Service

KNOWN_PATH = '/v.S/M'
SLEEP = 1.0 / 64
MSG = b'abc'
REPLY = b'r'


class HandlerBase(BaseException):
    """a BaseException that is neither Exception nor CancelledError (KeyboardInterrupt-like)"""


def _server_close(se, loop, st):
    """Server.close() on a server that listens on no socket.  Server.close() refuses a server that was not
    started; the two attributes it looks at are found by role (the ones __init__ left empty whose name speaks of
    the listening server) and given stand-ins.  If that does not work any more, fall back to what Server.close()
    does to this connection through the public AbstractHandler.close()."""
    srv = se.server
    try:
        for name, val in list(vars(srv).items()):
            if val is None and 'server' in name.lower():
                if 'fut' in name.lower():
                    setattr(srv, name, loop.create_future())
                else:
                    setattr(srv, name, type('Listening', (), {'close': lambda s: None,
                                                              'wait_closed': lambda s: None})())
        srv.close()
        st['close_via'] = 'Server.close'
    except Exception:
        try:
            se.proto.handler.close()
            st['close_via'] = 'handler.close'
        except Exception:
            st['close_via'] = 'unavailable'


class HookError(RuntimeError):
    """raised by a listener"""


def _status(code):
    from grpclib.const import Status
    return Status(code)


def exc_class(e):
    """canonical class of an exception escaping a stream API call"""
    import h2.exceptions
    from grpclib.exceptions import ProtocolError
    if isinstance(e, ProtocolError):
        return 'refused'                 # grpclib's own precondition check
    if isinstance(e, h2.exceptions.ProtocolError):
        return 'h2err'                   # StreamClosedError or h2's state machine
    if isinstance(e, AssertionError):
        return 'assert'
    if isinstance(e, (ValueError, TypeError, HookError)):
        return 'error'                   # encode_metadata / the codec / a listener raised part-way
    return 'other:' + type(e).__name__


BIG_REPLY = bytes(range(256)) * 390 + b'x' * 160          # 100000 bytes


def canon_events(evs, sid):
    """frames of the response as the client peer saw them, canonicalised; DATA frames are re-assembled into
    length-prefixed messages (a big message travels in several frames)"""
    out = []
    buf = bytearray()
    big_hex = None
    for e in evs:
        if getattr(e, 'stream_id', None) != sid:
            continue
        if isinstance(e, ResponseReceived):
            out.append(['H', [[k, v] for k, v in e.headers], e.stream_ended is not None])
        elif isinstance(e, TrailersReceived):
            out.append(['T', [[k, v] for k, v in e.headers], e.stream_ended is not None])
        elif isinstance(e, DataReceived):
            buf += e.data
            while len(buf) >= 5 and len(buf) >= 5 + int.from_bytes(buf[1:5], 'big'):
                n = 5 + int.from_bytes(buf[1:5], 'big')
                msg = bytes(buf[:n])
                del buf[:n]
                if n > 1000:
                    if big_hex is None:
                        big_hex = P.grpc_frame(BIG_REPLY)
                    out.append(['D', 'BIG' if msg == big_hex else 'BAD-BIG:%d' % n, False])
                else:
                    out.append(['D', msg.hex(), e.stream_ended is not None and not buf])
            if e.stream_ended is not None and buf:
                out.append(['D', 'partial:' + bytes(buf[:16]).hex(), True])
                del buf[:]
        elif isinstance(e, StreamReset):
            out.append(['R', int(e.error_code)])
        elif isinstance(e, (StreamEnded, WindowUpdated)):
            pass                          # END_STREAM is the flag on H/T/D; credit is not part of the response
        else:
            out.append(['?', type(e).__name__])
    if buf:
        out.append(['D', 'partial:%d-bytes' % len(buf), False])      # a message that never arrived completely
    return out


def run_case(case, loop=None):
    logging.disable(logging.CRITICAL)
    if loop is not None:
        return _run(case, loop)
    with vloop.session() as lp:
        return _run(case, lp)


def _run(case, loop):
    from grpclib.exceptions import GRPCError
    ops = case['ops']
    fin = case['fin']
    fin2 = case.get('fin2') or ['ret']
    policy = case.get('policy', 'honour')
    ext = case.get('ext', 'none')
    ext_at = case.get('ext_at')
    body = case['body']
    reply = BIG_REPLY if case.get('big') else REPLY
    details = {None: None, 'empty': [], 'obj': {'reason': 'quota', 'retry': 3},
               'nested': [{'a': 1}, object()]}[case.get('details')]
    st = {'results': [], 'end': None, 'sleeps': 0, 'fired': None, 'started': False, 'where': None,
          'phase': 'ops', 'cause': None, 'hook': None, 'finished': False}
    box = {}

    def fire():
        if st['fired'] is not None or ext == 'none':
            return
        st['fired'] = ext
        if ext == 'reset':
            try:
                box['se'].peer.reset(box['sid'], code=8)
            except Exception:
                st['fired'] = 'reset-refused'      # the client's own h2 knows the stream is closed already
        else:
            _server_close(box['se'], loop, st)

    def do_fin(f, tag):
        if f[0] == 'ret':
            st['end'] = tag + 'ret'
            return
        if f[0] == 'grpc':
            st['end'] = tag + 'grpc'
            raise GRPCError(_status(f[1]), f[2], details)
        if f[0] == 'exc':
            kind = f[1] if len(f) > 1 else 'exc'
            st['end'] = tag + kind
            if kind == 'timeout':
                raise asyncio.TimeoutError('the handler\'s own timeout')
            if kind == 'streamterm':
                from grpclib.exceptions import StreamTerminatedError
                raise StreamTerminatedError('a call made by the handler was terminated')
            if kind == 'protocol':
                from grpclib.exceptions import ProtocolError
                raise ProtocolError('raised by the handler')
            raise RuntimeError('handler failure')
        if f[0] == 'base':
            st['end'] = tag + 'base'
            raise HandlerBase()
        raise AssertionError(f)

    async def handler(stream):
        st['started'] = True
        res = st['results']
        try:
            for op in ops:
                k = op[0]
                mode = (op[2] if len(op) == 3 else None) if isinstance(op, str) else (op[3] if len(op) > 3 else None)
                st['where'] = k
                st['hook'] = k if mode == 'h' else None
                try:
                    if k == 'R':
                        m = await stream.recv_message()
                        res.append('eof' if m is None else 'msg')
                    elif k == 'I':
                        await stream.send_initial_metadata(metadata={'Bad Key': 'x'} if mode == 'a' else None)
                        res.append('ok')
                    elif k == 'M':
                        await stream.send_message(12345 if mode == 'a' else reply)
                        res.append('ok')
                    elif k == 'T':
                        await stream.send_trailing_metadata(status=_status(op[1]), status_message=op[2],
                                                            status_details=details,
                                                            metadata=[('k', 'caf\xe9')] if mode == 'a' else None)
                        res.append('ok')
                    elif k == 'P':
                        box['se'].transport.pause()
                        res.append('ok')
                    elif k == 'C':
                        await stream.cancel()
                        res.append('ok')
                    elif k == 'S':
                        n = st['sleeps']
                        st['sleeps'] = n + 1
                        if ext_at is not None and n == ext_at:
                            loop.call_soon(fire)
                        await asyncio.sleep(SLEEP)
                        res.append('ok')
                    else:
                        raise AssertionError(op)
                except Exception as e:
                    res.append(exc_class(e))
                finally:
                    st['hook'] = None
            st['where'] = 'fin'
            if fin[0] == 'wait':
                await asyncio.sleep(2.0 ** 40)
                raise AssertionError('woke up')
            do_fin(fin, '')
        except asyncio.CancelledError:
            st['cause'] = ('deadline' if (st['phase'] == 'deadline' or st['fired'] in (None, 'reset-refused'))
                           else st['fired'])
            if st['where'] != 'fin':
                res.append('cancelled')
            if policy == 'honour':
                st['end'] = 'cancelled'
                raise
            do_fin(fin2, 'swallow-')

    async def handler_outer(stream):
        try:
            await handler(stream)
        finally:
            st['finished'] = True

    codec = None
    if case.get('codec') and case['codec'] != 'proto':
        from harness.svc import RawCodec
        codec = type('RawCodec_' + ''.join(ch for ch in case['codec'] if ch.isalnum()), (RawCodec,),
                     {'__content_subtype__': case['codec']})()
    se = wire.ServerEnd(loop, [Service('v.S', {'M': (handler_outer, case['card'])})], codec=codec)
    box['se'] = se
    if case.get('big'):
        # the client: 1 MiB per stream, the default 65535 bytes per connection, credit returned as it is consumed
        from h2.settings import SettingCodes
        se.peer.settings({SettingCodes.INITIAL_WINDOW_SIZE: 1 << 20})
        consume = se.transport.on_write
        pending = {'flush': False}

        def flush_credit():
            pending['flush'] = False
            if not se.transport.lost:
                se.peer.flush()

        def on_write(data):
            consume(data)
            if not pending['flush']:
                pending['flush'] = True
                loop.call_soon(flush_credit)
        se.transport.on_write = on_write
    from grpclib.events import (listen, SendInitialMetadata, SendMessage, SendTrailingMetadata, RecvRequest,
                                RecvMessage)
    hooks_await = bool(case.get('hooks_await'))

    def hook(kind):
        async def cb(event):
            if hooks_await:
                await asyncio.sleep(0)       # a real suspension: a pending cancellation would land here
            if st['hook'] == kind:
                raise HookError('listener failure')
        return cb
    listen(se.server, SendInitialMetadata, hook('I'))
    listen(se.server, SendMessage, hook('M'))
    listen(se.server, SendTrailingMetadata, hook('T'))
    listen(se.server, RecvRequest, hook('-'))
    listen(se.server, RecvMessage, hook('-'))
    loop.run_quiet(1.0)
    se.peer.take_events()
    peer = se.peer
    sid = box['sid'] = peer.next_stream_id()
    data = MSG and b''.join(P.grpc_frame(MSG) for _ in range(body['msgs']))
    if body.get('partial'):
        data += P.grpc_frame(MSG)[:7]
    eof = bool(body.get('eof'))
    framing = body.get('framing', 'one')
    hs = [tuple(h) for h in case['headers']]
    if not data:
        if eof and framing == 'sep':
            peer.h2.send_headers(sid, hs)
            peer.h2.send_data(sid, b'', end_stream=True)
        else:
            peer.h2.send_headers(sid, hs, end_stream=eof)
    else:
        peer.h2.send_headers(sid, hs)
        if framing == 'split' and len(data) > 3:
            peer.h2.send_data(sid, data[:3])
            peer.h2.send_data(sid, data[3:], end_stream=eof)
        elif framing == 'sep':
            peer.h2.send_data(sid, data)
            if eof:
                peer.h2.send_data(sid, b'', end_stream=True)
        else:
            peer.h2.send_data(sid, data, end_stream=eof)
    if case.get('paused0'):
        se.transport.pause()
    before = set(asyncio.all_tasks(loop))
    peer.flush()                       # the whole request arrives before the handler task's first step
    # the task serving this request, found by role: the one task the server created for these frames
    new_tasks = [t for t in asyncio.all_tasks(loop) if t not in before]
    task = new_tasks[0] if len(new_tasks) == 1 else None
    loop.run_quiet(4.0)

    def running():
        if task is not None:
            return not task.done()
        return st['started'] and not st['finished']      # degraded: all we can see is the handler coroutine
    if running() and st['started'] and not st['finished'] and ext != 'none' and st['fired'] is None:
        st['phase'] = 'ext'
        fire()
        loop.run_quiet(4.0)
    if running() and st['started'] and not st['finished']:
        # only a deadline can still end this call: let virtual time pass (finite horizon)
        st['phase'] = 'deadline'
        loop.run_quiet(4000.0)
    if se.transport.paused and (st['finished'] or not st['started']):
        # the handler coroutine has ended (or is never called); the environment lets the server write again
        se.transport.resume()
        loop.run_quiet(4.0)
    hang = running()
    frames = canon_events(peer.take_events(), sid)
    obs = {
        'frames': frames,
        'results': list(st['results']),
        'end': st['end'] if st['started'] else 'not-run',
        'fired': st['fired'] or 'none',
        'cause': st['cause'],
        'hang': hang,
        'where': st['where'],
        'paused': bool(se.transport.paused),
        'violations': [type(v).__name__ + ':' + str(v)[:80] for v in peer.violations],
        'task_exc': None,
    }
    if task is not None and task.done() and not task.cancelled() and task.exception() is not None:
        obs['task_exc'] = type(task.exception()).__name__
    elif task is not None and task.done() and task.cancelled():
        obs['task_exc'] = 'CancelledError'
    # keep the loop's exception handler quiet for escaped BaseExceptions (recorded above)
    return obs
