"""C11 helpers: a recorder that watches ONE real H2Protocol from outside (instance attributes only,
/repo is untouched) and writes down, in order, exactly the inputs of Model/Mux.v -- the h2 events given
to EventsProcessor.process (grouped per data_received call), the transport callbacks, and the local
per-call actions (register, release, wrapper attached, deadline fired, h2.reset_stream, buffer read)
-- plus the per-stream state the model predicts (snapshot of every component at release time and at
the end).  The words are those of ocaml/dC11.ml."""
import asyncio
import re

import h2.events as E
from h2.settings import SettingCodes

from grpclib.exceptions import StreamTerminatedError


def ser_headers(hs):
    """a header list as the opaque payload of the model"""
    return repr([(str(k), str(v)) for k, v in hs]).encode().hex()


def hexw(b):
    return bytes(b).hex() if b else '-'


def event_words(ev):
    if isinstance(ev, E.RequestReceived):
        return ('REQ', ev.stream_id, ser_headers(ev.headers))
    if isinstance(ev, E.ResponseReceived):
        return ('RESP', ev.stream_id, ser_headers(ev.headers))
    if isinstance(ev, E.DataReceived):
        return ('DATA', ev.stream_id, hexw(ev.data), ev.flow_controlled_length)
    if isinstance(ev, E.TrailersReceived):
        return ('TRL', ev.stream_id, ser_headers(ev.headers))
    if isinstance(ev, E.StreamEnded):
        return ('END', ev.stream_id)
    if isinstance(ev, E.StreamReset):
        return ('RST', ev.stream_id, 1 if ev.remote_reset else 0, int(ev.error_code))
    if isinstance(ev, E.WindowUpdated):
        return ('WU', ev.stream_id)
    if isinstance(ev, E.RemoteSettingsChanged):
        return ('SET', 1 if SettingCodes.INITIAL_WINDOW_SIZE in ev.changed_settings else 0,
                1 if SettingCodes.MAX_CONCURRENT_STREAMS in ev.changed_settings else 0)
    if isinstance(ev, E.SettingsAcknowledged):
        return ('SACK',)
    if isinstance(ev, E.PriorityUpdated):
        return ('PRIO',)
    if isinstance(ev, E.PingReceived):
        return ('PING',)
    if isinstance(ev, E.PingAckReceived):
        return ('PACK',)
    if isinstance(ev, E.ConnectionTerminated):
        return ('GOAWAY', int(ev.error_code))
    return ('UNK',)


_CLOSE = {'Protocol error': 'PERR', 'Connection lost': 'LOST', 'Connection closed': 'CLOSE'}


def err_word(err):
    if err is None:
        return 'N'
    if isinstance(err, asyncio.TimeoutError):
        return 'dl'
    if isinstance(err, StreamTerminatedError):
        msg = str(err)
        m = re.match(r'Stream reset by remote party, error_code: (?:ErrorCodes\.)?(\w+)$', msg)
        if m:
            return 'rr:%d' % _code(m.group(1))
        m = re.match(r'Received GOAWAY frame, closing connection; error_code: (?:ErrorCodes\.)?(\w+)$', msg)
        if m:
            return 'ga:%d' % _code(m.group(1))
        return {'Protocol error': 'pe', 'Connection lost': 'cl', 'Connection closed': 'cc'}.get(msg, 'other')
    return 'other:' + type(err).__name__


def _code(w):
    from h2.errors import ErrorCodes
    try:
        return int(w)
    except ValueError:
        return int(ErrorCodes[w])


class Recorder:
    def __init__(self, proto, side):
        """attach right after proto.connection_made(...)"""
        self.proto = proto
        self.side = side                 # 'C' | 'S'
        self.proc = proto.processor
        self.conn = proto.connection
        self.tokens = []                 # tuples of words; ('|',) separates reads
        self.acks = []                   # model outputs: ('ack', sid, n)
        self.raised = 0
        self.escaped = []                # exceptions that left data_received
        self.in_process = 0
        self.in_poll = False
        self.attached = set()            # sids whose wrapper is known to the log
        self.tasks = {}                  # server: stream -> handler task
        self.req = {}                    # server: stream -> request headers given to accept
        self.release_snaps = []          # (token index, sid, snapshot)
        self._install()

    # ---- instrumentation (instance attributes only) ----------------------------------------------
    def _install(self):
        proc, conn, proto = self.proc, self.conn, self.proto
        orig_process, orig_close, orig_register = proc.process, proc.close, proc.register
        orig_dr, orig_pause, orig_resume = proto.data_received, proto.pause_writing, proto.resume_writing
        orig_ack = conn.ack
        h2c = conn._connection
        orig_reset = h2c.reset_stream

        def process(event):
            self.emit(event_words(event))
            self.in_process += 1
            try:
                return orig_process(event)
            finally:
                self.in_process -= 1

        def close(reason='Connection closed'):
            if not self.in_process:
                self.emit((_CLOSE.get(reason, 'CLOSE'),))
            return orig_close(reason)

        def register(stream):
            rel = orig_register(stream)
            self._instrument(stream)
            if not self.in_process:
                self.emit(('REG', stream.id))

            def release():
                sid = stream.id
                if self.in_process:
                    # client Handler.accept refusing a peer-opened stream: register + release are both
                    # part of processing the RequestReceived event, which the model does in one step
                    return rel()
                if self.proc.streams.get(sid) is stream:
                    self.poll()
                    self.release_snaps.append((len(self.tokens), sid, self.snapshot(sid, stream)))
                self.emit(('REL', sid))
                return rel()
            return release

        def data_received(data):
            self.tokens.append(('|',))
            try:
                return orig_dr(data)
            except Exception as e:                # asyncio would tear the transport down here
                self.raised += 1
                self.escaped.append(type(e).__name__)
            finally:
                self.tokens.append(('|',))

        def pause_writing():
            self.emit(('PAUSE',))
            return orig_pause()

        def resume_writing():
            self.emit(('RESUME',))
            return orig_resume()

        def ack(stream_id, size):
            if size:
                self.acks.append(('ack', stream_id, size))
            return orig_ack(stream_id, size)

        def reset_stream(stream_id, error_code=0):
            self.emit(('CANCEL', stream_id))
            return orig_reset(stream_id, error_code=error_code)

        proc.process, proc.close, proc.register = process, close, register
        proto.data_received, proto.pause_writing, proto.resume_writing = \
            data_received, pause_writing, resume_writing
        conn.ack = ack
        h2c.reset_stream = reset_stream
        if self.side == 'S':
            handler = proto.handler
            orig_accept = handler.accept

            def accept(stream, headers, release_stream):
                r = orig_accept(stream, headers, release_stream)
                self.tasks[stream] = handler._tasks.get(stream)
                self.req[stream] = headers
                return r
            handler.accept = accept

    def _instrument(self, stream):
        sid = stream.id
        buf = stream.buffer
        orig_cb = buf._ack_callback

        def cb(n):
            self.emit(('READ', sid))
            return orig_cb(n)
        buf._ack_callback = cb
        if stream.wrapper is not None:          # client: the call's wrapper comes with the stream
            self.attached.add(sid)
            self._wrap_wrapper(sid, stream.wrapper)

    def _wrap_wrapper(self, sid, w):
        orig = w.cancel

        def cancel(error):
            if isinstance(error, asyncio.TimeoutError):
                self.emit(('DL', sid))
            return orig(error)
        w.cancel = cancel

    def poll(self):
        """notice wrappers attached by request_handler since the last look (server side)"""
        if self.in_poll:
            return
        self.in_poll = True
        try:
            for sid, stream in list(self.proc.streams.items()):
                if stream.wrapper is not None and sid not in self.attached:
                    self.attached.add(sid)
                    self.tokens.append(('ATT', sid))
                    if isinstance(stream.wrapper._error, asyncio.TimeoutError):
                        self.tokens.append(('DL', sid))
                    self._wrap_wrapper(sid, stream.wrapper)
        finally:
            self.in_poll = False

    def emit(self, words):
        self.poll()
        self.tokens.append(tuple(words))

    # ---- observations ----------------------------------------------------------------------------
    def snapshot(self, sid, stream):
        q = []
        for item in list(stream.buffer._unacked._queue):
            q.append('d:%s:%d' % (hexw(item.data), item.ack_size) if item.ack_size else 'E')
        w = stream.wrapper
        task = self.tasks.get(stream)
        in_tasks = self.side == 'S' and stream in self.proto.handler._tasks
        cancels = task.cancelling() if (self.side == 'S' and task is not None) else 0
        req = self.req.get(stream)
        return '/'.join([
            str(sid),
            'N' if req is None else 'h' + ser_headers(req),
            'N' if stream.headers is None else 'h' + ser_headers(stream.headers),
            ','.join(q) or '_',
            '1' if stream.buffer._eof else '0',
            'N' if stream.trailers is None else 'h' + ser_headers(stream.trailers),
            '1' if stream.window_updated.is_set() else '0',
            '1' if stream.headers_received.is_set() else '0',
            '1' if stream.trailers_received.is_set() else '0',
            '1' if w is not None else '0',
            err_word(w._error) if w is not None else 'N',
            '1' if in_tasks else '0',
            str(cancels)])

    def final(self):
        self.poll()
        reg = [self.snapshot(sid, st) for sid, st in self.proc.streams.items()]
        return {
            'raised': self.raised,
            'closed': 0 if hasattr(self.proc, 'processors') else 1,
            'wr': 1 if self.conn.write_ready.is_set() else 0,
            'slot': 1 if self.conn.stream_close_waiter.is_set() else 0,
            'acks': ['ack:%d:%d' % (s, n) for _, s, n in self.acks],
            'reg': reg,
        }

    def words(self, upto=None):
        toks = self.tokens if upto is None else self.tokens[:upto]
        return ' '.join(str(w) for t in toks for w in t)

    def sids(self):
        out = []
        for t in self.tokens:
            if t[0] in ('REG', 'REQ') and t[1] not in out:
                out.append(t[1])
        return out

    def has_fatal(self):
        return any(t[0] in ('GOAWAY', 'PERR', 'LOST', 'CLOSE') for t in self.tokens)


# ---- canonical forms of the model's answers -----------------------------------------------------------
def drop_eof_marks(call_word):
    """queue without the EOF markers (their consumption by a reader is not visible from outside)"""
    if call_word == 'none':
        return call_word
    f = call_word.split('/')
    q = [x for x in f[3].split(',') if x not in ('E', '_')]
    f[3] = ','.join(q) or '_'
    return '/'.join(f)


def mask_wu(call_word):
    if call_word == 'none':
        return call_word
    f = call_word.split('/')
    f[6] = '*'
    return '/'.join(f)


def parse_mux(line):
    d = dict(kv.split('=', 1) for kv in line.split(' '))
    outs = [] if d['out'] == '_' else d['out'].split(',')
    return {
        'raised': int(d['raised']), 'closed': int(d['closed']), 'wr': int(d['wr']), 'slot': int(d['slot']),
        'acks': [o for o in outs if o.startswith('ack:')],
        'reg': [] if d['reg'] == '_' else d['reg'].split(';'),
    }
