"""C11 helpers: a recorder that watches ONE real H2Protocol from outside (instance attributes only,
/repo is untouched) and writes down, in order, exactly the inputs of Model/Mux.v -- the h2 events given
to EventsProcessor.process (grouped per data_received call), the transport callbacks, and the local
per-call actions (register, release, wrapper attached, deadline fired, h2.reset_stream, buffer read)
-- plus the per-stream state the model predicts (snapshot of every component at release time and at
the end).  The words are those of ocaml/dC11.ml."""
import asyncio
import re

import h2.events as E
from h2.settings import SettingCodes

from grpclib.exceptions import StreamTerminatedError


def ser_headers(hs):
    """a header list as the opaque payload of the model"""
    return repr([(str(k), str(v)) for k, v in hs]).encode().hex()


def hexw(b):
    return bytes(b).hex() if b else '-'


def event_words(ev):
    if isinstance(ev, E.RequestReceived):
        return ('REQ', ev.stream_id, ser_headers(ev.headers))
    if isinstance(ev, E.ResponseReceived):
        return ('RESP', ev.stream_id, ser_headers(ev.headers))
    if isinstance(ev, E.DataReceived):
        return ('DATA', ev.stream_id, hexw(ev.data), ev.flow_controlled_length)
    if isinstance(ev, E.TrailersReceived):
        return ('TRL', ev.stream_id, ser_headers(ev.headers))
    if isinstance(ev, E.StreamEnded):
        return ('END', ev.stream_id)
    if isinstance(ev, E.StreamReset):
        return ('RST', ev.stream_id, 1 if ev.remote_reset else 0, int(ev.error_code))
    if isinstance(ev, E.WindowUpdated):
        return ('WU', ev.stream_id)
    if isinstance(ev, E.RemoteSettingsChanged):
        return ('SET', 1 if SettingCodes.INITIAL_WINDOW_SIZE in ev.changed_settings else 0,
                1 if SettingCodes.MAX_CONCURRENT_STREAMS in ev.changed_settings else 0)
    if isinstance(ev, E.SettingsAcknowledged):
        return ('SACK',)
    if isinstance(ev, E.PriorityUpdated):
        return ('PRIO',)
    if isinstance(ev, E.PingReceived):
        return ('PING',)
    if isinstance(ev, E.PingAckReceived):
        return ('PACK',)
    if isinstance(ev, E.ConnectionTerminated):
        return ('GOAWAY', int(ev.error_code))
    return ('UNK',)


_CLOSE = {'Protocol error': 'PERR', 'Connection lost': 'LOST', 'Connection closed': 'CLOSE'}


def err_word(err):
    if err is None:
        return 'N'
    if isinstance(err, asyncio.TimeoutError):
        return 'dl'
    if isinstance(err, StreamTerminatedError):
        msg = str(err)
        m = re.match(r'Stream reset by remote party, error_code: (?:ErrorCodes\.)?(\w+)$', msg)
        if m:
            return 'rr:%d' % _code(m.group(1))
        m = re.match(r'Received GOAWAY frame, closing connection; error_code: (?:ErrorCodes\.)?(\w+)$', msg)
        if m:
            return 'ga:%d' % _code(m.group(1))
        return {'Protocol error': 'pe', 'Connection lost': 'cl', 'Connection closed': 'cc'}.get(msg, 'other')
    return 'other:' + type(err).__name__


def _code(w):
    from h2.errors import ErrorCodes
    try:
        return int(w)
    except ValueError:
        return int(ErrorCodes[w])



# ---- internals located BY ROLE, never by private name ------------------------------------------------
def _ivars(obj):
    try:
        return dict(vars(obj))
    except TypeError:
        return {}


def h2_of(conn):
    """the h2.H2Connection a grpclib Connection drives (found by type)"""
    from h2.connection import H2Connection
    for v in _ivars(conn).values():
        if isinstance(v, H2Connection):
            return v
    return None


def buffer_parts(buf):
    """(name of the credit callback, the queue of unread items, name of the end-of-stream flag) of a
    protocol.Buffer; None for a part that cannot be told apart"""
    d = _ivars(buf)
    queues = [v for v in d.values() if isinstance(v, asyncio.Queue)]
    cbs = [k for k, v in d.items() if callable(v) and not isinstance(v, asyncio.Queue)]
    flags = [k for k, v in d.items() if type(v) is bool]
    return (cbs[0] if len(cbs) == 1 else None,
            queues[0] if len(queues) == 1 else None,
            flags[0] if len(flags) == 1 else None)


def queue_items(q):
    """unread items of an asyncio.Queue without consuming them: [(data, credit)] or None"""
    dq = getattr(q, '_queue', None)              # asyncio's own attribute, not grpclib's
    if dq is None:
        return None
    out = []
    for it in list(dq):
        try:
            out.append((getattr(it, 'data', it[0]), getattr(it, 'ack_size', it[-1])))
        except Exception:
            return None
    return out


def wrapper_error(w):
    """(observable, error) -- the exception a utils.Wrapper was cancelled with: the one attribute holding
    an exception instance"""
    errs = [v for v in _ivars(w).values() if isinstance(v, BaseException)]
    if len(errs) == 1:
        return True, errs[0]
    if not errs:
        # never cancelled (no error stored), unless the public flag says otherwise
        return (not getattr(w, 'cancelled', None)), None
    return False, None


def handler_task_table(handler, stream):
    """the dict in which a server Handler keeps stream -> handler task (found by what it holds)"""
    for k, v in _ivars(handler).items():
        if isinstance(v, dict) and stream in v and isinstance(v.get(stream), asyncio.Task):
            return k
    return None


class Recorder:
    def __init__(self, proto, side):
        """attach right after proto.connection_made(...).  Never raises: what cannot be hooked or located
        is listed in .unobs (fields masked on both sides of every comparison) or makes the recorder
        .blind (no correspondence for this connection)."""
        self.proto = proto
        self.side = side                 # 'C' | 'S'
        self.proc = getattr(proto, 'processor', None)
        self.conn = getattr(proto, 'connection', None)
        self.tokens = []                 # tuples of words; ('|',) separates reads
        self.acks = []                   # model outputs: ('ack', sid, n)
        self.raised = 0
        self.escaped = []                # exceptions that left data_received
        self.in_process = 0
        self.in_poll = False
        self.attached = set()            # sids whose wrapper is known to the log
        self.tasks = {}                  # server: stream -> handler task
        self.req = {}                    # server: stream -> request headers given to accept
        self.release_snaps = []          # (token index, sid, snapshot)
        self.unobs = set()               # 'queue' 'eof' 'err' 'in_tasks' 'cancels' 'acks' 'req' 'flags' 'closed'
        self.blind = False
        self.task_table = None           # name of the Handler's stream -> task dict, once seen
        try:
            self._install()
        except Exception as e:            # a re-structured grpclib: observe nothing rather than crash
            self.blind = True
            self.blind_reason = '%s: %s' % (type(e).__name__, e)

    # ---- instrumentation (instance attributes only) ----------------------------------------------
    def _install(self):
        proc, conn, proto = self.proc, self.conn, self.proto
        if proc is None or conn is None:
            raise RuntimeError('protocol without processor/connection')
        orig_process, orig_close, orig_register = proc.process, proc.close, proc.register
        orig_dr, orig_pause, orig_resume = proto.data_received, proto.pause_writing, proto.resume_writing
        orig_ack = conn.ack
        streams = proc.streams                        # noqa: must exist
        h2c = h2_of(conn)
        # the transport handed to connection_made (the harness's own object): "closed" is observed on it
        self.transport = next((v for v in _ivars(conn).values() if isinstance(v, asyncio.BaseTransport)), None)

        def process(event):
            self.emit(event_words(event))
            self.in_process += 1
            try:
                return orig_process(event)
            finally:
                self.in_process -= 1

        def close(reason='Connection closed'):
            if not self.in_process:
                self.emit((_CLOSE.get(reason, 'CLOSE'),))
            return orig_close(reason)

        def register(stream):
            rel = orig_register(stream)
            try:
                self._instrument(stream)
            except Exception:
                self.unobs.update(('queue', 'acks'))
            if not self.in_process:
                self.emit(('REG', stream.id))

            def release():
                sid = stream.id
                if self.in_process:
                    # client Handler.accept refusing a peer-opened stream: register + release are both
                    # part of processing the RequestReceived event, which the model does in one step
                    return rel()
                if self.proc.streams.get(sid) is stream:
                    self.poll()
                    self.release_snaps.append((len(self.tokens), sid, self.snapshot(sid, stream)))
                self.emit(('REL', sid))
                return rel()
            return release

        def data_received(data):
            self.tokens.append(('|',))
            try:
                return orig_dr(data)
            except Exception as e:                # asyncio would tear the transport down here
                self.raised += 1
                self.escaped.append(type(e).__name__)
            finally:
                self.tokens.append(('|',))

        def pause_writing():
            self.emit(('PAUSE',))
            return orig_pause()

        def resume_writing():
            self.emit(('RESUME',))
            return orig_resume()

        def ack(stream_id, size):
            if size:
                self.acks.append(('ack', stream_id, size))
            return orig_ack(stream_id, size)

        proc.process, proc.close, proc.register = process, close, register
        proto.data_received, proto.pause_writing, proto.resume_writing = \
            data_received, pause_writing, resume_writing
        conn.ack = ack
        if h2c is not None:
            orig_reset = h2c.reset_stream

            def reset_stream(stream_id, error_code=0):
                self.emit(('CANCEL', stream_id))
                return orig_reset(stream_id, error_code=error_code)
            h2c.reset_stream = reset_stream          # (ACancel changes no component: nothing to mask without it)
        if self.side == 'S':
            handler = proto.handler
            orig_accept = handler.accept

            def accept(stream, headers, release_stream):
                def all_tasks():
                    try:
                        return set(asyncio.all_tasks(asyncio.get_event_loop_policy().get_event_loop()))
                    except Exception:
                        return set()
                before = all_tasks()
                r = orig_accept(stream, headers, release_stream)
                new = [t for t in all_tasks() if t not in before]
                if self.task_table is None:
                    self.task_table = handler_task_table(handler, stream)
                if self.task_table is not None:
                    self.tasks[stream] = getattr(handler, self.task_table).get(stream)
                elif len(new) == 1:
                    self.tasks[stream] = new[0]
                self.req[stream] = headers
                return r
            handler.accept = accept

    def _instrument(self, stream):
        sid = stream.id
        buf = stream.buffer
        cb_name, _, _ = buffer_parts(buf)
        if cb_name is None:
            self.unobs.update(('queue', 'acks'))      # reads cannot be seen: what is still queued is unknown
        else:
            orig_cb = getattr(buf, cb_name)

            def cb(n):
                self.emit(('READ', sid))
                return orig_cb(n)
            setattr(buf, cb_name, cb)
        ev = getattr(stream, 'window_updated', None)
        if ev is not None and hasattr(ev, 'clear'):
            orig_clear = ev.clear

            def clear():                         # the sender found no window and is about to wait
                self.emit(('WAIT', sid))
                return orig_clear()
            ev.clear = clear
        if stream.wrapper is not None:          # client: the call's wrapper comes with the stream
            self.attached.add(sid)
            self._wrap_wrapper(sid, stream.wrapper)

    def _wrap_wrapper(self, sid, w):
        orig = w.cancel

        def cancel(error):
            if isinstance(error, asyncio.TimeoutError):
                self.emit(('DL', sid))
            return orig(error)
        w.cancel = cancel

    def poll(self):
        """notice wrappers attached by request_handler since the last look (server side)"""
        if self.in_poll:
            return
        self.in_poll = True
        try:
            for sid, stream in list(self.proc.streams.items()):
                if stream.wrapper is not None and sid not in self.attached:
                    self.attached.add(sid)
                    self.tokens.append(('ATT', sid))
                    # a wrapper already cancelled when first seen: nothing logged so far can have done it
                    # (events that reach a wrapper trigger this poll before they are logged), so it was
                    # its own deadline timer
                    ok, err = wrapper_error(stream.wrapper)
                    if isinstance(err, asyncio.TimeoutError) or \
                            (err is None and getattr(stream.wrapper, 'cancelled', None)):
                        self.tokens.append(('DL', sid))
                    self._wrap_wrapper(sid, stream.wrapper)
        finally:
            self.in_poll = False

    def emit(self, words):
        self.poll()
        self.tokens.append(tuple(words))

    # ---- observations ----------------------------------------------------------------------------
    def snapshot(self, sid, stream):
        """the component of one call in the words of ocaml/dC11.ml; '?' for a field that cannot be observed"""
        _, queue, eof_name = buffer_parts(stream.buffer)
        its = queue_items(queue) if queue is not None else None
        if its is None:
            self.unobs.add('queue')
        if eof_name is None:
            self.unobs.add('eof')
        q = ['d:%s:%d' % (hexw(d), a) if a else 'E' for d, a in (its or [])]
        w = stream.wrapper
        err_ok, err = wrapper_error(w) if w is not None else (True, None)
        if not err_ok:
            self.unobs.add('err')
        task = self.tasks.get(stream)
        if self.side == 'S':
            if self.task_table is None and self.req:
                self.unobs.add('in_tasks')
            if task is None and stream in self.req:
                self.unobs.add('cancels')
        in_tasks = (self.side == 'S' and self.task_table is not None and
                    stream in getattr(self.proto.handler, self.task_table, {}))
        cancels = task.cancelling() if (self.side == 'S' and task is not None) else 0
        req = self.req.get(stream)

        def flag(name):
            ev = getattr(stream, name, None)
            if ev is None:
                self.unobs.add('flags')
                return '?'
            return '1' if ev.is_set() else '0'
        fields = [
            str(sid),
            'N' if req is None else 'h' + ser_headers(req),
            'N' if stream.headers is None else 'h' + ser_headers(stream.headers),
            ','.join(q) or '_',
            ('1' if getattr(stream.buffer, eof_name) else '0') if eof_name else '?',
            'N' if stream.trailers is None else 'h' + ser_headers(stream.trailers),
            flag('window_updated'), flag('headers_received'), flag('trailers_received'),
            '1' if w is not None else '0',
            err_word(err) if w is not None else 'N',
            '1' if in_tasks else '0',
            str(cancels)]
        for name, idx in FIELD.items():
            if name in self.unobs:
                fields[idx] = '?'
        return '/'.join(fields)

    def final(self):
        self.poll()
        reg = [self.snapshot(sid, st) for sid, st in self.proc.streams.items()]
        # every snapshot taken earlier is re-masked with what turned out to be unobservable later
        self.release_snaps = [(p, sid, mask_fields(sn, self.unobs)) for p, sid, sn in self.release_snaps]
        reg = [mask_fields(sn, self.unobs) for sn in reg]
        return {
            'raised': self.raised,
            'closed': self._closed(),
            'wr': 1 if self.conn.write_ready.is_set() else 0,
            'slot': 1 if self.conn.stream_close_waiter.is_set() else 0,
            'acks': '?' if 'acks' in self.unobs else ['ack:%d:%d' % (s, n) for _, s, n in self.acks],
            'reg': reg,
        }

    def _closed(self):
        """has the connection been shut down (EventsProcessor.close): seen on the transport it was given"""
        tr = getattr(self, 'transport', None)
        if tr is not None:
            return 1 if tr.is_closing() else 0
        self.unobs.add('closed')
        return '?'

    def words(self, upto=None):
        toks = self.tokens if upto is None else self.tokens[:upto]
        return ' '.join(str(w) for t in toks for w in t)

    def sids(self):
        out = []
        for t in self.tokens:
            if t[0] in ('REG', 'REQ') and t[1] not in out:
                out.append(t[1])
        return out

    def has_fatal(self):
        return any(t[0] in ('GOAWAY', 'PERR', 'LOST', 'CLOSE') for t in self.tokens)


FIELD = {'req': 1, 'queue': 3, 'eof': 4, 'err': 10, 'in_tasks': 11, 'cancels': 12}


def mask_fields(call_word, names):
    if call_word == 'none':
        return call_word
    f = call_word.split('/')
    for n in names:
        if n in FIELD:
            f[FIELD[n]] = '?'
    if 'flags' in names:
        f[6] = f[7] = f[8] = '?'
    return '/'.join(f)


def mask_like(model_word, impl_word):
    """put '?' into the model's answer wherever the implementation side could not observe"""
    if model_word == 'none' or impl_word == 'none':
        return model_word
    a, b = model_word.split('/'), impl_word.split('/')
    return '/'.join('?' if y == '?' else x for x, y in zip(a, b))


# ---- canonical forms of the model's answers -----------------------------------------------------------
def drop_eof_marks(call_word):
    """queue without the EOF markers (their consumption by a reader is not visible from outside)"""
    if call_word == 'none':
        return call_word
    f = call_word.split('/')
    if f[3] == '?':
        return call_word
    q = [x for x in f[3].split(',') if x not in ('E', '_')]
    f[3] = ','.join(q) or '_'
    return '/'.join(f)


def mask_wu(call_word):
    if call_word == 'none':
        return call_word
    f = call_word.split('/')
    f[6] = '*'
    return '/'.join(f)


def parse_mux(line):
    d = dict(kv.split('=', 1) for kv in line.split(' '))
    outs = [] if d['out'] == '_' else d['out'].split(',')
    return {
        'raised': int(d['raised']), 'closed': int(d['closed']), 'wr': int(d['wr']), 'slot': int(d['slot']),
        'acks': [o for o in outs if o.startswith('ack:')],
        'reg': [] if d['reg'] == '_' else d['reg'].split(';'),
    }


# ---- real client <-> real server, connected at the asyncio boundary ---------------------------------------
def connect_link(loop, channel, server, cutter, state):
    """Route the channel's connection attempts (loop.create_connection / create_unix_connection, which is what
    Channel calls) to a fresh in-memory Link with a protocol of `server`; a Recorder is attached to both ends.
    state['connects'] counts the attempts, state['recs'] = [client recorder, server recorder]."""
    from harness import wire

    async def create_connection(factory, *args, **kw):
        state['connects'] = state.get('connects', 0) + 1
        cp = factory()
        sp = wire.protocol_factory_of(server)()
        link = wire.Link(loop, cp, sp, cutter)
        sp.connection_made(link.tb)
        cp.connection_made(link.ta)
        state['recs'] = [Recorder(cp, 'C'), Recorder(sp, 'S')]
        state['link'] = link
        return link.ta, cp
    loop.create_connection = create_connection
    loop.create_unix_connection = create_connection
