"""In-memory transports and end points for driving real grpclib objects.

MemTransport(protocol)          -- what grpclib writes is queued in .outbox; the harness decides when
                                   and in which chunks it is delivered; pause/resume/close/lost are
                                   injectable.  `on_write` lets a scripted peer consume bytes at once.
Link(a, b)                      -- connects two MemTransports (client <-> server, both real grpclib):
                                   deliveries happen through loop.call_soon, optionally re-cut.
ClientEnd / ServerEnd           -- a real Channel / Server protocol instance wired to a MemTransport
                                   and a scripted h2 peer (harness.peer.Peer).
"""
import asyncio

from grpclib.client import Channel
from grpclib.server import Server
from grpclib.config import Configuration

from harness.peer import Peer
from harness.svc import RawCodec


class MemTransport(asyncio.Transport):
    def __init__(self, protocol, loop=None, on_write=None, extra=None):
        super().__init__(extra or {})
        self._loop = loop or asyncio.get_event_loop()
        self.protocol = protocol
        self.outbox = bytearray()
        self.total_written = 0
        self.writes = []                 # sizes of the individual write() calls
        self.on_write = on_write
        self.closing = False
        self.lost = False
        self.paused = False
        self.on_close = None

    # ---- asyncio.Transport API used by grpclib
    def write(self, data):
        if self.lost:
            return
        data = bytes(data)
        if not data:
            return
        self.total_written += len(data)
        self.writes.append(len(data))
        if self.on_write is not None:
            self.on_write(data)
        else:
            self.outbox += data

    def is_closing(self):
        return self.closing

    def close(self):
        if self.closing:
            return
        self.closing = True
        if self.on_close is not None:
            self.on_close()
        self._loop.call_soon(self._call_connection_lost, None)

    def abort(self):
        self.close()

    def get_extra_info(self, name, default=None):
        return self._extra.get(name, default)

    def _call_connection_lost(self, exc):
        if not self.lost:
            self.lost = True
            self.protocol.connection_lost(exc)

    # ---- controls for the harness
    def take(self):
        data = bytes(self.outbox)
        del self.outbox[:]
        return data

    def feed(self, data, cuts=None):
        """deliver bytes to the protocol, re-cut at the given offsets"""
        if self.lost:
            return
        pos = 0
        for c in sorted(set(cuts or [])) + [len(data)]:
            if c > pos and c <= len(data):
                self.protocol.data_received(data[pos:c])
                pos = c

    def pause(self):
        if not self.paused:
            self.paused = True
            self.protocol.pause_writing()

    def resume(self):
        if self.paused:
            self.paused = False
            self.protocol.resume_writing()

    def lose(self, exc=None):
        """the connection drops (asyncio calls connection_lost)"""
        self.closing = True
        self._call_connection_lost(exc)


class Link:
    """Two real grpclib protocols talking to each other; bytes are delivered by call_soon, re-cut into
    chunks by `cutter(data) -> list of offsets` when given."""

    def __init__(self, loop, proto_a, proto_b, cutter=None):
        self.loop = loop
        self.cutter = cutter
        self.ta = MemTransport(proto_a, loop, on_write=lambda d: self._send(self.tb, d))
        self.tb = MemTransport(proto_b, loop, on_write=lambda d: self._send(self.ta, d))
        self.ta.on_close = lambda: self.loop.call_soon(self.tb.lose, None)
        self.tb.on_close = lambda: self.loop.call_soon(self.ta.lose, None)
        self.bytes = {id(self.ta): 0, id(self.tb): 0}

    def _send(self, dst, data):
        self.bytes[id(dst)] += len(data)
        self.loop.call_soon(self._deliver, dst, data)

    def _deliver(self, dst, data):
        if dst.lost or dst.closing:
            return
        dst.feed(data, self.cutter(data) if self.cutter else None)


def protocol_factory_of(owner):
    """the zero-argument callable with which a Channel / Server makes the protocol object of a new connection.
    Found by its customary private name, else by role: a bound zero-argument method whose name mentions
    'protocol' and which returns an H2Protocol."""
    f = getattr(owner, '_protocol_factory', None)
    if callable(f):
        return f
    from grpclib.protocol import H2Protocol
    import inspect
    for n in dir(owner):
        if 'protocol' not in n.lower() or n.startswith('__'):
            continue
        f = getattr(owner, n, None)
        if not callable(f) or inspect.iscoroutinefunction(f):
            continue
        try:
            if [p for p in inspect.signature(f).parameters.values()
                    if p.default is p.empty and p.kind in (p.POSITIONAL_ONLY, p.POSITIONAL_OR_KEYWORD)]:
                continue
            if isinstance(f(), H2Protocol):
                return f
        except Exception:
            continue
    raise RuntimeError('cannot find how %r makes its protocol objects' % type(owner).__name__)


def hook_loop_connections(loop):
    """Connection attempts made through the event loop (`loop.create_connection` / `create_unix_connection`, what
    Channel does) are routed to the ClientEnd registered for the object the protocol factory is bound to."""
    if getattr(loop, '_verif_clients', None) is not None:
        return loop._verif_clients
    reg = loop._verif_clients = {}

    async def create_connection(factory, *args, **kw):
        end = reg.get(id(getattr(factory, '__self__', None)))
        if end is None:
            raise RuntimeError('unscripted connection attempt through the event loop')
        proto = await end.attempt(factory)
        return proto_transport(proto), proto

    def proto_transport(proto):
        for pr, tr, _ in reversed(next(iter([e.conns for e in reg.values() if any(c[0] is proto for c in e.conns)]), [])):
            if pr is proto:
                return tr
        return None
    loop.create_connection = create_connection
    loop.create_unix_connection = create_connection
    return reg


class ClientEnd:
    """A real Channel whose connection attempts are scripted and whose transport is in memory,
    talking to a scripted server-side h2 peer."""

    def __init__(self, loop, config=None, codec=None, status_details_codec=None, connect_script=None,
                 auto_settings=True, tap=False):
        self.loop = loop
        self.tap = tap
        self.taps = []           # FrameTap per connection (frames written by grpclib), when tap=True
        kw = {}
        if status_details_codec is not None:
            kw['status_details_codec'] = status_details_codec
        self.channel = Channel(codec=codec or RawCodec(), config=config, **kw)
        # connection attempts are scripted at the asyncio boundary (the loop's create_connection), which is what
        # Channel calls; replacing the channel's own private coroutine as well keeps the attempt count exact when
        # the loop the channel captured is not `loop`
        hook_loop_connections(loop)[id(self.channel)] = self
        if hasattr(self.channel, '_create_connection'):
            self.channel._create_connection = self._create_connection
        self.connect_script = list(connect_script or [])   # [('ok', delay) | ('fail', delay)]
        self.connects = 0
        self.conns = []          # [(protocol, transport, peer)]
        self.auto_settings = auto_settings

    async def _create_connection(self):
        return await self.attempt(protocol_factory_of(self.channel))

    async def attempt(self, factory):
        self.connects += 1
        kind, delay = self.connect_script.pop(0) if self.connect_script else ('ok', 0)
        if delay:
            await asyncio.sleep(delay)
        if kind == 'fail':
            raise ConnectionRefusedError('scripted connect failure')
        proto = factory()
        peer = Peer(client_side=False)
        tr = MemTransport(proto, self.loop, on_write=peer.receive)
        if self.tap:
            from harness.frames import tap_transport
            self.taps.append(tap_transport(tr, self.loop.time))
        peer.attach(tr)
        peer.start()
        proto.connection_made(tr)
        if self.auto_settings:
            peer.flush()
        self.conns.append((proto, tr, peer))
        return proto

    @property
    def proto(self):
        return self.conns[-1][0]

    @property
    def transport(self):
        return self.conns[-1][1]

    @property
    def peer(self):
        return self.conns[-1][2]


class ServerEnd:
    """A real Server protocol instance on an in-memory transport, talking to a scripted client peer."""

    def __init__(self, loop, services, config=None, codec=None, status_details_codec=None, tap=False):
        self.tap = tap
        self.taps = []
        kw = {}
        if status_details_codec is not None:
            kw['status_details_codec'] = status_details_codec
        self.server = Server(services, codec=codec or RawCodec(), config=config, **kw)
        self.loop = loop
        self.conns = []
        self.connect()

    def connect(self):
        proto = protocol_factory_of(self.server)()
        peer = Peer(client_side=True)
        tr = MemTransport(proto, self.loop, on_write=peer.receive)
        if self.tap:
            from harness.frames import tap_transport
            self.taps.append(tap_transport(tr, self.loop.time))
        peer.attach(tr)
        peer.start()
        proto.connection_made(tr)
        peer.flush()
        self.conns.append((proto, tr, peer))
        return proto, tr, peer

    @property
    def proto(self):
        return self.conns[-1][0]

    @property
    def transport(self):
        return self.conns[-1][1]

    @property
    def peer(self):
        return self.conns[-1][2]

    @property
    def handler(self):
        return self.proto.handler


def default_config(**kw):
    return Configuration(**kw)
