"""Implementation-side rigs for C19: the real grpclib.health code on the virtual-time loop.

All times of the cases are integer TICKS of 1/8 s (exact in binary floating point); the model uses the
same integers.  Status codes: True = 1, False = 0, None = 2 (as in coq/Gen/FactsC19.v)."""
import asyncio
import logging

from harness import vloop

TICK = 0.125
ST = {1: True, 0: False, 2: None}
CODE = {True: 1, False: 0, None: 2}

logging.getLogger('grpclib.health.check').setLevel(logging.CRITICAL)


def svc_name(n):
    """model service id -> gRPC service name used in requests ('' is OVERALL)"""
    return '' if n == 0 else 'pkg.S%d' % n


class Svc:
    def __init__(self, n):
        self.n = n

    def __mapping__(self):
        return {'/%s/M' % svc_name(self.n): None}


def make_health(cfg, checks):
    """cfg: None | [[name, [check ids]], ...] (name 0 = OVERALL key); checks: list of CheckBase"""
    from grpclib.health.service import Health, OVERALL
    if cfg is None:
        return Health()
    d = {}
    for n, ids in cfg:
        d[OVERALL if n == 0 else Svc(n)] = [checks[i] for i in ids]
    return Health(d)


def one_iter(loop):
    """exactly one iteration of the event loop"""
    loop.call_soon(loop.stop)
    loop.run_forever()


class Livelock(Exception):
    """the loop keeps finding ready callbacks without the virtual clock moving (busy loop)"""


def run_quiet(loop, span, max_iters=6000):
    """loop.run_quiet(span) with a bound on the number of loop iterations: a zero-time busy loop (e.g. a
    Watch loop whose event is never cleared) would otherwise spin forever.  Same semantics as
    harness.vloop: 'quiescent' when nothing is ready and no timer is left, 'horizon' when the next timer
    lies beyond now + span; the clock jumps to the next timer when nothing is ready."""
    horizon = loop.time() + span
    for _ in range(max_iters):
        if not loop._ready:
            whens = [h._when for h in loop._scheduled if not h._cancelled]
            if not whens:
                return 'quiescent'
            when = min(whens)
            if when > horizon:
                return 'horizon'
            if when > loop._vtime:
                loop._vtime = when
        one_iter(loop)
    raise Livelock('%d loop iterations without becoming idle' % max_iters)


def run_until(loop, t):
    r = run_quiet(loop, max(0.0, t - loop.time()))
    if loop._vtime < t:
        loop._vtime = t
    return r


# ---- private state, located by ROLE (never by name); None = not observable, the caller degrades -----------------

def _collections_of(check):
    try:
        d = vars(check)
    except TypeError:
        return []
    out = []
    for v in d.values():
        if isinstance(v, (str, bytes)) or isinstance(v, asyncio.Event):
            continue
        if hasattr(v, '__len__') and hasattr(v, '__iter__'):
            out.append(v)
    return out


def subscribers(check):
    """how many watcher events are subscribed to a check: the length of its one collection attribute"""
    c = _collections_of(check)
    return len(c[0]) if len(c) == 1 else None


def total_subscribers(checks):
    ns = [subscribers(c) for c in checks]
    return None if any(n is None for n in ns) else sum(ns)


def add_subscriber(check, obj):
    """put an event-like recorder among the subscribed events; False if that is not possible"""
    c = _collections_of(check)
    if len(c) != 1:
        return False
    if isinstance(c[0], set):
        c[0].add(obj)
        return True
    if isinstance(c[0], list):
        c[0].append(obj)
        return True
    return False


def live_pollers(loop, check):
    """tasks that run a coroutine METHOD OF THIS CHECK as their outermost coroutine (the harness itself only
    creates tasks for Health.Watch and for its own client coroutines) and are not finished"""
    n = 0
    for t in asyncio.all_tasks(loop):
        if t.done() or t in _HARNESS_TASKS:
            continue
        fr = getattr(t.get_coro(), 'cr_frame', None)
        if fr is not None and fr.f_locals.get('self') is check:
            n += 1
    return n


_HARNESS_TASKS = set()


def find_reset(service_module):
    """the synchronous helper of the Watch loop that re-arms wait tasks: the one module-level function of two
    positional parameters that maps (no events, no waits) to an empty dict.  None if there is no such thing
    (inlined, turned into a method, ...): then it is simply not driven directly."""
    import inspect
    cands = []
    for name, f in vars(service_module).items():
        if not inspect.isfunction(f) or f.__module__ != service_module.__name__ or inspect.iscoroutinefunction(f):
            continue
        try:
            ps = [p for p in inspect.signature(f).parameters.values()
                  if p.kind in (p.POSITIONAL_ONLY, p.POSITIONAL_OR_KEYWORD)]
            if len(ps) != 2:
                continue
            if f([], {}) == {} :
                cands.append(f)
        except Exception:
            continue
    return cands[0] if len(cands) == 1 else None


# ---- the aggregate (through Health.Check, handler called directly) ---------------------------------------

class FixedCheck:
    def __init__(self, v):
        self.v = v

    def __status__(self):
        return self.v

    async def __check__(self):
        return self.v

    async def __subscribe__(self):
        return asyncio.Event()

    async def __unsubscribe__(self, event):
        pass


def impl_agg(codes):
    """the status Health.Check answers for a service whose checks have these statuses (non-empty)"""
    with vloop.session() as loop:
        health = make_health([[1, list(range(len(codes)))]], [FixedCheck(ST[c]) for c in codes])
        fs = FakeStream(loop, svc_name(1), False)
        t = loop.create_task(health.Check(fs))
        run_quiet(loop, 0.0)
        if not t.done() or t.exception() is not None or len(fs.sent) != 1:
            raise RuntimeError('Health.Check did not answer with one message: %r' % (vloop.outcome(t),))
        return fs.sent[0]


# ---- the re-arm helper of the Watch loop, if there is one ------------------------------------------------

def impl_reset(slots):
    """slots: ['1D', '0B', ...] flag + wait state in -NBKDC.  Returns ['<flag'><renewed>', ...]"""
    from grpclib.health import service as _svc
    _reset_waits = find_reset(_svc)
    if _reset_waits is None:
        return None, None
    with vloop.session() as loop:
        events, waits = [], {}

        async def build():
            for s in slots:
                ev = asyncio.Event()
                events.append(ev)
                w = s[1]
                if w == '-':
                    pass
                elif w == 'N':
                    pass          # created below, after the others have been stepped
                elif w in 'BK':
                    waits[ev] = asyncio.ensure_future(ev.wait())
                elif w == 'D':
                    ev.set()
                    waits[ev] = asyncio.ensure_future(ev.wait())
                elif w == 'C':
                    waits[ev] = asyncio.ensure_future(ev.wait())
        loop.run_until_complete(build())
        one_iter(loop)                       # B/K block, D finish, C block
        for s, ev in zip(slots, events):
            if s[1] == 'C':
                waits[ev].cancel()
        one_iter(loop)
        one_iter(loop)
        out = {}

        async def go():
            for s, ev in zip(slots, events):
                w = s[1]
                if w == 'K':
                    ev.set()                 # future resolved, task not run yet
                elif w == 'N':
                    waits[ev] = asyncio.ensure_future(ev.wait())
                # the flag the case asks for
                if s[0] == '1':
                    if not ev.is_set():
                        ev._value = True     # flag without touching waiters (only for B: not reachable)
                else:
                    if ev.is_set():
                        ev._value = False
            new = _reset_waits(events, dict(waits))
            out['r'] = ['%d%d' % (ev.is_set(), new[ev] is not waits.get(ev)) for ev in events]
            out['keys'] = list(new.keys()) == events
        # build a task so that ensure_future has a running loop; no suspension inside
        loop.run_until_complete(go())
        for t in asyncio.all_tasks(loop):
            t.cancel()
        return out['r'], out['keys']


# ---- Health.Watch, direct (fake stream, single loop iterations) -------------------------------------

class FakeStream:
    def __init__(self, loop, service, slow):
        from grpclib.health.v1.health_pb2 import HealthCheckRequest
        self.loop = loop
        self.req = HealthCheckRequest(service=service)
        self.sent = []
        self.slow = slow
        self.gate = None
        self.trailing = None

    async def recv_message(self):
        return self.req

    async def send_message(self, msg, **kw):
        self.sent.append(int(msg.status))
        if self.slow:
            self.gate = self.loop.create_future()
            try:
                await self.gate
            finally:
                self.gate = None

    async def send_trailing_metadata(self, *, status=None, **kw):
        self.trailing = status


def watch_pc(task, fs):
    if task.done():
        return 'E'
    if fs.gate is not None:
        return 'S'
    return '?'


def impl_watch_direct(cfg, vals, cmds):
    """Returns (snapshots, sent lists, idle, leftovers)."""
    from grpclib.health.check import ServiceStatus
    with vloop.session() as loop:
        checks = [ServiceStatus() for _ in vals]
        for c, v in zip(checks, vals):
            c.set(ST[v])
        health = make_health(cfg, checks)
        ws = []
        snaps = []
        gone = set()
        for c in cmds:
            p = c.split(':')
            if p[0] == 's':
                if int(p[1]) < len(checks):
                    checks[int(p[1])].set(ST[int(p[2])])
            elif p[0] == 'w':
                fs = FakeStream(loop, svc_name(int(p[1])), p[2] == '1')
                ws.append((loop.create_task(health.Watch(fs)), fs))
            elif p[0] == 'i':
                for _ in range(int(p[1])):
                    one_iter(loop)
            elif p[0] == 'q':
                run_quiet(loop, 1.0)
            elif p[0] == 'r':
                k = int(p[1])
                if k < len(ws) and ws[k][1].gate is not None and not ws[k][1].gate.done():
                    ws[k][1].gate.set_result(None)
            elif p[0] == 'l':
                if int(p[1]) < len(ws):
                    ws[int(p[1])][1].slow = p[2] == '1'
            elif p[0] == 'c':
                if int(p[1]) < len(ws):
                    ws[int(p[1])][0].cancel()
                    gone.add(int(p[1]))
            snaps.append([(len(fs.sent), 'E' if k in gone else watch_pc(t, fs)) for k, (t, fs) in enumerate(ws)])
        sent = [list(fs.sent) for _, fs in ws]
        # after the scenario: cancel everything, nothing may stay subscribed
        for t, _ in ws:
            t.cancel()
        run_quiet(loop, 1.0)
        left = total_subscribers(checks)
        errors = [type(vloop.outcome(t)[1]).__name__ for t, _ in ws if vloop.outcome(t)[0] == 'exc']
        return snaps, sent, left, errors + [str(u.get('message')) for u in loop.unhandled]


# ---- Health.Check / Health.Watch end to end (real client stub, in-process connection) ---------------

async def _watch_client(stub, name, out, read_delay, loop):
    from grpclib.health.v1.health_pb2 import HealthCheckRequest
    try:
        async with stub.Watch.open() as st:
            out['stream'] = st
            await st.send_message(HealthCheckRequest(service=name), end=True)
            while True:
                if read_delay:
                    await asyncio.sleep(read_delay)
                m = await st.recv_message()
                if m is None:
                    break
                out['got'].append((int(m.status), loop.time()))
    except asyncio.CancelledError:
        out['end'] = 'cancelled'
        raise
    except Exception as e:          # noqa
        out['end'] = type(e).__name__


async def _check_client(stub, name, out, loop):
    from grpclib.health.v1.health_pb2 import HealthCheckRequest
    from grpclib.exceptions import GRPCError
    out['t0'] = loop.time()
    try:
        r = await stub.Check(HealthCheckRequest(service=name))
        out['res'] = ('resp', int(r.status))
    except GRPCError as e:
        out['res'] = ('status', int(e.status.value))
    except asyncio.CancelledError:
        out['res'] = ('cancelled',)
        raise
    except Exception as e:          # noqa
        out['res'] = ('exc', type(e).__name__)
    finally:
        out['t1'] = loop.time()


class E2E:
    """Real Health behind grpclib.testing.ChannelFor and the generated HealthStub on the virtual loop."""

    def __init__(self, loop, health):
        from grpclib.testing import ChannelFor
        from grpclib.health.v1.health_grpc import HealthStub
        self.loop = loop
        self.cf = ChannelFor([health])
        box = {}

        async def enter():
            box['ch'] = await self.cf.__aenter__()
        loop.run_until_complete(enter())
        self.channel = box['ch']
        self.stub = HealthStub(self.channel)
        self.tasks = []

    def watch(self, name, read_delay=0):
        out = {'got': [], 'end': None}
        t = self.loop.create_task(_watch_client(self.stub, name, out, read_delay, self.loop))
        out['task'] = t
        self.tasks.append(t)
        return out

    def check(self, name):
        out = {}
        t = self.loop.create_task(_check_client(self.stub, name, out, self.loop))
        out['task'] = t
        self.tasks.append(t)
        return out

    def close(self):
        for t in self.tasks:
            t.cancel()
        run_quiet(self.loop, 0.0)


def impl_check_e2e(cfg, vals, names):
    from grpclib.health.check import ServiceStatus
    with vloop.session() as loop:
        checks = [ServiceStatus() for _ in vals]
        for c, v in zip(checks, vals):
            c.set(ST[v])
        rig = E2E(loop, make_health(cfg, checks))
        outs = [rig.check(svc_name(n)) for n in names]
        run_quiet(loop, 5.0)
        res = [o.get('res', ('pending',)) for o in outs]
        rig.close()
        return res


def impl_watch_e2e(cfg, vals, cmds, delays=None):
    """cmds as for the direct rig, restricted to s / w / q / c; `i:n` runs n iterations too (the client
    side observation is compared only after a `q`).  Returns received lists per watcher."""
    from grpclib.health.check import ServiceStatus
    delays = delays or {}
    with vloop.session() as loop:
        checks = [ServiceStatus() for _ in vals]
        for c, v in zip(checks, vals):
            c.set(ST[v])
        rig = E2E(loop, make_health(cfg, checks))
        ws = []
        for c in cmds:
            p = c.split(':')
            if p[0] == 's':
                if int(p[1]) < len(checks):
                    checks[int(p[1])].set(ST[int(p[2])])
            elif p[0] == 'w':
                ws.append(rig.watch(svc_name(int(p[1])), delays.get(str(len(ws)), 0) * TICK))
            elif p[0] == 'q':
                run_quiet(loop, 1.0)
            elif p[0] == 'i':
                for _ in range(int(p[1])):
                    one_iter(loop)
            elif p[0] == 'c':
                if int(p[1]) < len(ws):
                    ws[int(p[1])]['task'].cancel()
        # slow readers drain what was delivered
        run_quiet(loop, 400.0)
        got = [[s for s, _ in w['got']] for w in ws]
        ends = [w['end'] for w in ws]
        for w in ws:
            w['task'].cancel()
        run_quiet(loop, 1.0)
        left = total_subscribers(checks)
        rig.close()
        return got, ends, left


# ---- ServiceCheck.__check__, direct, on the virtual clock ---------------------------------------------

class Recorder:
    """stands in for a watcher's asyncio.Event among the events subscribed to a check: records event.set()"""

    def __init__(self, loop, check, log):
        self.loop, self.check, self.log = loop, check, log

    def set(self):
        self.log.append((round(self.loop.time() / TICK), CODE.get(self.check.__status__(), 9)))


class Script:
    """user check function driven by a script [(d, r)]: d >= 0 sleep d ticks, -1 no suspension,
    <= -2 never ends; r in T F N B R"""

    def __init__(self, loop, script):
        self.loop = loop
        self.script = list(script)
        self.n = 0
        self.log = []          # [start, end, how]
        self.active = 0
        self.max_active = 0

    async def __call__(self):
        d, r = self.script[self.n] if self.n < len(self.script) else (-1, 'T')
        self.n += 1
        rec = [round(self.loop.time() / TICK), None, None]
        self.log.append(rec)
        self.active += 1
        self.max_active = max(self.max_active, self.active)
        try:
            if d >= 0:
                await asyncio.sleep(d * TICK)
            elif d <= -2:
                await self.loop.create_future()
            if r == 'R':
                rec[2] = 'raise'
                raise RuntimeError('scripted failure')
            rec[2] = 'ret'
            return {'T': True, 'F': False, 'N': None, 'B': 1}[r]
        except asyncio.CancelledError:
            rec[2] = 'cancelled'
            raise
        finally:
            self.active -= 1
            rec[1] = round(self.loop.time() / TICK)


def impl_sc(ttl, tmo, horizon, script, events):
    from grpclib.health.check import ServiceCheck
    with vloop.session() as loop:
        fn = Script(loop, script)
        c = ServiceCheck(fn, check_ttl=ttl * TICK, check_timeout=tmo * TICK)
        notes = []
        if not add_subscriber(c, Recorder(loop, c, notes)):
            notes = None                 # not observable: the caller skips it
        callers = []
        ends = {}
        cancelled_pending = []       # callers that had not finished when Task.cancel() was called

        def cancel(i):
            if not callers[i].done():
                cancelled_pending.append(i)
            callers[i].cancel()

        def done(i):
            def cb(_):
                ends[i] = round(loop.time() / TICK)
            return cb
        for ev in events:
            t = ev[0]
            run_until(loop, t * TICK)
            if ev[1] == 'call':
                task = loop.create_task(c.__check__())
                task.add_done_callback(done(len(callers)))
                callers.append(task)
                if len(ev) > 2 and ev[2] is not None:
                    loop.call_at(ev[2] * TICK, cancel, len(callers) - 1)
            else:
                if ev[2] < len(callers):
                    cancel(ev[2])
        run_until(loop, horizon * TICK)
        outs = []
        for i, task in enumerate(callers):
            o = vloop.outcome(task)
            if o[0] == 'ok':
                outs.append('ret:%s:%d' % (CODE.get(o[1], 9), ends[i]))
            elif o[0] == 'cancelled':
                outs.append('cancelled:%d' % ends[i])
            elif o[0] == 'exc':
                outs.append('exc:' + type(o[1]).__name__)
            else:
                outs.append('pending')
        return {
            'value': CODE.get(c.__status__(), 9),
            'callers': outs,
            'log': [tuple(r) for r in fn.log],
            'notes': notes,
            'max_active': fn.max_active,
            'cancelled_pending': cancelled_pending,
        }


def impl_unsub(ttl, tmo, script, cancel_at, horizon, armed_first=True):
    """One watcher of a service with one ServiceCheck (fake stream, real Health.Watch).  The Watch call is
    cancelled at `cancel_at` by a timer armed before the call first runs (armed_first) or by the harness at
    that instant.  Afterwards nobody is subscribed: the handler must be over and the function must not be
    run any more."""
    from grpclib.health.check import ServiceCheck
    with vloop.session() as loop:
        fn = Script(loop, script)
        c = ServiceCheck(fn, check_ttl=ttl * TICK, check_timeout=tmo * TICK)
        health = make_health([[1, [0]]], [c])
        fs = FakeStream(loop, svc_name(1), False)
        w = loop.create_task(health.Watch(fs))
        if armed_first:
            loop.call_at(cancel_at * TICK, w.cancel)
            run_until(loop, cancel_at * TICK)
        else:
            run_until(loop, cancel_at * TICK)
            w.cancel()
        run_until(loop, horizon * TICK)
        out = {
            'handler': vloop.outcome(w)[0],
            'log': [tuple(r) for r in fn.log],
            'sent': list(fs.sent),
            'live_pollers': live_pollers(loop, c),
            'subscribed': subscribers(c),
            'pending_tasks': len(loop.pending_tasks()),
            'max_active': fn.max_active,
        }
        return out


# ---- ServiceCheck behind Health.Check / Health.Watch, end to end --------------------------------------

def impl_sc_e2e(case):
    """case: {'checks': [{'ttl','tmo','script'} | {'status': v}], 'cfg': [[name, ids]], 'events':
    [[t, 'check', name] | [t, 'watch', name] | [t, 'unwatch', k] | [t, 'set', i, v] | [t, 'cancelcheck', k]],
    'horizon'}.  Returns everything the oracle needs."""
    from grpclib.health.check import ServiceCheck, ServiceStatus
    with vloop.session() as loop:
        checks, fns = [], []
        for spec in case['checks']:
            if 'status' in spec:
                c = ServiceStatus()
                c.set(ST[spec['status']])
                checks.append(c)
                fns.append(None)
            else:
                fn = Script(loop, [tuple(x) for x in spec['script']])
                checks.append(ServiceCheck(fn, check_ttl=spec['ttl'] * TICK, check_timeout=spec['tmo'] * TICK))
                fns.append(fn)
        health = make_health(case['cfg'], checks)
        rig = E2E(loop, health)
        calls, watches, sets = [], [], []
        for ev in case['events']:
            run_until(loop, ev[0] * TICK)
            if ev[1] == 'check':
                o = rig.check(svc_name(ev[2]))
                o['name'] = ev[2]
                calls.append(o)
            elif ev[1] == 'watch':
                o = rig.watch(svc_name(ev[2]))
                o['name'] = ev[2]
                o['t0'] = ev[0]
                watches.append(o)
            elif ev[1] == 'unwatch':
                if ev[2] < len(watches):
                    watches[ev[2]]['task'].cancel()
                    watches[ev[2]]['t1'] = ev[0]
            elif ev[1] == 'cancelcheck':
                if ev[2] < len(calls):
                    calls[ev[2]]['task'].cancel()
            elif ev[1] == 'set':
                if fns[ev[2]] is None:
                    checks[ev[2]].set(ST[ev[3]])
                    sets.append((ev[0], ev[2], ev[3]))
        run_until(loop, case['horizon'] * TICK)
        res = {
            'calls': [{'name': o['name'], 't0': round(o['t0'] / TICK) if 't0' in o else None,
                       't1': round(o['t1'] / TICK) if 't1' in o else None,
                       'res': o.get('res', ('pending',))} for o in calls],
            'watches': [{'name': o['name'], 't0': o['t0'], 't1': o.get('t1'),
                         'got': [(s, round(t / TICK)) for s, t in o['got']], 'end': o['end']} for o in watches],
            'logs': [None if f is None else [tuple(r) for r in f.log] for f in fns],
            'max_active': [None if f is None else f.max_active for f in fns],
            'sets': sets,
            'final': [CODE.get(c.__status__(), 9) for c in checks],
        }
        # unsubscribe everybody: handlers must finish, nothing may stay subscribed or polling
        for o in watches:
            o['task'].cancel()
        run_quiet(loop, 2.0)
        res['left_events'] = total_subscribers(checks)
        res['left_polls'] = sum(1 for c, f in zip(checks, fns) if f is not None and live_pollers(loop, c))
        rig.close()
        return res


# ---- watchers of ServiceCheck-backed services joining and leaving at any loop iteration ----------------------

class TimedFn:
    """check function whose result depends on the time it returns: phases [(t_from, r)], r in T F N B R H;
    each run takes `dur` ticks (-1: no suspension); in an H phase the dependency hangs (the run never ends
    by itself)"""

    def __init__(self, loop, phases, dur):
        self.loop, self.phases, self.dur = loop, [tuple(p) for p in phases], dur
        self.log = []
        self.active = 0
        self.max_active = 0

    def result_at(self, t):
        r = self.phases[0][1]
        for t0, x in self.phases:
            if t0 <= t:
                r = x
        return r

    async def __call__(self):
        rec = [round(self.loop.time() / TICK), None, None]
        self.log.append(rec)
        self.active += 1
        self.max_active = max(self.max_active, self.active)
        try:
            if self.result_at(rec[0]) == 'H':
                await self.loop.create_future()
            if self.dur >= 0:
                await asyncio.sleep(self.dur * TICK)
            r = self.result_at(round(self.loop.time() / TICK))
            if r == 'H':
                await self.loop.create_future()
            rec[2] = r
            if r == 'R':
                raise RuntimeError('scripted failure')
            return {'T': True, 'F': False, 'N': None, 'B': 1}[r]
        except asyncio.CancelledError:
            rec[2] = 'cancelled'
            raise
        finally:
            self.active -= 1
            rec[1] = round(self.loop.time() / TICK)


class _Capture(logging.Handler):
    def __init__(self):
        super().__init__(level=logging.ERROR)
        self.records = []

    def emit(self, record):
        self.records.append((record.name, record.getMessage()[:80],
                             type(record.exc_info[1]).__name__ if record.exc_info and record.exc_info[1] else None))


def impl_churn(case):
    """cmds: j:<name> (a Watch call is created) | l:<k> (watcher k is cancelled) | i:<n> (n loop iterations) |
    q (run until idle) | t:<dt> (time passes).  rig 'direct': real Health.Watch on a fake stream; 'e2e': real
    client stub.  Afterwards `tail` ticks pass without any change, the live watchers are inspected, then
    everybody leaves."""
    from grpclib.health.check import ServiceCheck, ServiceStatus
    cap = _Capture()
    srv_log = logging.getLogger('grpclib.server')
    srv_log.addHandler(cap)
    old_prop = srv_log.propagate
    srv_log.propagate = False
    try:
        with vloop.session() as loop:
            checks, fns = [], []
            for spec in case['checks']:
                if 'status' in spec:
                    c = ServiceStatus()
                    c.set(ST[spec['status']])
                    checks.append(c)
                    fns.append(None)
                else:
                    fn = TimedFn(loop, spec['phases'], spec['dur'])
                    checks.append(ServiceCheck(fn, check_ttl=spec['ttl'] * TICK, check_timeout=spec['tmo'] * TICK))
                    fns.append(fn)
            health = make_health(case['cfg'], checks)
            e2e = case.get('rig') == 'e2e'
            rig = E2E(loop, health) if e2e else None
            ws = []           # direct: (task, FakeStream); e2e: out dict
            left = set()
            snaps = []

            def snap():
                snaps.append([None if f is None else
                              (subscribers(c), live_pollers(loop, c))
                              for c, f in zip(checks, fns)])
            for cmd in case['cmds']:
                p = cmd.split(':')
                if p[0] == 'j':
                    if e2e:
                        ws.append(rig.watch(svc_name(int(p[1]))))
                    else:
                        fs = FakeStream(loop, svc_name(int(p[1])), False)
                        ws.append({'task': loop.create_task(health.Watch(fs)), 'fs': fs})
                elif p[0] == 'l':
                    k = int(p[1])
                    if k < len(ws):
                        ws[k]['task'].cancel()
                        left.add(k)
                elif p[0] == 'i':
                    for _ in range(int(p[1])):
                        one_iter(loop)
                elif p[0] == 'q':
                    run_quiet(loop, 0.0)
                    snap()
                elif p[0] == 't':
                    run_until(loop, loop.time() + int(p[1]) * TICK)
                    snap()
            run_until(loop, loop.time() + case['tail'] * TICK)
            snap()

            def got(w):
                return [s for s, _ in w['got']] if e2e else list(w['fs'].sent)
            out = {
                'snaps': snaps,
                'sent': [got(w) for w in ws],
                'left': sorted(left),
                'state_live': [('pending' if not w['task'].done() else vloop.outcome(w['task'])[0]) for w in ws],
                'logs': [None if f is None else [tuple(r) for r in f.log] for f in fns],
                'max_active': [None if f is None else f.max_active for f in fns],
                'now': round(loop.time() / TICK),
            }
            for w in ws:
                w['task'].cancel()
            run_quiet(loop, 2.0)
            if e2e:
                run_until(loop, loop.time() + 16 * TICK)
            ends = []
            for w in ws:
                o = vloop.outcome(w['task'])
                ends.append(o[0] if o[0] != 'exc' else 'exc:' + type(o[1]).__name__)
            out['ends'] = ends
            out['left_events'] = total_subscribers(checks)
            out['left_polls'] = sum(1 for c, f in zip(checks, fns) if f is not None and live_pollers(loop, c))
            out['server_errors'] = [r for r in cap.records]
            out['unhandled'] = [str(u.get('message'))[:80] for u in loop.unhandled]
            if rig is not None:
                rig.close()
            return out
    finally:
        srv_log.removeHandler(cap)
        srv_log.propagate = old_prop
