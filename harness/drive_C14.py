"""C14 -- status code, message and details reach the caller unchanged.

Correspondence of Model/Utf8.v + Model/Percent.v + Model/StatusWire.v with
  grpclib.metadata.encode_grpc_message / decode_grpc_message (urllib.parse.quote / unquote, CPython's UTF-8 codec),
  grpclib.server.Stream.send_trailing_metadata / __aexit__   (trailers seen by a scripted h2 peer),
  the client's status processing (observed through a real Channel behind a scripted server, public call API only),
and the direct oracle: what a handler reports is what the client's GRPCError carries (real client <-> real
server on the virtual loop, ProtoStatusDetailsCodec on both sides, google.rpc details of known and unknown types).
"""
import logging
import urllib.parse

from harness import vloop, wire
from harness import peer as P
from harness.core import Result
from harness.svc import Service

PROPERTY = 'C14'
THEOREM_FILES = ['Props/C14.v']
ALLOWED_AXIOMS = []
LABEL = ('partial (the codec of the message text, the trailers and the client parse are modelled completely and '
         'proved for every string; protobuf Any packing / google.rpc.Status serialisation is opaque in the model '
         '-- details are carried as bytes -- and tied end to end only; "decoding never fails" is a by-construction '
         'property of the model decoder, carried by correspondence on malformed inputs)')
TRUSTED = ['modelled, not verified: urllib.parse.quote / unquote (transcribed from CPython 3.12.1 Lib/urllib/parse.py), '
           'str.encode / bytes.decode for utf-8 strict / replace (transcribed from Objects/stringlib/codecs.h and '
           'unicode_decode_utf8), int(str) on ASCII text, str(int), dict(headers) (last duplicate wins), '
           'h2/hpack carrying ASCII header strings unchanged and refusing non-ASCII bytes with UnicodeDecodeError '
           '(header_encoding=ascii), which H2Protocol.data_received turns into a connection-level protocol error; protobuf, google.rpc.Status and Any (opaque bytes)']
ASSUMPTIONS = ['status messages are Python str (code points 0..0x10FFFF); a lone surrogate makes the server raise '
               'UnicodeEncodeError (modelled as an explicit error result, outside the property quantifier)',
               'the encoded trailers fit the receiving h2 MAX_HEADER_LIST_SIZE (65536 by default); beyond it the '
               'status is lost -- recorded as a finding, not modelled',
               'a grpc-status value has fewer than 4300 characters (CPython int() digit limit not modelled)',
               'status OK carries no error: the client drops grpc-message / details sent with grpc-status 0 '
               '(theorem C14_ok_status_carries_nothing); the property speaks about the client GRPCError']

K_STATUS, K_MESSAGE, K_DETAILS = 'grpc-status', 'grpc-message', 'grpc-status-details-bin'
STATUS_KEYS = (K_STATUS, K_MESSAGE, K_DETAILS)


def _quiet():
    logging.getLogger('grpclib').setLevel(logging.CRITICAL)
    logging.getLogger('grpclib.server').setLevel(logging.CRITICAL)
    logging.getLogger('grpclib.protocol').setLevel(logging.CRITICAL)


# ---- encodings of the line protocol ---------------------------------------------------------------

def cpl(s):
    """str -> list of code points (JSON-safe, keeps lone surrogates)"""
    return [ord(c) for c in s]


def uncpl(l):
    return ''.join(chr(c) for c in l)


def w_cps(l):
    return ','.join(str(c) for c in l) if l else '-'


def r_cps(w):
    return [] if w == '-' else [int(t) for t in w.split(',')]


def w_hex(b):
    return bytes(b).hex() if b else '-'


def r_hex(w):
    return b'' if w == '-' else bytes.fromhex(w)


def w_msg(m):
    return 'n' if m is None else 's:' + (w_cps(m) if m else '')


def w_det(d):
    return 'n' if d is None else 'b:' + (bytes(d).hex() if d else '')


def r_msg(w):
    return None if w == 'n' else r_cps(w[2:] or '-')


def r_det(w):
    return None if w == 'n' else r_hex(w[2:] or '-')


def unj(v):
    return bytes.fromhex(v['hex']) if isinstance(v, dict) and 'hex' in v else v


# ---- generators -----------------------------------------------------------------------------------

BOUNDARY_CPS = [0, 1, 9, 10, 13, 0x1f, 0x20, 0x24, 0x25, 0x26, 0x7e, 0x7f, 0x80, 0x81, 0xff, 0x100, 0x7fe, 0x7ff, 0x800,
                0x801, 0xfff, 0x1000, 0xd7ff, 0xe000, 0xfffd, 0xfffe, 0xffff, 0x10000, 0x10001, 0x1f600,
                0x3ffff, 0x40000, 0xfffff, 0x100000, 0x10fffe, 0x10ffff]
SURROGATES = [0xd800, 0xd801, 0xdbff, 0xdc00, 0xdfff]
COMBINING = [0x300, 0x301, 0x308, 0x20dd, 0xfe0f, 0x200d, 0x1f3fb]
SNIPPETS = ['%', '%%', '%41', '%zz', '%C3%A9', '%c3', '%2', '% ', '\r\n', '\n', '\r', '\x00', '\x7f', ' ', '  ',
            '+', '~', 'a%b', '100%', '%25', '%u00e9', '&#233;', '\\x41', '=?utf-8?', '\t']


def gen_cp(rng):
    r = rng.random()
    if r < 0.30:
        return rng.randint(0x20, 0x7e)
    if r < 0.40:
        return rng.choice([0x25, 0x25, 10, 13, 0, 0x7f, 0x20, 9])
    if r < 0.55:
        return rng.choice(BOUNDARY_CPS)
    if r < 0.65:
        return rng.randint(0x80, 0x7ff)
    if r < 0.80:
        c = rng.randint(0x800, 0xffff)
        return c if not 0xd800 <= c <= 0xdfff else 0x4e2d
    if r < 0.93:
        return rng.randint(0x10000, 0x10ffff)
    return rng.choice(COMBINING)


def gen_msg(rng):
    """a status message: any scalar values, weighted to '%', CR/LF, NUL, DEL, boundaries, non-BMP, combining marks,
    and text that already looks like an escape"""
    n = rng.choice([0, 1, 1, 2, 3, 5, 8, 20, 60])
    out = []
    for _ in range(n):
        if rng.random() < 0.15:
            out += cpl(rng.choice(SNIPPETS))
        else:
            out.append(gen_cp(rng))
    return out


def gen_msg_with_surrogate(rng):
    m = gen_msg(rng)
    m.insert(rng.randint(0, len(m)), rng.choice(SURROGATES))
    if rng.random() < 0.3:      # a well-formed UTF-16 pair is still two lone surrogates in a Python str
        m += [0xd83d, 0xde00]
    return m


ESC_PIECES = ['%', '%%', '%z', '%zz', '%4', '%4g', '%g4', '%C3', '%c3', '%C3%A9', '%c3%a9', '%C3%a9', '%C0%AF', '%C1%BF',
              '%E0%80%80', '%E0%9F%BF', '%E0%A0%80', '%ED%9F%BF', '%ED%A0%80', '%ED%BF%BF', '%EE%80%80', '%EF%BF%BD',
              '%F0%8F%BF%BF', '%F0%90%80%80', '%F0%9F%98%80', '%F0%9F%98', '%F0%9F', '%F0', '%F4%8F%BF%BF',
              '%F4%90%80%80', '%F5%80%80%80', '%ff', '%FF', '%FE', '%80', '%BF', '%E2%82', '%E2%82%AC', '%E2%28%A1',
              '%00', '%0A', '%0D', '%25', '%2541', '%7F', '%20', 'a', 'Z', ' ', '~', '+', '=', '%C3%', '%C3%%A9', '%C3x%A9']


def gen_received(rng):
    """a received grpc-message as a str: valid escapes (upper / lower case), broken escapes, escapes that decode to
    invalid UTF-8 (overlong, surrogate, > 10FFFF, truncated), raw non-ASCII characters, plain text"""
    n = rng.choice([0, 1, 1, 2, 3, 4, 6, 10, 25])
    out = []
    for _ in range(n):
        r = rng.random()
        if r < 0.55:
            out += cpl(rng.choice(ESC_PIECES))
        elif r < 0.75:
            b = rng.randint(0, 255)
            out += cpl(('%%%02X' if rng.random() < 0.7 else '%%%02x') % b)
        elif r < 0.9:
            out.append(rng.randint(0x20, 0x7e))
        elif r < 0.97:
            out.append(rng.choice([0xe9, 0x4e2d, 0x1f600, 0x80, 0xff, 0xfffd, 0x100]))
        else:
            out.append(rng.choice(SURROGATES))
    return out


LEAD = [0x00, 0x41, 0x7f, 0x80, 0x8f, 0x90, 0x9f, 0xa0, 0xbf, 0xc0, 0xc1, 0xc2, 0xdf, 0xe0, 0xe1, 0xec, 0xed, 0xee, 0xef,
        0xf0, 0xf1, 0xf3, 0xf4, 0xf5, 0xf8, 0xff]


def gen_bytes_utf8ish(rng):
    n = rng.choice([0, 1, 2, 3, 4, 5, 8, 16])
    return bytes(rng.choice(LEAD) if rng.random() < 0.75 else rng.randint(0, 255) for _ in range(n))


def gen_details_bytes(rng):
    n = rng.choice([0, 1, 2, 3, 4, 5, 31, 32, 33, 100])
    return bytes(rng.randint(0, 255) for _ in range(n))


def status_members():
    from grpclib.const import Status
    return list(Status)


GOOD_STATUS_SPELLINGS = ['{}', ' {}', '{} ', '+{}', '0{}', '00{}', '\t{}\n', '\x0b{}\x0c', '{}\r']
BAD_STATUS = ['', ' ', 'x', '5.0', '-1', '-0', '17', '99', '1e1', '0x5', '5 5', '+ 5', '++5', '5_', '_5', '1__0', '1_0',
              '1_6', '0_5', '\x005', '5\x00', '\x1c5', 'OK', 'NOT_FOUND', '٥', '５', '5 ', '4294967301',
              '18446744073709551621']


def gen_status_value(rng):
    r = rng.random()
    if r < 0.6:
        return rng.choice(GOOD_STATUS_SPELLINGS).format(rng.choice(status_members()).value)
    return rng.choice(BAD_STATUS)


def gen_b64ish(rng):
    import base64
    b = gen_details_bytes(rng)
    enc = base64.b64encode(b).decode()
    sp = rng.random()
    if sp < 0.5:
        enc = enc.rstrip('=')
    elif sp < 0.6:
        enc = enc.rstrip('=') + '=' * rng.randint(0, 4)
    elif sp < 0.75 and enc:
        i = rng.randint(0, len(enc))
        enc = enc[:i] + rng.choice([' ', '\n', '-', '_', '=', 'é', '.', '%', '!!!!']) + enc[i:]
    elif sp < 0.8 and enc:
        enc = enc[:rng.randint(0, len(enc))]
    return enc


def gen_client_headers(rng):
    """a trailers block for the client's status processing: grpc-status in many spellings or missing, grpc-message,
    details, duplicates, user metadata"""
    hs = []
    if rng.random() < 0.93:
        hs.append((K_STATUS, gen_status_value(rng)))
    if rng.random() < 0.7:
        hs.append((K_MESSAGE, uncpl(gen_received(rng) if rng.random() < 0.7 else
                                     cpl(urllib.parse.quote(_encodable(gen_msg(rng)), safe=' !"#$&\'()*+,-./:;<=>?@[\\]^_`{|}~')))))
    if rng.random() < 0.5:
        hs.append((K_DETAILS, gen_b64ish(rng)))
    if rng.random() < 0.3:
        hs.append(('x-user', 'v'))
    if rng.random() < 0.15:       # duplicates: dict(headers) keeps the last one
        hs.append((K_STATUS, gen_status_value(rng)))
    if rng.random() < 0.15:
        hs.append((K_MESSAGE, uncpl(gen_received(rng))))
    if rng.random() < 0.1:
        hs.append((K_DETAILS, gen_b64ish(rng)))
    if rng.random() < 0.2:
        rng.shuffle(hs)
    # what travels through h2 is ASCII (non-ASCII bytes are the business of gen_receive_case)
    return [(k, ''.join(ch for ch in v if ord(ch) < 128)) for k, v in hs]


def _encodable(m):
    return uncpl([c for c in m if not 0xd800 <= c <= 0xdfff])


# ---- status details codecs used by the harness ----------------------------------------------------

def raw_details_codec():
    from grpclib.encoding.base import StatusDetailsCodecBase

    class RawDetails(StatusDetailsCodecBase):
        """details ARE the bytes: shows which bytes the server hands to the wire and the client to the codec"""

        def encode(self, status, message, details):
            return bytes(details)

        def decode(self, status, message, data):
            return bytes(data)
    return RawDetails()


def recording_proto_codec(log):
    from grpclib.encoding.proto import ProtoStatusDetailsCodec

    class Recording(ProtoStatusDetailsCodec):
        def encode(self, status, message, details):
            b = super().encode(status, message, details)
            log.append(('encode', b))
            return b

        def decode(self, status, message, data):
            log.append(('decode', bytes(data)))
            return super().decode(status, message, data)
    return Recording()


_PRIVATE = {}


def private_type():
    """a protobuf message type that is NOT in the default symbol database (a detail type the client does not know)"""
    if 'cls' not in _PRIVATE:
        from google.protobuf import descriptor_pb2, descriptor_pool, message_factory
        fdp = descriptor_pb2.FileDescriptorProto(name='verif_private.proto', package='verif.private', syntax='proto3')
        m = fdp.message_type.add(name='Secret')
        m.field.add(name='text', number=1, type=descriptor_pb2.FieldDescriptorProto.TYPE_STRING, label=1)
        m.field.add(name='n', number=2, type=descriptor_pb2.FieldDescriptorProto.TYPE_INT64, label=1)
        pool = descriptor_pool.DescriptorPool()
        pool.Add(fdp)
        _PRIVATE['cls'] = message_factory.GetMessageClass(pool.FindMessageTypeByName('verif.private.Secret'))
    return _PRIVATE['cls']


DETAIL_KINDS = ['BadRequest', 'RetryInfo', 'DebugInfo', 'QuotaFailure', 'ErrorInfo', 'PreconditionFailure',
                'ResourceInfo', 'Help', 'LocalizedMessage', 'RequestInfo', 'unknown', 'unknown']


def build_detail(spec):
    """spec = [kind, text (code points), number]"""
    from google.rpc import error_details_pb2 as ed
    kind, text, n = spec[0], uncpl(spec[1]), spec[2]
    if kind == 'unknown':
        return private_type()(text=text, n=n)
    if kind == 'BadRequest':
        return ed.BadRequest(field_violations=[ed.BadRequest.FieldViolation(field=text, description=text[::-1])
                                               for _ in range(n % 3)])
    if kind == 'RetryInfo':
        m = ed.RetryInfo()
        m.retry_delay.seconds = n
        return m
    if kind == 'DebugInfo':
        return ed.DebugInfo(stack_entries=[text] * (n % 4), detail=text)
    if kind == 'QuotaFailure':
        return ed.QuotaFailure(violations=[ed.QuotaFailure.Violation(subject=text, description=str(n))])
    if kind == 'ErrorInfo':
        return ed.ErrorInfo(reason=text, domain='verif', metadata={text: str(n), 'k': text})
    if kind == 'PreconditionFailure':
        return ed.PreconditionFailure(violations=[ed.PreconditionFailure.Violation(type='T', subject=text)])
    if kind == 'ResourceInfo':
        return ed.ResourceInfo(resource_type='t', resource_name=text, owner=str(n), description=text)
    if kind == 'Help':
        return ed.Help(links=[ed.Help.Link(description=text, url='https://example.com/%d' % n)])
    if kind == 'LocalizedMessage':
        return ed.LocalizedMessage(locale='en-US', message=text)
    if kind == 'RequestInfo':
        return ed.RequestInfo(request_id=str(n), serving_data=text)
    raise ValueError(kind)


def gen_detail_specs(rng):
    r = rng.random()
    if r < 0.2:
        return None
    if r < 0.3:
        return []
    return [[rng.choice(DETAIL_KINDS), _scalars(gen_msg(rng))[:12], rng.choice([0, 1, 2, 5, 2 ** 31, 2 ** 40])]
            for _ in range(rng.choice([1, 1, 2, 3, 5]))]


def _scalars(m):
    return [c for c in m if not 0xd800 <= c <= 0xdfff]


# ---- message codecs: the content subtype is part of the configuration, on both end points ---------------------------

SUBTYPES = ['proto', 'proto', 'json', 'x-raw.v1']
_CODECS = {}


def msg_codec(sub):
    """a message codec (opaque bytes) announcing the content subtype `sub` (None -> 'proto')"""
    sub = sub or 'proto'
    if sub not in _CODECS:
        from grpclib.encoding.base import CodecBase

        class BytesCodec(CodecBase):
            __content_subtype__ = sub

            def encode(self, message, message_type):
                if not isinstance(message, (bytes, bytearray)):
                    raise TypeError('bytes expected')
                return bytes(message)

            def decode(self, data, message_type):
                return bytes(data)
        _CODECS[sub] = BytesCodec()
    return _CODECS[sub]


def content_type_for(sub, plain_ok=True):
    """what a peer configured with the same codec sends: application/grpc+<sub>; the bare form means +proto"""
    sub = sub or 'proto'
    if sub == 'proto' and plain_ok:
        return 'application/grpc'
    return 'application/grpc+' + sub


def content_type_ok(value, sub):
    """the gRPC rule a receiver with subtype `sub` applies"""
    if value is None:
        return False
    base, _, s = value.partition('+')
    return base == 'application/grpc' and (s or 'proto') == (sub or 'proto')


# ---- how a handler raises its status: plain GRPCError or a user-defined error hierarchy on top of it ---------------

EXC_KINDS = ['plain', 'plain', 'sub1', 'sub2']
_ERRORS = {}


def error_classes():
    """a user-defined hierarchy, as applications write it: one and two levels below GRPCError, with extra attributes
    and their own __str__"""
    if not _ERRORS:
        from grpclib.exceptions import GRPCError

        class AppError(GRPCError):
            retryable = False

            def __init__(self, status, message=None, details=None, *, resource=None):
                super().__init__(status, message, details)
                self.resource = resource

            def __str__(self):
                return 'AppError(%s)' % (self.resource,)

        class QuotaError(AppError):
            retryable = True

            def __init__(self, status, message=None, details=None, *, resource=None, limit=0):
                super().__init__(status, message, details, resource=resource)
                self.limit = limit
        _ERRORS.update(plain=GRPCError, sub1=AppError, sub2=QuotaError)
    return _ERRORS


def make_error(kind, st, msg, details):
    cls = error_classes()[kind or 'plain']
    if kind == 'sub1':
        return cls(st, msg, details, resource='shelf/1')
    if kind == 'sub2':
        return cls(st, msg, details, resource='shelf/2', limit=10)
    return cls(st, msg, details)


# ---- implementation side: pure functions -----------------------------------------------------------

def impl_enc(m):
    from grpclib.metadata import encode_grpc_message
    try:
        return ('ok', cpl(encode_grpc_message(uncpl(m))))
    except UnicodeEncodeError:
        return ('err',)
    except Exception as e:
        return ('exc', type(e).__name__)


def impl_dec(v):
    from grpclib.metadata import decode_grpc_message
    try:
        return ('ok', cpl(decode_grpc_message(uncpl(v))))
    except Exception as e:
        return ('exc', type(e).__name__)


def canon_client(fn):
    """run something that ends like _process_grpc_status + _raise_for_grpc_status -> canonical record"""
    from grpclib.exceptions import GRPCError
    from grpclib.const import Status
    try:
        st, msg, det = fn()
    except GRPCError as e:
        if e.status is Status.UNKNOWN and e.details is None and isinstance(e.message, str):
            if e.message == 'Missing grpc-status header':
                return ('missing',)
            if e.message.startswith('Invalid grpc-status: '):
                return ('invalid',)
        return ('raised', e.status.value, e.message, e.details)
    except Exception as e:
        return ('exc', type(e).__name__)
    return ('status', st.value, None if msg is None else cpl(msg), det)


def st_case(codec_on, hs, layout='trailers'):
    """a header list (str) for the client's status processing -> the same block sent by a scripted server to a real
    Channel (the processing is observed through the public call API only)"""
    hs = hs or [('x-none', '1')]          # the scripted h2 cannot emit an empty header block
    return {'op': 'rcv', 'codec': codec_on, 'layout': layout, 'from': 'st',
            'hs': [(k.encode('utf-8', 'replace'), v.encode('utf-8', 'replace')) for k, v in hs]}


def parse_model_status(line):
    w = line.split()
    if w[0] == 'status':
        return ('status', int(w[1]), r_msg(w[2]), r_det(w[3]))
    return (w[0],)


# ---- implementation side: the real server in front of a scripted peer ------------------------------

def impl_trailers(case):
    """handler reports (st, msg, det) -> the status part of the response block(s) the scripted client peer receives"""
    from grpclib.const import Status
    from grpclib.exceptions import GRPCError
    from h2.events import ResponseReceived, TrailersReceived, StreamReset, StreamEnded
    _quiet()
    st = Status(case['st'])
    msg = None if case['msg'] is None else uncpl(case['msg'])
    det = None if case['det'] is None else unj(case['det'])
    how = case.get('how', 'raise')
    with vloop.session() as loop:
        async def handler(stream):
            await stream.recv_message()
            if how == 'raise':
                raise make_error(case.get('exc'), st, msg, det)
            if how == 'send-after-message':
                await stream.send_message(b'r')
            await stream.send_trailing_metadata(status=st, status_message=msg, status_details=det)
        se = wire.ServerEnd(loop, [Service('v.S', {'M': (handler, 'UU')})], codec=msg_codec(case.get('sub')),
                            status_details_codec=raw_details_codec() if case.get('codec', True) else None)
        loop.run_quiet(1)
        se.peer.take_events()
        sid = se.peer.request([(k, v) for k, v in P.REQ_HEADERS if k != 'content-type'] +
                              [('content-type', content_type_for(case.get('sub'), case['st'] % 2 == 0))])
        se.peer.data(sid, P.grpc_frame(b'q'), end_stream=True)
        loop.run_quiet(5)
        blocks, ended = [], False
        for e in se.peer.take_events():
            if isinstance(e, (ResponseReceived, TrailersReceived)):
                blocks.append([(k, v) for k, v in e.headers])
            elif isinstance(e, (StreamEnded, StreamReset)):
                ended = True
        viol = [type(v).__name__ for v in se.peer.violations]
    status_part = [(k, v) for b in blocks for k, v in b if k in STATUS_KEYS]
    return {'headers': status_part, 'blocks': len(blocks), 'ended': ended, 'violations': viol,
            'http_status': dict(blocks[0]).get(':status') if blocks else None,
            'content_type': dict(blocks[0]).get('content-type') if blocks else None}


def parse_model_trailers(line):
    w = line.split()
    if w[0] == 'err':
        return None
    n = int(w[1])
    return [(uncpl(r_cps(w[2 + 2 * i])), uncpl(r_cps(w[3 + 2 * i]))) for i in range(n)]


# ---- implementation side: the real client behind a scripted server peer ----------------------------

def impl_receive(case):
    """raw trailer bytes from a scripted server -> what the client call ends with"""
    from grpclib.client import UnaryUnaryMethod
    from h2.events import RequestReceived
    _quiet()
    raw = [(unj(k), unj(v)) for k, v in case['hs']]
    with vloop.session() as loop:
        if case.get('codec', True) == 'proto':
            from grpclib.encoding.proto import ProtoStatusDetailsCodec
            sdc = ProtoStatusDetailsCodec()
        else:
            sdc = raw_details_codec() if case.get('codec', True) else None
        ce = wire.ClientEnd(loop, codec=msg_codec(case.get('sub')), status_details_codec=sdc)
        ctype = content_type_for(case.get('sub'), len(raw) % 2 == 0).encode()
        m = UnaryUnaryMethod(ce.channel, '/v.S/M', bytes, bytes)
        got = {}

        async def call():
            async with m.open() as s:
                await s.send_message(b'q', end=True)
                got['reply'] = await s.recv_message()
                await s.recv_trailing_metadata()
            return got.get('reply')
        t = loop.create_task(call())
        loop.run_quiet(1)
        sid = [e for e in ce.peer.take_events() if isinstance(e, RequestReceived)][0].stream_id
        try:
            if case.get('layout') == 'only':
                ce.peer.headers(sid, [(b':status', b'200'), (b'content-type', ctype)] + raw,
                                end_stream=True)
            else:
                ce.peer.headers(sid, [(b':status', b'200'), (b'content-type', ctype)])
                ce.peer.data(sid, P.grpc_frame(b'r'))
                ce.peer.headers(sid, raw, end_stream=True)
        except BaseException as e:          # escaped from H2Protocol.data_received
            return ('connerr', type(e).__name__)
        loop.run_quiet(5)
        o = vloop.outcome(t)
        unhandled = len(loop.unhandled)
    if o[0] == 'ok':
        return ('ok', o[1])
    if o[0] == 'exc':
        e = o[1]

        def rethrow():
            raise e
        from grpclib.exceptions import GRPCError
        if isinstance(e, GRPCError):
            r = canon_client(rethrow)
            if r[0] == 'raised':
                return ('status', r[1], None if r[2] is None else cpl(r[2]), r[3])
            return r
        return ('exc', type(e).__name__)
    return (o[0], unhandled)


def model_receive_expect(line):
    """what the model's client_receive answer means for the call above"""
    w = line.split()
    if w[0] == 'connerr':
        # h2 raises UnicodeDecodeError; H2Protocol.data_received treats it as a protocol error: the connection is
        # closed and the call ends with StreamTerminatedError
        return ('exc', 'StreamTerminatedError')
    if w[0] == 'status':
        if int(w[1]) == 0:
            return ('ok', b'r')
        return ('status', int(w[1]), r_msg(w[2]), r_det(w[3]))
    return (w[0],)


# ---- end to end: real client <-> real server ---------------------------------------------------------

def make_cutter(seed):
    import random
    r = random.Random(seed)

    def cutter(data):
        if seed is None or len(data) < 2:
            return None
        k = r.choice([0, 0, 1, 2, 5])
        return sorted(r.randint(1, len(data) - 1) for _ in range(k))
    return cutter


def canon_detail(d):
    """a received detail, by ROLE: a protobuf message of a known type -> (type name, canonical bytes); anything else
    is the codec's stand-in for a type the client does not know -> ('unknown', the type name it shows)"""
    from google.protobuf.message import Message
    if isinstance(d, Message):
        return (type(d).DESCRIPTOR.full_name, d.SerializeToString(deterministic=True))
    names = [v for v in getattr(d, '__dict__', {}).values() if isinstance(v, str)]
    if len(names) == 1:
        return ('unknown', names[0])
    import re
    m = re.search(r"""['"]([^'"]*)['"]""", repr(d))
    return ('unknown', m.group(1) if m else repr(d))


def open_pair(loop, services, sdc, cutter, codec):
    """real Channel <-> real Server protocol over a byte link with re-cut delivery, wired the way
    grpclib.testing.ChannelFor wires its pair.  Returns (channel, link), or (None, None) when that private wiring is
    not there any more -- the caller then falls back to the public ChannelFor (no re-cutting)."""
    from grpclib.client import Channel
    from grpclib.server import Server
    try:
        server = Server(services, codec=codec, status_details_codec=sdc)
        channel = Channel(codec=codec, status_details_codec=sdc)
        sproto = server._protocol_factory()
        cproto = channel._protocol_factory()
        link = wire.Link(loop, cproto, sproto, cutter)
        cproto.connection_made(link.ta)
        sproto.connection_made(link.tb)
        channel._protocol = cproto
        if not hasattr(channel, '__connect__'):
            raise AttributeError('__connect__')
        return channel, link
    except (AttributeError, TypeError):
        return None, None


def run_pair(services, sdc, cut, card, body, sub=None):
    """run `body(stream, got)` inside `async with method.open()` against the services; -> (outcome, got, extra)"""
    import asyncio
    with vloop.session() as loop:
        codec = msg_codec(sub)
        channel, link = open_pair(loop, services, sdc, make_cutter(cut), codec)
        got = {'replies': []}
        res = {}

        async def inner(ch):
            m = lc_method(ch, card)
            try:
                async with m.open() as s:
                    got['stream'] = s
                    await body(s, got)
                res['o'] = ('ok', None)
            except asyncio.CancelledError:
                raise
            except BaseException as e:
                res['o'] = ('exc', e)

        async def outer():
            from grpclib.testing import ChannelFor
            async with ChannelFor(services, codec=codec, status_details_codec=sdc) as ch:
                await inner(ch)
        loop.create_task(inner(channel) if channel is not None else outer())
        quiet = loop.run_quiet(20)
        extra = {'quiet': quiet,
                 'conn_alive': None if link is None else (not link.ta.lost and not link.tb.lost)}
    return res.get('o', ('pending',)), got, extra


def e2e(case):
    """a handler reports (status, message, details) -- by raising GRPCError (or a user subclass) or by
    send_trailing_metadata -- through a real Server protocol, a byte link with re-cut delivery and a real Channel;
    ProtoStatusDetailsCodec on both sides.  Returns the canonical observation at the client plus the bytes the two
    codecs saw."""
    from grpclib.const import Status
    _quiet()
    st = Status(case['st'])
    msg = None if case['msg'] is None else uncpl(case['msg'])
    specs = case.get('details')
    details = None if specs is None else [build_detail(s) for s in specs]
    if details is not None and case.get('details_as') == 'tuple':
        details = tuple(details)
    how = case.get('how', 'raise')
    card = 'US' if how.endswith('stream') else 'UU'
    # user trailing metadata next to the status (only send_trailing_metadata can pass it)
    md = [(k, unj(v)) for k, v in case['md']] if case.get('md') and how.startswith('send') else None
    log = []

    async def handler(stream):
        await stream.recv_message()
        if how == 'raise':
            raise make_error(case.get('exc'), st, msg, details)
        if how == 'raise-after-message' or how == 'raise-stream':
            await stream.send_message(b'r')
            raise make_error(case.get('exc'), st, msg, details)
        if how == 'send-after-message' or how == 'send-stream':
            await stream.send_message(b'r')
        await stream.send_trailing_metadata(status=st, status_message=msg, status_details=details, metadata=md)

    async def body(s, got):
        await s.send_message(b'q', end=True)
        if card == 'US':
            async for r in s:
                got['replies'].append(r)
        else:
            got['replies'].append(await s.recv_message())
        await s.recv_trailing_metadata()
    o, got, extra = run_pair([Service('v.S', {'M': (handler, card)})], recording_proto_codec(log), case.get('cut'),
                             card, body, case.get('sub'))
    return lc_observe(o, got, log, extra), details


# ---- end to end: the call life-cycle matrix ----------------------------------------------------------
# all four cardinalities x {client already half-closed, client still sending} x {status consumed by
# recv_trailing_metadata, at context exit, through the StreamTerminatedError upgrade in __aexit__ after
# RST_STREAM / GOAWAY / connection loss} x details {None, known, unknown}.  Two ways to get there: the real server
# (which resets the stream after the trailers when the client has not half-closed) and a scripted server peer
# (trailers followed by RST_STREAM / GOAWAY / loss, for every client state).

LC_MODES = ['trailing', 'exit', 'upgrade-send', 'upgrade-recv']


def lc_must_finish(case):
    """a scripted server that ends its side with plain trailers (no RST): a client that never half-closes would be
    misusing the API (recv_trailing_metadata -> ProtocolError 'Outgoing stream was not ended'), so it finishes"""
    return case['op'] == 'e2e-peer' and not case['half_closed'] and case.get('term') is None and \
        case.get('layout') == 'full'


def lc_valid(case):
    cs = case['card'][0] == 'S'
    if case['mode'] == 'upgrade-send' and (not cs or case['half_closed']):
        return False            # nothing can be sent any more
    if case.get('srv') == 'read-reply' and not cs and not case['half_closed']:
        return False            # the handler would wait for a message that never comes
    return True


async def lc_client_body(s, case, got):
    import asyncio
    cs, ss = case['card'][0] == 'S', case['card'][1] == 'S'
    got['stream'] = s
    if case['half_closed']:
        if cs:
            await s.send_message(b'q')
            await s.send_message(b'q2', end=True)
        else:
            await s.send_message(b'q', end=True)
    elif cs:
        await s.send_message(b'q')
    else:
        await s.send_request()
    if case.get('sleep'):
        await asyncio.sleep(case['sleep'])          # everything the server sent has arrived by then
    mode = case['mode']
    if case.get('finish') and not case['half_closed'] and mode != 'upgrade-send':
        # the client goes on with its side of the protocol: the last message, half-close
        await s.send_message(b'last', end=True)
    if mode == 'trailing':
        if ss:
            async for r in s:
                got['replies'].append(r)
        else:
            got['replies'].append(await s.recv_message())
        await s.recv_trailing_metadata()
    elif mode == 'upgrade-send':
        for _ in range(3):
            await s.send_message(b'more')
            await asyncio.sleep(0.125)
        if case.get('finish'):
            await s.end()
    elif mode == 'upgrade-recv':
        got['replies'].append(await s.recv_message())
    # mode == 'exit': the status is consumed by __aexit__


def lc_method(channel, card):
    from grpclib import client as C
    cls = {'UU': C.UnaryUnaryMethod, 'US': C.UnaryStreamMethod, 'SU': C.StreamUnaryMethod,
           'SS': C.StreamStreamMethod}[card]
    return cls(channel, '/v.S/M', bytes, bytes)


def lc_observe(o, got, log, extra):
    from grpclib.exceptions import GRPCError
    obs = dict(extra, outcome=o[0], replies=len(got['replies']))
    if o[0] == 'exc':
        e = o[1]
        obs['exc'] = 'GRPCError' if isinstance(e, GRPCError) else type(e).__name__
        if isinstance(e, GRPCError):
            obs['status'] = e.status.value
            obs['message'] = None if e.message is None else cpl(e.message)
            obs['details'] = None if e.details is None else [canon_detail(d) for d in e.details]
    obs['codec_log'] = log
    tm = getattr(got.get('stream'), 'trailing_metadata', None)
    obs['tm'] = None if tm is None else list(tm.items())
    return obs


def e2e_lifecycle(case):
    """real server <-> real client; the handler reports an error at a chosen point of the call"""
    from grpclib.const import Status
    _quiet()
    st = Status(case['st'])
    msg = None if case['msg'] is None else uncpl(case['msg'])
    specs = case.get('details')
    details = None if specs is None else [build_detail(s) for s in specs]
    how = case.get('how', 'raise')
    log = []

    async def handler(stream):
        if case.get('srv') == 'read-reply':
            await stream.recv_message()
            await stream.send_message(b'r')
        if how == 'raise':
            raise make_error(case.get('exc'), st, msg, details)
        await stream.send_trailing_metadata(status=st, status_message=msg, status_details=details)

    async def body(s, got):
        await lc_client_body(s, case, got)
    o, got, extra = run_pair([Service('v.S', {'M': (handler, case['card'])})], recording_proto_codec(log),
                             case.get('cut'), case['card'], body, case.get('sub'))
    return lc_observe(o, got, log, extra), details


def e2e_peer(case):
    """scripted server peer: (headers, message,) trailers, then nothing / RST_STREAM / GOAWAY / connection loss.  The
    trailers are built with the real server-side functions (encode_grpc_message, the codec, encode_bin_value)."""
    from grpclib.const import Status
    from grpclib.metadata import encode_grpc_message, encode_bin_value
    from h2.events import RequestReceived
    _quiet()
    st = Status(case['st'])
    msg = None if case['msg'] is None else uncpl(case['msg'])
    specs = case.get('details')
    details = None if specs is None else [build_detail(s) for s in specs]
    log = []
    with vloop.session() as loop:
        codec = recording_proto_codec(log)
        ce = wire.ClientEnd(loop, codec=msg_codec(case.get('sub')), status_details_codec=codec)
        resp = [(':status', '200'), ('content-type', content_type_for(case.get('sub'), case['st'] % 2 == 0))]
        m = lc_method(ce.channel, case['card'])
        got = {'replies': []}

        async def call():
            async with m.open() as s:
                await lc_client_body(s, case, got)
        t = loop.create_task(call())
        loop.run_quiet(0.5)
        sid = [e for e in ce.peer.take_events() if isinstance(e, RequestReceived)][0].stream_id
        trailers = [('grpc-status', str(st.value))]
        if msg is not None:
            trailers.append(('grpc-message', encode_grpc_message(msg)))
        if details is not None:
            trailers.append(('grpc-status-details-bin', encode_bin_value(codec.encode(st, msg, details)).decode('ascii')))
        if case.get('layout') == 'only':
            ce.peer.headers(sid, resp + trailers, end_stream=True)
        else:
            ce.peer.headers(sid, resp)
            ce.peer.data(sid, P.grpc_frame(b'r'))
            ce.peer.headers(sid, trailers, end_stream=True)
        term = case.get('term')
        if term == 'rst':
            # a raw RST_STREAM(NO_ERROR) frame: h2's API refuses to reset a stream it considers closed
            ce.peer.raw(P.frame_bytes(0x3, 0, sid, b'\x00\x00\x00\x00'))
        elif term == 'goaway':
            ce.peer.goaway()
        elif term == 'lost':
            ce.transport.lose()
        quiet = loop.run_quiet(20)
        o = vloop.outcome(t)
        obs = lc_observe(o, got, log, {'quiet': quiet})
    return obs, details


def gen_lifecycle_cases(rng, full):
    """the matrix; `full` enumerates every cell, otherwise a PRNG half of it (every cell class still appears)"""
    members = [s.value for s in status_members() if s.value != 0]
    det_classes = [None, 'known', 'unknown']

    def fill(c, dc):
        r = rng.random()
        c['st'] = rng.choice(members)
        c['msg'] = None if r < 0.1 else [] if r < 0.15 else _scalars(gen_msg(rng))[:20]
        if dc is None:
            c['details'] = None
        else:
            kinds = [k for k in DETAIL_KINDS if (k == 'unknown') == (dc == 'unknown')]
            c['details'] = [[rng.choice(kinds), _scalars(gen_msg(rng))[:8], rng.choice([0, 1, 5, 2 ** 31])]
                            for _ in range(rng.choice([1, 2]))]
            if dc == 'unknown' and rng.random() < 0.5:
                c['details'].append(['Help', [104], 1])
        return c
    out = []
    for card in ('UU', 'US', 'SU', 'SS'):
        for hc in (True, False):
            for mode in LC_MODES:
                for sleep in (0, 2):
                    for dc in det_classes:
                        for srv in ('early', 'read-reply'):
                            c = {'op': 'e2e-lc', 'card': card, 'half_closed': hc, 'mode': mode, 'sleep': sleep,
                                 'srv': srv, 'how': rng.choice(['raise', 'raise', 'send']), 'exc': rng.choice(EXC_KINDS),
                                 'cut': rng.choice([None, rng.randint(1, 10 ** 6)])}
                            c['finish'] = not hc and rng.random() < 0.3
                            if lc_valid(c) and (full or rng.random() < 0.5):
                                out.append(fill(c, dc))
                        for layout in ('only', 'full'):
                            for term in (None, 'rst', 'goaway', 'lost'):
                                c = {'op': 'e2e-peer', 'card': card, 'half_closed': hc, 'mode': mode, 'sleep': sleep,
                                     'layout': layout, 'term': term}
                                c['finish'] = lc_must_finish(c) or (not hc and rng.random() < 0.3)
                                if lc_valid(c) and (full or rng.random() < 0.5):
                                    out.append(fill(c, dc))
    return out


# ---- histories of calls in one process during which the set of known detail types changes ----------------------------

_LATE = {'n': 0}


def late_type():
    """a fresh protobuf message type (unique name per process) that the client does not know yet, plus the action that
    makes it known -- what importing its generated pb2 module does: add the file to the default descriptor pool and
    register the class in the default symbol database"""
    import os
    from google.protobuf import descriptor_pb2, descriptor_pool, message_factory, symbol_database
    _LATE['n'] += 1
    tag = 'p%dn%d' % (os.getpid(), _LATE['n'])
    fdp = descriptor_pb2.FileDescriptorProto(name='verif_late_%s.proto' % tag, package='verif.late.' + tag, syntax='proto3')
    m = fdp.message_type.add(name='Late')
    m.field.add(name='text', number=1, type=descriptor_pb2.FieldDescriptorProto.TYPE_STRING, label=1)
    m.field.add(name='n', number=2, type=descriptor_pb2.FieldDescriptorProto.TYPE_INT64, label=1)
    name = 'verif.late.%s.Late' % tag
    pool = descriptor_pool.DescriptorPool()
    pool.Add(fdp)
    cls = message_factory.GetMessageClass(pool.FindMessageTypeByName(name))

    def register():
        d = descriptor_pool.Default()
        d.Add(fdp)
        symbol_database.Default().RegisterMessage(message_factory.GetMessageClass(d.FindMessageTypeByName(name)))
    return name, cls, register


def e2e_history(case):
    """several failed calls in ONE process; between two of them a detail type becomes known to the client.  Every call
    must carry the status and message, and each detail as the real message iff its type is known AT THAT TIME."""
    from grpclib.const import Status
    _quiet()
    st = Status(case['st'])
    msg = None if case['msg'] is None else uncpl(case['msg'])
    name, cls, register = late_type()
    text = uncpl(case.get('text') or [120])
    others = [build_detail(s) for s in (case.get('details') or [])]
    details = [cls(text=text, n=case.get('n', 7))] + others
    known = False
    out = []
    for step in case['steps']:
        if step == 'register':
            register()
            known = True
            continue
        how = step
        log = []

        async def handler(stream):
            await stream.recv_message()
            if how == 'send':
                await stream.send_trailing_metadata(status=st, status_message=msg, status_details=details)
            else:
                raise make_error(case.get('exc'), st, msg, details)

        async def body(s, got):
            await s.send_message(b'q', end=True)
            got['replies'].append(await s.recv_message())
        o, got, extra = run_pair([Service('v.S', {'M': (handler, 'UU')})], recording_proto_codec(log), case.get('cut'),
                                 'UU', body, case.get('sub'))
        obs = lc_observe(o, got, log, extra)
        obs.pop('codec_log')
        want = [(name, details[0].SerializeToString(deterministic=True)) if known else ('unknown', name)] + \
            [('unknown', type(d).DESCRIPTOR.full_name) if type(d) is private_type()
             else (type(d).DESCRIPTOR.full_name, d.SerializeToString(deterministic=True)) for d in others]
        out.append({'known': known, 'obs': obs, 'want': want})
    return out


def check_history(ctx, res, cases):
    for case in cases:
        calls = e2e_history(case)
        res.evaluations += 1
        res.count('e2e-hist:%s' % '>'.join(case['steps']))
        res.signatures.add(('e2e-hist', tuple(case['steps']), case.get('sub'), len(case.get('details') or [])))
        res.sample({'op': 'e2e-hist', 'steps': case['steps'], 'calls': [c['obs'] for c in calls]}, limit=2)
        for i, c in enumerate(calls):
            obs, bad = c['obs'], None
            if obs.get('exc') != 'GRPCError':
                bad = ('call %d ended with %s instead of the GRPCError the handler reported' % (
                    i + 1, obs.get('exc') or obs['outcome']), 'no-grpc-error')
            elif obs['status'] != case['st']:
                bad = ('call %d: status changed' % (i + 1), 'status-changed')
            elif obs['message'] != case['msg']:
                bad = ('call %d: message changed' % (i + 1), 'message-changed')
            elif obs['details'] is None or [tuple(x) for x in obs['details']] != c['want']:
                bad = ('call %d: details differ from what the handler reported given the detail types known to the client '
                       'at that time (late type known: %s)' % (i + 1, c['known']), 'details-changed')
            if bad:
                res.oracle_failures.append({'case': case, 'what': bad[0],
                                            'signature': {'op': 'e2e-hist', 'kind': bad[1], 'known': c['known']},
                                            'observed': [x['obs'] for x in calls]})
                break


HIST_STEPS = [['raise', 'register', 'raise'], ['raise', 'raise', 'register', 'send', 'raise'], ['register', 'raise'],
              ['send', 'register', 'send'], ['raise', 'raise']]


def gen_history_case(rng, steps=None):
    return {'op': 'e2e-hist', 'steps': steps or rng.choice(HIST_STEPS), 'st': rng.choice([s.value for s in status_members()
                                                                                         if s.value != 0]),
            'msg': _scalars(gen_msg(rng))[:20], 'text': _scalars(gen_msg(rng))[:8], 'n': rng.choice([0, 1, 2 ** 40]),
            'details': [[rng.choice(DETAIL_KINDS), _scalars(gen_msg(rng))[:6], 1] for _ in range(rng.choice([0, 0, 1, 2]))],
            'exc': rng.choice(EXC_KINDS), 'sub': rng.choice(SUBTYPES), 'cut': rng.choice([None, rng.randint(1, 10 ** 6)])}


def oracle_e2e(case, obs, details):
    """the property statement itself: the client's GRPCError carries the status, message and details the handler reported"""
    st = case['st']
    if st == 0:
        # OK is not an error: the call must simply succeed (see ASSUMPTIONS for message/details sent with OK)
        if obs['outcome'] != 'ok':
            return 'status OK reported but the call ended with %s' % (obs.get('exc') or obs['outcome']), 'ok-status-lost'
        return None
    if obs['outcome'] == 'pending':
        return 'client call never completed', 'hang'
    if obs['outcome'] != 'exc' or obs.get('exc') != 'GRPCError':
        kind = 'oversize-status-lost' if case.get('oversize') else \
            'status-swallowed' if obs['outcome'] == 'ok' else 'no-grpc-error'
        return 'client got %s instead of the GRPCError the handler reported' % (obs.get('exc') or obs['outcome']), kind
    if obs['status'] != st:
        return 'status changed: %r -> %r' % (st, obs['status']), 'status-changed'
    if obs['message'] != case['msg']:
        return 'message changed', 'message-changed'
    if details is None:
        if obs['details'] is not None:
            return 'details appeared from nowhere', 'details-changed'
    else:
        want = [('unknown', type(d).DESCRIPTOR.full_name) if type(d) is private_type()
                else (type(d).DESCRIPTOR.full_name, d.SerializeToString(deterministic=True)) for d in details]
        if obs['details'] is None or [tuple(x) for x in obs['details']] != want:
            return 'details changed', 'details-changed'
    want_tm = [(k, unj(v)) for k, v in case['md']] if case.get('md') and case.get('how', 'raise').startswith('send') else []
    if (obs.get('tm') or []) != want_tm:
        return 'trailing metadata next to the status differs: %r' % (obs['tm'],), 'trailing-metadata'
    return None


def check_e2e(ctx, res, cases):
    lines = []
    obs_all = []
    for case in cases:
        runner = {'e2e-lc': e2e_lifecycle, 'e2e-peer': e2e_peer}.get(case.get('op'), e2e)
        obs, details = runner(case)
        obs_all.append((obs, details))
        enc = [b for k, b in obs['codec_log'] if k == 'encode']
        # the model is asked what the client must see given the bytes the server's codec produced
        lines.append('tr 1 %d %s %s' % (case['st'], w_msg(case['msg']), w_det(enc[0] if enc else None)))
    model = ctx.model(lines) if ctx.model_ok else None
    follow = []
    if model is not None:
        for ln in model:
            hs = parse_model_trailers(ln) or []
            follow.append(' '.join(['st', '1', str(len(hs))] + [w for k, v in hs for w in (w_cps(cpl(k)), w_cps(cpl(v)))]))
        model2 = ctx.model(follow)
    for i, case in enumerate(cases):
        obs, details = obs_all[i]
        res.evaluations += 1
        kinds = tuple(sorted(set(s[0] for s in (case.get('details') or []))))
        res.count('%s:codec-subtype:%s' % (case.get('op', 'e2e'), case.get('sub') or 'proto'))
        dclass = 'details' if case.get('details') else ('nodetails' if case.get('details') is None else 'emptydetails')
        if case.get('op') != 'e2e-peer' and case.get('how', 'raise').startswith('raise'):
            res.count('e2e:handler-raises:%s' % (case.get('exc') or 'plain'))
        if case.get('op') in ('e2e-lc', 'e2e-peer'):
            res.count('%s:%s:%s:%s:%s' % (case['op'], case['card'], 'half-closed' if case['half_closed'] else 'sending',
                                          case['mode'], dclass))
            res.count('%s:surfaced-as:%s' % (case['op'], obs.get('exc') or obs['outcome']))
            res.signatures.add((case['op'], case.get('sub'), case['card'], case['half_closed'], case['mode'], case.get('sleep'),
                                case.get('srv'), case.get('layout'), case.get('term'), kinds))
        else:
            res.count('e2e:%s:%s' % (case.get('how', 'raise'), dclass))
            res.signatures.add(('e2e', case['st'], case.get('how'), case.get('exc'), case.get('sub'), msg_class(case['msg']),
                                kinds))
        res.sample({'op': 'e2e', 'status': case['st'], 'message': case['msg'], 'details': case.get('details'),
                    'client': {k: v for k, v in obs.items() if k not in ('codec_log',)}}, limit=8)
        lifecycle_silent = case.get('op') in ('e2e-lc', 'e2e-peer') and obs.get('exc') != 'GRPCError'
        # (in a life-cycle cell the trailers model can only be compared when the client consulted the trailers at all;
        # whether it does is the business of the call life-cycle (C02/C04) -- the oracle below still judges the cell)
        if model is not None and not case.get('oversize') and not lifecycle_silent:
            res.traces += 1
            m = parse_model_status(model2[i])
            dec = [b for k, b in obs['codec_log'] if k == 'decode']
            if case['st'] == 0:
                impl = ('status', 0, None, None) if obs['outcome'] == 'ok' else ('other', obs['outcome'], obs.get('exc'))
            elif obs.get('exc') == 'GRPCError':
                impl = ('status', obs['status'], obs['message'], dec[0] if dec else None)
            else:
                impl = ('other', obs['outcome'], obs.get('exc'))
            if m != impl:
                res.disagreements.append({'case': case, 'model': m, 'impl': impl})
        bad = oracle_e2e(case, obs, details)
        if bad:
            sig = {'op': case.get('op', 'e2e'), 'kind': bad[1]}
            if sig['op'] != 'e2e':
                sig.update(mode=case['mode'], term=case.get('term') or 'none', arrived=bool(case.get('sleep')))
            res.oracle_failures.append({'case': case, 'what': bad[0], 'signature': sig,
                                        'observed': {k: v for k, v in obs.items() if k != 'codec_log'}})


def msg_class(m):
    if m is None:
        return 'none'
    if not m:
        return 'empty'
    mx = max(m)
    return ('ascii' if mx < 0x80 else 'bmp' if mx < 0x10000 else 'astral') + ('%' if 0x25 in m else '') + \
        ('c' if any(c < 0x20 or c == 0x7f for c in m) else '') + (':%d' % min(len(m), 9))


# ---- direct oracles for the pure functions -----------------------------------------------------------

def wire_ok(e):
    """printable ASCII only; '%' only as %XX with two upper-case hex digits"""
    i = 0
    while i < len(e):
        c = e[i]
        if c == 0x25:
            h = e[i + 1:i + 3]
            if len(h) != 2 or any(chr(x) not in '0123456789ABCDEF' for x in h):
                return False
            i += 3
        else:
            if not 0x20 <= c <= 0x7e:
                return False
            i += 1
    return True


def oracle_enc(m, impl):
    has_sur = any(0xd800 <= c <= 0xdfff for c in m)
    if has_sur:
        return None      # outside the quantifier (the real code raises UnicodeEncodeError)
    if impl[0] != 'ok':
        return 'encode_grpc_message failed on a valid str: %r' % (impl,), 'encode-fails'
    e = impl[1]
    if not wire_ok(e):
        return 'grpc-message on the wire is not printable ASCII with well-formed escapes', 'wire-unsafe'
    back = impl_dec(e)
    if back != ('ok', m):
        return 'decode(encode(m)) != m', 'roundtrip'
    return None


def oracle_dec(v, impl):
    if impl[0] != 'ok':
        return 'decode_grpc_message raised %s' % impl[1], 'decode-raises'
    if any(0xd800 <= c <= 0xdfff for c in impl[1]) and not any(0xd800 <= c <= 0xdfff for c in v):
        return 'decoder produced a surrogate', 'decode-surrogate'
    return None


# ---- the batches ------------------------------------------------------------------------------------

def check_pure(ctx, res, encs, decs, u8ds):
    lines = ['enc ' + w_cps(m) for m in encs] + ['dec ' + w_cps(v) for v in decs] + \
            ['u8d ' + w_hex(b) for b in u8ds] + ['unq ' + w_hex(b) for b in u8ds]
    model = ctx.model(lines) if ctx.model_ok else None
    i = 0
    for m in encs:
        impl = impl_enc(m)
        res.evaluations += 1
        res.count('enc:' + impl[0])
        res.signatures.add(('enc', msg_class(m), impl[0]))
        res.sample({'op': 'encode_grpc_message', 'message': m, 'impl': impl}, limit=4)
        if model is not None:
            res.traces += 1
            w = model[i].split()
            mm = ('ok', r_cps(w[1])) if w[0] == 'ok' else ('err',)
            if mm != impl:
                res.disagreements.append({'case': {'op': 'enc', 's': m}, 'model': mm, 'impl': impl})
        bad = oracle_enc(m, impl)
        if bad:
            res.oracle_failures.append({'case': {'op': 'enc', 's': m}, 'what': bad[0],
                                        'signature': {'op': 'enc', 'kind': bad[1]}, 'observed': impl})
        i += 1
    for v in decs:
        impl = impl_dec(v)
        res.evaluations += 1
        res.count('dec:' + impl[0] + (':replaced' if impl[0] == 'ok' and 0xfffd in impl[1] and 0xfffd not in v else ''))
        res.signatures.add(('dec', tuple(v[:6]), len(v)))
        res.sample({'op': 'decode_grpc_message', 'value': uncpl([c for c in v if not 0xd800 <= c <= 0xdfff]),
                    'impl': impl}, limit=8)
        if model is not None:
            res.traces += 1
            mm = ('ok', r_cps(model[i]))
            if mm != impl:
                res.disagreements.append({'case': {'op': 'dec', 's': v}, 'model': mm, 'impl': impl})
        bad = oracle_dec(v, impl)
        if bad:
            res.oracle_failures.append({'case': {'op': 'dec', 's': v}, 'what': bad[0],
                                        'signature': {'op': 'dec', 'kind': bad[1]}, 'observed': impl})
        i += 1
    for j, b in enumerate(u8ds):
        res.evaluations += 1
        res.count('utf8-decode')
        res.signatures.add(('u8d', bytes(b[:4]), len(b)))
        impl = cpl(bytes(b).decode('utf-8', 'replace'))
        ascii_only = all(x < 0x80 for x in b)
        impl_unq = urllib.parse.unquote_to_bytes(bytes(b).decode('ascii')) if ascii_only else None
        if model is not None:
            res.traces += 1
            if r_cps(model[i + j]) != impl:
                res.disagreements.append({'case': {'op': 'u8d', 'b': bytes(b)}, 'model': model[i + j], 'impl': impl})
            if ascii_only and r_hex(model[i + len(u8ds) + j]) != impl_unq:
                res.disagreements.append({'case': {'op': 'unq', 'b': bytes(b)}, 'model': model[i + len(u8ds) + j],
                                          'impl': impl_unq})


def check_trailers(ctx, res, cases):
    lines = ['tr %d %d %s %s' % (1 if c.get('codec', True) else 0, c['st'], w_msg(c['msg']),
                                 w_det(None if c['det'] is None else unj(c['det']))) for c in cases]
    model = ctx.model(lines) if ctx.model_ok else None
    for i, c in enumerate(cases):
        obs = impl_trailers(c)
        res.evaluations += 1
        res.count('server-trailers:' + c.get('how', 'raise'))
        res.count('server-trailers:codec-subtype:' + (c.get('sub') or 'proto'))
        res.signatures.add(('tr', c['st'], c.get('how'), c.get('exc'), c.get('sub'), msg_class(c['msg']), c['det'] is None,
                            c.get('codec', True)))
        res.sample({'op': 'server trailers', 'case': c, 'wire': obs}, limit=4)
        unary_ok_without_message = c['st'] == 0 and c.get('how', 'raise') != 'send-after-message'
        if model is not None and not unary_ok_without_message:
            res.traces += 1
            m = parse_model_trailers(model[i])
            if m is None:
                # UnicodeEncodeError: the report cannot reach the wire (nothing, or UNKNOWN from __aexit__)
                agree = obs['headers'] in ([], [(K_STATUS, '2'), (K_MESSAGE, 'Internal Server Error')])
            else:
                agree = obs['headers'] == m
            if not agree:
                res.disagreements.append({'case': dict(c, op='tr'), 'model': m, 'impl': obs})
        # oracle: what is on the wire is printable ASCII with well-formed escapes, and it decodes to the message
        has_sur = c['msg'] is not None and any(0xd800 <= x <= 0xdfff for x in c['msg'])
        if not has_sur and not unary_ok_without_message:
            d = dict(obs['headers'])
            bad = None
            if d.get(K_STATUS) != str(c['st']):
                bad = ('grpc-status on the wire is %r, handler reported %d' % (d.get(K_STATUS), c['st']), 'wire-status')
            elif (c['msg'] is None) != (K_MESSAGE not in d):
                bad = ('grpc-message presence differs from the report', 'wire-message-presence')
            elif c['msg'] is not None and not wire_ok(cpl(d[K_MESSAGE])):
                bad = ('grpc-message on the wire is not printable ASCII / well escaped: %r' % d[K_MESSAGE], 'wire-unsafe')
            elif c['msg'] is not None and impl_dec(cpl(d[K_MESSAGE])) != ('ok', c['msg']):
                bad = ('grpc-message on the wire does not decode to the reported message', 'wire-roundtrip')
            elif obs['http_status'] != '200' or not content_type_ok(obs['content_type'], c.get('sub')):
                bad = ('the response carrying the status is labelled :status %r content-type %r; a client with the same '
                       'codec (subtype %r) refuses it and never looks at the status' % (
                           obs['http_status'], obs['content_type'], c.get('sub') or 'proto'), 'wire-content-type')
            elif obs['violations']:
                bad = ('server violated HTTP/2: %r' % obs['violations'], 'h2-violation')
            if bad:
                res.oracle_failures.append({'case': dict(c, op='tr'), 'what': bad[0],
                                            'signature': {'op': 'tr', 'kind': bad[1]}, 'observed': obs})


def check_receive(ctx, res, cases):
    lines = [' '.join(['rcv', '1' if c.get('codec', True) else '0', str(len(c['hs']))] +
                      [w for k, v in c['hs'] for w in (w_hex(unj(k)), w_hex(unj(v)))]) for c in cases]
    model = ctx.model(lines) if ctx.model_ok else None
    for i, c in enumerate(cases):
        impl = impl_receive(c)
        res.evaluations += 1
        res.count(('client-status-processing:' if c.get('from') == 'st' else 'client-receive:') + impl[0])
        res.count('client-receive:codec-subtype:' + (c.get('sub') or 'proto'))
        res.signatures.add(('rcv', c.get('sub'), c.get('layout'), tuple((bytes(unj(k)), bytes(unj(v))[:8]) for k, v in c['hs'])))
        res.sample({'op': 'client receives trailers', 'case': c, 'impl': impl}, limit=6)
        if model is not None:
            res.traces += 1
            m = model_receive_expect(model[i])
            if m == ('ok', b'r') and c.get('layout') == 'only':
                m = ('ok', None)
            if c.get('codec') == 'proto' and m[0] == 'status' and impl[0] == 'status':
                # the protobuf codec is opaque in the model: compare status and message only
                m, impl_cmp = m[:3], impl[:3]
            else:
                impl_cmp = impl
            if m != impl_cmp:
                res.disagreements.append({'case': dict(c, op='rcv'), 'model': m, 'impl': impl})
        # oracle: an ASCII trailers block, however malformed its values, ends the call normally or with a GRPCError
        all_ascii = all(x < 128 for k, v in c['hs'] for x in bytes(unj(k)) + bytes(unj(v)))
        if all_ascii and impl[0] not in ('ok', 'status', 'missing', 'invalid'):
            res.oracle_failures.append({'case': dict(c, op='rcv'), 'signature': {'op': 'rcv', 'kind': 'not-a-grpc-outcome'},
                                        'what': 'an ASCII trailers block made the call end with %r' % (impl,),
                                        'observed': impl})
        # oracle: whatever grpc-message / details bytes arrive, the call ends with the status that was sent
        d = dict((bytes(unj(k)), bytes(unj(v))) for k, v in c['hs'])
        sent = d.get(b'grpc-status', b'')
        if sent.isdigit() and len(sent) < 3 and 0 < int(sent) <= 16:
            non_ascii = any(x > 127 for k, v in c['hs'] for x in bytes(unj(k)) + bytes(unj(v)))
            if impl[0] == 'connerr':
                res.oracle_failures.append({'case': dict(c, op='rcv'), 'signature': {'op': 'rcv', 'kind': 'escapes'},
                                            'what': '%s escaped from data_received while receiving the trailers' % impl[1],
                                            'observed': impl})
            elif impl[0] != 'status' or impl[1] != int(sent):
                kind = 'non-ascii-header-status-lost' if non_ascii and impl == ('exc', 'StreamTerminatedError') \
                    else 'status-lost'
                res.oracle_failures.append({'case': dict(c, op='rcv'), 'signature': {'op': 'rcv', 'kind': kind},
                                            'what': 'trailers carried grpc-status %s but the call ended with %r' % (
                                                sent.decode(), impl), 'observed': impl})


# ---- driver ---------------------------------------------------------------------------------------

def expand(case):
    """corpus / replay cases may abbreviate a long message as msg_repeat = [code point, count]"""
    c = dict(case)
    if 'msg_repeat' in c:
        cp, n = c['msg_repeat']
        c['msg'] = [cp] * n
    if c.get('det') is not None:
        c['det'] = unj(c['det'])
    return c


def one_char_strings(rng, per_class):
    cps = set(range(0, 0x300)) | set(BOUNDARY_CPS) | set(SURROGATES)
    for b in BOUNDARY_CPS:
        cps |= {max(0, b - 1), min(0x10ffff, b + 1)}
    for lo, hi in [(0x80, 0x7ff), (0x800, 0xd7ff), (0xe000, 0xffff), (0x10000, 0x10ffff)]:
        cps |= {rng.randint(lo, hi) for _ in range(per_class)}
    return [[c] for c in sorted(cps)]


RCV_FIXED = [b'', b'%', b'%%', b'%zz', b'%4', b'%C3', b'%C3%A9', b'%c3%a9', b'%C0%AF', b'%E0%80%80', b'%ED%A0%80',
             b'%F4%90%80%80', b'%F0%9F%98', b'%ff', b'%FF%FE', b'a%2', b'%%41', b' x ', b'plain', b'%E2%82%AC 5',
             b'%00', b'%0D%0A', b'100%', b'\xc3\xa9', b'\xff', b'caf\xe9', b'\x80%41']


def gen_receive_case(rng):
    st = rng.choice(status_members()).value
    hs = [(b'grpc-status', str(st).encode())]
    r = rng.random()
    if r < 0.8:
        v = gen_received(rng)
        raw = bytearray()
        for c in v:
            if c < 0x80:
                raw.append(c)
            elif rng.random() < 0.15 and not 0xd800 <= c <= 0xdfff:      # a peer that does not escape
                raw += chr(c).encode('utf-8') if rng.random() < 0.7 else bytes([c & 0xff | 0x80])
        hs.append((b'grpc-message', bytes(raw)))
    if rng.random() < 0.4:
        d = gen_b64ish(rng)
        hs.append((b'grpc-status-details-bin', d.encode('utf-8') if rng.random() < 0.9 else d.encode('latin-1', 'replace')))
    if rng.random() < 0.2:
        hs.append((b'x-user', b'v'))
    if rng.random() < 0.1:
        hs.append((b'grpc-message', rng.choice(RCV_FIXED)))
    layout = 'only' if (rng.random() < 0.4 and st != 0) else 'trailers'
    return {'hs': hs, 'layout': layout, 'codec': rng.random() < 0.85}


def gen_e2e_case(rng, st=None, how=None, exc=None):
    members = [s.value for s in status_members()]
    st = st if st is not None else rng.choice(members)
    hows = ['raise', 'raise', 'send', 'raise-after-message', 'send-after-message', 'raise-stream', 'send-stream']
    how = how or rng.choice(hows)
    if st == 0 and how in ('raise', 'send'):
        how = 'send-after-message'           # a unary OK answer needs its message (ProtocolError otherwise: C03/C06)
    r = rng.random()
    msg = None if r < 0.1 else [] if r < 0.15 else _scalars(gen_msg(rng))
    md = None
    if how.startswith('send') and rng.random() < 0.4:
        md = [['x-k', 'v %41'], ['blob-bin', gen_details_bytes(rng)], ['x-k', 'second']][:rng.randint(1, 3)]
    return {'op': 'e2e', 'st': st, 'msg': msg, 'details': gen_detail_specs(rng), 'how': how, 'md': md,
            'exc': exc or rng.choice(EXC_KINDS),
            'details_as': rng.choice(['list', 'tuple']), 'cut': rng.choice([None, rng.randint(1, 10 ** 6)])}


OVERSIZE = [{'op': 'e2e', 'st': 5, 'msg_repeat': [0x4e2d, 7300], 'details': None, 'how': 'raise', 'oversize': True},
            {'op': 'e2e', 'st': 13, 'msg_repeat': [0x61, 66000], 'details': None, 'how': 'send', 'oversize': True}]


def with_subtypes(rng, cases):
    """every case runs with a message codec of some content subtype on BOTH end points (a scripted peer labels its
    side accordingly); the first cases cycle through all subtypes so that none depends on the PRNG"""
    subs = sorted(set(SUBTYPES))
    for i, c in enumerate(cases):
        if 'sub' not in c:
            c['sub'] = subs[i % len(subs)] if i < 3 * len(subs) else rng.choice(SUBTYPES)


def run(ctx):
    res = Result()
    rng = ctx.rng
    res.rule = ('(a) pure codec: every 1-character string for U+0000..U+02FF, the boundaries 7F/80/7FF/800/D7FF/E000/FFFF/'
                '10000/10FFFF +-1, lone surrogates and a PRNG sample of every UTF-8 length class; PRNG messages weighted '
                "to '%', CR/LF, NUL, DEL, non-BMP, combining marks and text that looks like an escape; received values "
                'built from valid (upper/lower case) and broken escapes, overlong / surrogate / >10FFFF / truncated UTF-8 '
                'and raw non-ASCII characters; all byte strings of length 1..2 over 26 boundary bytes for the UTF-8 decoder; '
                '(b) the client status processing on PRNG trailer blocks (grpc-status spellings, duplicates, malformed base64) sent '
                'by a scripted server to a real Channel; '
                '(c) real server in front of a scripted peer: every Status member x {raise, send, send-after-message} x '
                'message classes; (d) real client behind a scripted server: fixed malformed grpc-message byte strings x 2 '
                'layouts + PRNG; (e) real client <-> real server with re-cut delivery and ProtoStatusDetailsCodec: every '
                'Status member x {raise GRPCError, raise a user-defined subclass one / two levels deep, send_trailing_metadata} and PRNG (message, list of google.rpc details of known / unknown types; the raised class is drawn from the same three); (f) the call '
                'life-cycle matrix: 4 cardinalities x {client half-closed, still sending} x {status consumed by '
                'recv_trailing_metadata, at context exit, by the StreamTerminatedError upgrade in __aexit__ while sending / '
                'receiving} x {ops racing with / after arrival} x details {None, known, unknown}, once with the real server '
                '(error before / after a reply; RST after the trailers when the client has not half-closed) and once with a '
                'scripted server (trailers-only / full response, then nothing / RST_STREAM / GOAWAY / connection loss); '
                'quick = PRNG half of the cells, thorough = all; every case of (c)-(f) runs with a message codec of content '
                'subtype proto / json / x-raw.v1 configured on BOTH end points (scripted peers label their side to match); '
                '(g) histories of 2-4 failed calls in one process between which a fresh detail type becomes known to the '
                'client (file added to the default pool + class registered in the symbol database, as importing a pb2 module '
                'does): each call must carry the detail as Unknown / as the real message according to the time of the call. '
                'distinct = distinct (op, status, how, message class, detail kinds / header shape) signature')
    encs, decs, u8ds, trs, rcvs, e2es, hists = [], [], [], [], [], [], []
    for c in ctx.corpus() + [h for h in getattr(ctx, 'hints', []) if isinstance(h, dict)]:
        c = expand(c)
        op = c.get('op')
        if op == 'enc':
            encs.append(c['s'])
        elif op == 'dec':
            decs.append(c['s'])
        elif op in ('u8d', 'unq'):
            u8ds.append(unj(c['b']))
        elif op == 'st':
            rcvs.append(st_case(c.get('codec', True), [tuple(h) for h in c['hs']]))
        elif op == 'tr':
            trs.append(c)
        elif op == 'rcv':
            rcvs.append(c)
        elif op in ('e2e', 'e2e-lc', 'e2e-peer'):
            e2es.append(c)
        elif op == 'e2e-hist':
            hists.append(c)
    n = ctx.n(10000, 150000)
    # (a)
    encs += one_char_strings(rng, ctx.n(150, 5000))
    encs += [cpl(s) for s in SNIPPETS]
    for _ in range(n):
        encs.append(gen_msg(rng) if rng.random() < 0.92 else gen_msg_with_surrogate(rng))
    decs += [cpl(p) for p in ESC_PIECES] + [cpl(a + b) for a in ESC_PIECES[:12] for b in ESC_PIECES[:12]]
    for _ in range(n):
        decs.append(gen_received(rng))
    u8ds += [bytes(t) for t in [[]] + [[a] for a in range(256)] + [[a, b] for a in LEAD for b in LEAD]]
    u8ds += [bytes([a, b, c]) for a in (0xe0, 0xed, 0xef, 0xf0, 0xf4) for b in LEAD for c in (0x7f, 0x80, 0xbf, 0xc0)]
    for _ in range(n):
        u8ds.append(gen_bytes_utf8ish(rng))
    # (b)
    check_pure(ctx, res, encs, decs, u8ds)
    for s in status_members():
        rcvs.append(st_case(True, [(K_STATUS, str(s.value)), (K_MESSAGE, 'm%25'), (K_DETAILS, 'Cv8')],
                            'trailers' if s.value == 0 else rng.choice(['trailers', 'only'])))
    for _ in range(n // 4):
        rcvs.append(st_case(rng.random() < 0.8, gen_client_headers(rng)))
    # (c)
    fixed_msgs = [None, [], cpl('100% é\r\n'), cpl('\U0001f600 %41 \x00\x7f'), [0xd800]]
    for s in status_members():
        for how in ('raise', 'send', 'send-after-message'):
            for m in fixed_msgs:
                trs.append({'st': s.value, 'msg': m, 'det': rng.choice([None, b'', b'\x0a\xff']), 'how': how,
                            'exc': rng.choice(EXC_KINDS)})
    for _ in range(ctx.n(2000, 30000)):
        r = rng.random()
        trs.append({'st': rng.choice(status_members()).value,
                    'msg': None if r < 0.1 else gen_msg(rng) if r < 0.95 else gen_msg_with_surrogate(rng),
                    'det': None if rng.random() < 0.4 else gen_details_bytes(rng),
                    'how': rng.choice(['raise', 'send', 'send-after-message']), 'codec': rng.random() < 0.85,
                    'exc': rng.choice(EXC_KINDS)})
    with_subtypes(rng, trs)
    check_trailers(ctx, res, trs)
    # (d)
    for v in RCV_FIXED:
        for layout in ('trailers', 'only'):
            rcvs.append({'hs': [(b'grpc-status', b'5'), (b'grpc-message', v)], 'layout': layout})
    rcvs.append({'hs': [(b'grpc-status', b'0'), (b'grpc-message', b'ignored')], 'layout': 'trailers'})
    for _ in range(ctx.n(2000, 30000)):
        rcvs.append(gen_receive_case(rng))
    with_subtypes(rng, rcvs)
    check_receive(ctx, res, rcvs)
    # (e)
    for s in status_members():
        for how, exc in (('raise', 'plain'), ('raise', 'sub1'), ('raise', 'sub2'), ('send', 'plain')):
            e2es.append(gen_e2e_case(rng, s.value, how, exc))
    for _ in range(ctx.n(1500, 20000)):
        e2es.append(gen_e2e_case(rng))
    e2es += gen_lifecycle_cases(rng, ctx.tier == 'thorough' or ctx.search)
    e2es += [expand(c) for c in OVERSIZE]
    # witness of C14_status_roundtrip_all_refuted (OK, 'x', None): the model says the client keeps nothing
    e2es.append({'op': 'e2e', 'st': 0, 'msg': [120], 'details': None, 'how': 'send-after-message'})
    with_subtypes(rng, e2es)
    check_e2e(ctx, res, e2es)
    # (g) histories
    hists += [gen_history_case(rng, s) for s in HIST_STEPS] + [gen_history_case(rng) for _ in range(ctx.n(40, 600))]
    check_history(ctx, res, hists)
    return res


def replay(ctx, case):
    res = Result()
    c = expand(case)
    op = c.get('op')
    if op == 'enc':
        check_pure(ctx, res, [c['s']], [], [])
    elif op == 'dec':
        check_pure(ctx, res, [], [c['s']], [])
    elif op in ('u8d', 'unq'):
        check_pure(ctx, res, [], [], [unj(c['b'])])
    elif op == 'st':
        check_receive(ctx, res, [st_case(c.get('codec', True), [tuple(h) for h in c['hs']])])
    elif op == 'tr':
        check_trailers(ctx, res, [c])
    elif op == 'rcv':
        check_receive(ctx, res, [c])
    elif op in ('e2e', 'e2e-lc', 'e2e-peer'):
        check_e2e(ctx, res, [c])
    elif op == 'e2e-hist':
        check_history(ctx, res, [c])
    return res
