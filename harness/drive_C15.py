"""C15 -- grpc-timeout encoding / decoding / minimum over repeated headers.

Correspondence (bit for bit) of Model/Timeout.v with grpclib.metadata.encode_timeout,
decode_timeout and Deadline.from_headers, and the direct oracle (exact rational arithmetic with
fractions.Fraction, independent of the model and of the `re` module).

Floats travel as the hexadecimal of their 64 IEEE bits (struct.pack('>d')), ints as hexadecimal,
strings as code-point lists; encoded strings are compared exactly, decoded floats by their bits.
"""
import math
import struct
from fractions import Fraction

from harness import vloop
from harness.core import Result
from harness.svc import cps, uncps

PROPERTY = 'C15'
THEOREM_FILES = ['Props/C15.v']
# exactly what Print Assumptions prints under the float theorems (Coq's Reals, used through Flocq)
ALLOWED_AXIOMS = [
    'ClassicalDedekindReals.sig_not_dec',
    'ClassicalDedekindReals.sig_forall_dec',
    'FunctionalExtensionality.functional_extensionality_dep',
    'Classical_Prop.classic',
]
LABEL = ('full on the float model (all binary64 t in [0, 99999999] and all ints; all code-point strings; '
         'all header lists); the literal "never lengthens" is refuted (D14, sub-ulp) and replaced by the '
         'bound excess < 2^-52 * t')
TRUSTED = [
    'CPython float = IEEE 754 binary64 with round-to-nearest-even; float*int converts the int with '
    'PyLong_AsDouble (correctly rounded); int(float) truncates; modelled with Flocq 4.1 Bmult/Bplus/Bdiv/'
    'binary_normalize/Btrunc',
    'C pow(10.0, -k) (Python `10 ** -k`) modelled as the correctly rounded 1/10^k; compared bit for bit '
    'with the running interpreter through the decoder cases 1m/1u/1n on every run',
    're.match for the one pattern ^([0-9]{1,8})([HMSmun])\\Z (source string pinned by theorem '
    'C15_source_facts) modelled as a hand-written recogniser; str(int) and int(str) for ASCII digits',
    'Coq standard-library real-number axioms listed under axioms (Reals via Flocq)',
]
ASSUMPTIONS = [
    'the argument of encode_timeout is a Python float or int (bool, Decimal, Fraction, numpy types are '
    'not modelled)',
    'header names and values reaching Deadline.from_headers are str',
    'time.monotonic() returns a finite float (the virtual clock of harness.vloop in the check)',
]

UNITS = {'H': Fraction(3600), 'M': Fraction(60), 'S': Fraction(1),
         'm': Fraction(1, 10 ** 3), 'u': Fraction(1, 10 ** 6), 'n': Fraction(1, 10 ** 9)}
DIGITS = '0123456789'
TMAX = 99999999
ULP52 = Fraction(1, 2 ** 52)
REL51 = Fraction(1, 2 ** 51)
NS = Fraction(1, 10 ** 9)
HDR = 'grpc-timeout'


def f2bits(x):
    return struct.pack('>d', x).hex()


def bits2f(h):
    return struct.unpack('>d', bytes.fromhex(h))[0]


def nxt(x, k):
    """k ulps above (k > 0) or below (k < 0) x"""
    for _ in range(abs(k)):
        x = math.nextafter(x, math.inf if k > 0 else -math.inf)
    return x


# ---- implementation side --------------------------------------------------------------------------

def impl_enc(t):
    from grpclib.metadata import encode_timeout
    try:
        s = encode_timeout(t)
    except ValueError:
        return ('err', 'value')
    except OverflowError:
        return ('err', 'overflow')
    except Exception as e:
        return ('exc', type(e).__name__)
    if not isinstance(s, str):
        return ('exc', 'not-str:' + type(s).__name__)
    return ('ok', s)


def canon_num(v):
    if isinstance(v, bool) or not isinstance(v, (int, float)):
        return ('exc', 'type:' + type(v).__name__)
    if isinstance(v, int):
        return ('ok', 'i', v)
    return ('ok', 'f', f2bits(v))


def impl_dec(s):
    from grpclib.metadata import decode_timeout
    try:
        v = decode_timeout(s)
    except ValueError:
        return ('err', 'value')
    except OverflowError:
        return ('err', 'overflow')
    except Exception as e:
        return ('exc', type(e).__name__)
    return canon_num(v)


def deadline_timestamp(d):
    """the absolute time a Deadline stands for: found by role (the one numeric instance attribute), whatever the
    private attribute is called"""
    vals = []
    for src in (getattr(d, '__dict__', {}),):
        vals.extend(v for v in src.values() if isinstance(v, (int, float)) and not isinstance(v, bool))
    for n in getattr(type(d), '__slots__', ()) or ():
        v = getattr(d, n, None)
        if isinstance(v, (int, float)) and not isinstance(v, bool):
            vals.append(v)
    if len(vals) == 1:
        return vals[0]
    return getattr(d, '_timestamp')


def impl_hdr(loop, now, hs):
    from grpclib.metadata import Deadline
    loop._vtime = now            # time.monotonic() is the virtual clock: the timestamp is exact
    try:
        d = Deadline.from_headers([(k, v) for k, v in hs])
    except ValueError:
        return ('err', 'value')
    except OverflowError:
        return ('err', 'overflow')
    except Exception as e:
        return ('exc', type(e).__name__)
    if d is None:
        return ('none',)
    ts = deadline_timestamp(d)
    if not isinstance(ts, float):
        return ('exc', 'type:' + type(ts).__name__)
    return ('ok', f2bits(ts))


# ---- model side (line protocol of ocaml/dC15.ml) --------------------------------------------------

def enc_line(case):
    if case['kind'] == 'f':
        return 'enc f ' + case['bits']
    return 'enc i ' + ('%x' % case['int'] if case['int'] >= 0 else '-%x' % -case['int'])


def dec_line(s):
    return 'dec ' + cps(s)


def hdr_line(now_bits, hs):
    return ' '.join(['hdr', now_bits, str(len(hs))] + [w for k, v in hs for w in (cps(k), cps(v))])


def parse_hex(h):
    return -int(h[1:], 16) if h.startswith('-') else int(h, 16)


def parse_model_enc(line):
    w = line.split()
    if w[0] == 'ok':
        return ('ok', uncps(w[1]))
    return ('err', w[1])


def parse_model_dec(line):
    """-> (observation, wire_q or None)"""
    w = line.split()
    if w[0] != 'ok':
        return ('err', w[1]), None
    q = None if w[4] == 'none' else Fraction(parse_hex(w[4]), parse_hex(w[5]))
    if w[1] == 'i':
        return ('ok', 'i', parse_hex(w[2])), q
    return ('ok', 'f', '%016x' % parse_hex(w[2])), q


def parse_model_hdr(line):
    w = line.split()
    if w[0] == 'none':
        return ('none',)
    if w[0] == 'ok':
        return ('ok', '%016x' % parse_hex(w[1]))
    return ('err', w[1])


# ---- direct oracle: the property statement, exact rationals, no model, no `re` ----------------------

def grammar(s):
    """(N, unit) if s is 1-8 ASCII digits followed by one of HMSmun, else None"""
    if not isinstance(s, str) or not (2 <= len(s) <= 9):
        return None
    ds, u = s[:-1], s[-1]
    if u not in UNITS or any(c not in DIGITS for c in ds):
        return None
    n = 0
    for c in ds:
        n = n * 10 + DIGITS.index(c)
    return n, u


def wire_value(s):
    g = grammar(s)
    return None if g is None else g[0] * UNITS[g[1]]


def num_fraction(obs):
    """exact value of a canonical decode observation"""
    if obs[1] == 'i':
        return Fraction(obs[2])
    return Fraction(bits2f(obs[2]))


def in_domain(t):
    if isinstance(t, float) and (t != t or t in (math.inf, -math.inf)):
        return False
    return 0 <= t <= TMAX


def oracle_enc(t, impl):
    """list of (what, signature) for a timeout inside the domain of the property"""
    if not in_domain(t):
        return []
    if impl[0] != 'ok':
        return [('encode_timeout raised %s on %r' % (impl[1], t), {'op': 'encode', 'kind': 'raised'})]
    s = impl[1]
    v = wire_value(s)
    if v is None:
        return [('encoded value %r is not 1-8 digits and a unit' % s, {'op': 'encode', 'kind': 'malformed'})]
    bad = []
    T = Fraction(t)
    if not (v > Fraction(9, 10) * T or T - v < NS):
        bad.append(('%r encodes as %r: shortened by 10%% or more' % (t, s),
                    {'op': 'encode', 'kind': 'shortened'}))
    if v > T:
        cls = 'sub-ulp' if v - T < ULP52 * T else 'large'
        bad.append(('%r encodes as %r, which is %.3g s LONGER than the original' % (t, s, float(v - T)),
                    {'op': 'encode', 'kind': 'lengthened', 'class': cls}))
    back = impl_dec(s)
    if back[0] != 'ok':
        bad.append(('the encoding %r of %r is refused by decode_timeout' % (s, t),
                    {'op': 'encode', 'kind': 'decode-of-encode'}))
    elif abs(num_fraction(back) - v) > v * REL51:
        bad.append(('decode_timeout(%r) is off the wire value' % s,
                    {'op': 'encode', 'kind': 'decode-of-encode-scale'}))
    return bad


def oracle_dec(s, impl):
    g = grammar(s)
    if g is None:
        if impl[0] == 'ok':
            return [('decode_timeout accepts %r, which the gRPC grammar does not allow' % s,
                     {'op': 'decode', 'kind': 'invalid-accepted'})]
        if impl != ('err', 'value'):
            return [('decode_timeout(%r) raised %s instead of ValueError' % (s, impl[1]),
                     {'op': 'decode', 'kind': 'wrong-exception'})]
        return []
    if impl[0] != 'ok':
        return [('decode_timeout refuses the valid value %r' % s, {'op': 'decode', 'kind': 'valid-refused'})]
    v = g[0] * UNITS[g[1]]
    got = num_fraction(impl)
    exact_unit = UNITS[g[1]].denominator == 1
    if (exact_unit and got != v) or abs(got - v) > v * REL51:
        return [('decode_timeout(%r) = %s, expected %s' % (s, float(got), float(v)),
                 {'op': 'decode', 'kind': 'wrong-scale', 'unit': g[1]})]
    return []


def oracle_hdr(now, hs, impl):
    from grpclib.metadata import decode_timeout
    vals = [v for k, v in hs if k == HDR]
    if any(grammar(v) is None for v in vals):
        if impl != ('err', 'value'):
            return [('from_headers with an invalid grpc-timeout gave %r instead of ValueError' % (impl,),
                     {'op': 'headers', 'kind': 'invalid-accepted'})]
        return []
    if not vals:
        if impl != ('none',):
            return [('from_headers without grpc-timeout gave %r' % (impl,), {'op': 'headers', 'kind': 'not-none'})]
        return []
    if impl[0] != 'ok':
        return [('from_headers refused valid grpc-timeout values: %r' % (impl,),
                 {'op': 'headers', 'kind': 'valid-refused'})]
    # the governing header is the one with the smallest exact value
    smallest = min(vals, key=wire_value)
    want = now + decode_timeout(smallest)
    if bits2f(impl[1]) != want:
        return [('deadline %r is not now + the smallest grpc-timeout (%r -> %r)' % (bits2f(impl[1]), smallest, want),
                 {'op': 'headers', 'kind': 'not-min'})]
    return []


# ---- generators -----------------------------------------------------------------------------------

def fcase(x):
    return {'op': 'enc', 'kind': 'f', 'bits': f2bits(float(x)), 'repr': repr(float(x))}


def icase(n):
    return {'op': 'enc', 'kind': 'i', 'int': int(n)}


def boundary_floats(rng, extra):
    """neighbours (0, +-1, +-2 ulp) of every k * 10^-n boundary that can matter: the thresholds 10, 0.01,
    0.00001 of the source, every power of ten from 1e-12 to 1e8, and k * 10^-n for small and random k"""
    xs = set()
    centres = []
    for n in range(-8, 13):
        for k in list(range(1, 21)) + [25, 50, 99, 100, 101, 999, 1000, 1001, 9999, 10000, 10001, 99999]:
            centres.append(Fraction(k, 10 ** n) if n >= 0 else Fraction(k * 10 ** -n))
    for _ in range(extra):
        n = rng.choice([3, 3, 3, 6, 6, 9, 9, 0, 1, 2, 4, 5, 7, 8])
        k = rng.randint(1, rng.choice([20, 1000, 10001, 10001, 100000]))
        centres.append(Fraction(k, 10 ** n))
    for c in centres:
        x = float(c)
        if not (0 <= x <= 2e8):
            continue
        for d in (-2, -1, 0, 1, 2):
            xs.add(nxt(x, d))
    return sorted(xs)


def special_floats():
    tiny = [5e-324, 1e-323, 2.2250738585072014e-308, 2.225073858507201e-308, 1e-300, 1e-20, 1e-13,
            4.9e-10, 9.99e-10, 1e-9, 1.0000000000000001e-9, 1.9999999999999999e-9]
    top = [99999998.99999999, 99999999.0, nxt(99999999.0, -1), 99999999.5 - 0.5, 9999999.999999998]
    outside = [nxt(99999999.0, 1), 1e8, 1e9, 1e15, 1e16, 1e22, 1e300, 1.7976931348623157e308,
               -0.0, -1e-9, -0.5, -5.0, -1e9, math.inf, -math.inf, math.nan]
    return [0.0] + tiny + top + outside


def gen_valid_value(rng):
    nd = rng.choice([1, 1, 2, 3, 4, 5, 6, 7, 8, 8])
    style = rng.random()
    if style < 0.15:
        ds = '0' * rng.randint(0, nd - 1)
        ds += ''.join(rng.choice(DIGITS) for _ in range(nd - len(ds)))
    elif style < 0.3:
        ds = rng.choice(['9' * nd, '1' + '0' * (nd - 1), '0' * nd])
    else:
        ds = ''.join(rng.choice(DIGITS) for _ in range(nd))
    return ds + rng.choice('HMSmun')


MALFORMED = ['5S\n', '5S\r\n', '\n5S', '123456789S', '1234567890n', '000000001S', '٣S', '１S', '५m',
             '', 'S', 'm', '5', '12345678', '+5S', '-5S', '- 5S', '5 S', ' 5S', '5S ', '5\tS', '5s', '5h',
             '5N', '5U', '5µ', '5ms', '5SS', '5.0S', '5,0S', '1e3S', '0x5S', '5_0S', 'S5', '5S5', '٣٣S',
             '5S\x00', '\x005S', '5\nS', '5S\n\n', 'ⅧS', '²S', '5Ｓ', 'ＳＳ', '5Z', '5d', '5D']


def gen_malformed_value(rng):
    r = rng.random()
    if r < 0.5:
        return rng.choice(MALFORMED)
    s = gen_valid_value(rng)
    kind = rng.choice(['insert', 'unit', 'long', 'append', 'prepend', 'drop-unit', 'dup-unit'])
    if kind == 'insert':
        i = rng.randint(0, len(s))
        return s[:i] + rng.choice([' ', '\n', '+', '-', '.', 'x', '٣', '\x00', 'e', '_', '１']) + s[i:]
    if kind == 'unit':
        return s[:-1] + rng.choice('hsMUNdDwWyY µkKgG?*')
    if kind == 'long':
        return ''.join(rng.choice(DIGITS) for _ in range(rng.randint(9, 24))) + s[-1]
    if kind == 'append':
        return s + rng.choice(['\n', ' ', 'S', '0', '\r', '\x0b', '\x0c', '\x1c', '\x85', ' '])
    if kind == 'prepend':
        return rng.choice(['\n', ' ', '+', '-', '﻿', '\t']) + s
    if kind == 'drop-unit':
        return s[:-1]
    return s + s[-1]


OTHER_NAMES = [':path', 'grpc-timeout-x', 'Grpc-Timeout', 'grpc-timeout ', 'grpc_timeout', 'te',
               'content-type', 'x-grpc-timeout', 'grpc-timeou', 'GRPC-TIMEOUT', '']


def gen_headers(rng, malformed=False):
    hs = []
    for _ in range(rng.choice([0, 1, 1, 2, 2, 3, 4, 6])):
        r = rng.random()
        if r < 0.7:
            hs.append((HDR, gen_valid_value(rng) if rng.random() < 0.75 else
                       rng.choice(['1S', '1000m', '1000000u', '60S', '1M', '3600S', '1H', '0n', '0H'])))
        else:
            hs.append((rng.choice(OTHER_NAMES), gen_valid_value(rng) if rng.random() < 0.6 else 'x'))
    if malformed:
        hs.insert(rng.randint(0, len(hs)), (HDR, gen_malformed_value(rng)))
    return hs


NOWS = [0.0, 0.0, 1.0, 2.5, 1e-3, 0.1, 123456.789, 7200.0, 1e9 + 0.25, 2.0 ** 52, 3e15]


# ---- checking one batch ----------------------------------------------------------------------------

def enc_value(case):
    return bits2f(case['bits']) if case['kind'] == 'f' else case['int']


def rounding_class(t, s):
    v = wire_value(s)
    if v is None:
        return 'malformed'
    T = Fraction(t)
    return 'exact' if v == T else ('down' if v < T else 'up')


def check_cases(ctx, res, encs, decs, hdrs):
    lines = [enc_line(c) for c in encs] + [dec_line(s) for s in decs] + \
            [hdr_line(nb, hs) for nb, hs in hdrs]
    model = ctx.model(lines) if (ctx.model_ok and lines) else None
    i = 0
    for c in encs:
        t = enc_value(c)
        impl = impl_enc(t)
        res.evaluations += 1
        dom = in_domain(t)
        if impl[0] == 'ok':
            g = grammar(impl[1])
            res.count('encode:%s:%s:unit=%s:%s' % (c['kind'], 'in-domain' if dom else 'outside',
                                                   impl[1][-1:], rounding_class(t, impl[1]) if dom else '-'))
            if dom and g is not None:
                res.signatures.add(('enc', impl[1]))
        else:
            res.count('encode:%s:%s:%s' % (c['kind'], 'in-domain' if dom else 'outside', ':'.join(impl)))
        res.sample({'op': 'encode_timeout', 'arg': c.get('repr', c.get('int')), 'impl': impl})
        if model is not None:
            res.traces += 1
            m = parse_model_enc(model[i])
            if m != impl:
                res.disagreements.append({'case': c, 'model': m, 'impl': impl})
        for what, sig in oracle_enc(t, impl):
            res.oracle_failures.append({'case': c, 'what': what, 'signature': sig, 'observed': impl})
        i += 1
    for s in decs:
        impl = impl_dec(s)
        res.evaluations += 1
        g = grammar(s)
        res.count('decode:%s:%s' % ('grammar' if g else 'malformed',
                                    ('unit=' + g[1]) if (g and impl[0] == 'ok') else ':'.join(map(str, impl[:2]))))
        res.signatures.add(('dec', s))
        res.sample({'op': 'decode_timeout', 'value': s, 'impl': impl}, limit=12)
        if model is not None:
            res.traces += 1
            m, q = parse_model_dec(model[i])
            if m != impl:
                res.disagreements.append({'case': {'op': 'dec', 's': s}, 'model': m, 'impl': impl})
            elif q != wire_value(s):
                # the exact value used in the theorem statements differs from the grammar's
                res.disagreements.append({'case': {'op': 'dec', 's': s}, 'model': 'wire_q=%s' % q,
                                          'impl': 'grammar value=%s' % wire_value(s)})
        for what, sig in oracle_dec(s, impl):
            res.oracle_failures.append({'case': {'op': 'dec', 's': s}, 'what': what, 'signature': sig,
                                        'observed': impl})
        i += 1
    if hdrs:
        with vloop.session() as loop:
            for nb, hs in hdrs:
                now = bits2f(nb)
                impl = impl_hdr(loop, now, hs)
                res.evaluations += 1
                vals = [v for k, v in hs if k == HDR]
                res.count('headers:n=%d:%s' % (min(len(vals), 4), impl[0] if impl[0] != 'err' else 'err:' + impl[1]))
                res.signatures.add(('hdr', tuple(vals)))
                res.sample({'op': 'Deadline.from_headers', 'now': now, 'headers': hs, 'impl': impl}, limit=16)
                case = {'op': 'hdr', 'now': nb, 'hs': [list(h) for h in hs]}
                if model is not None:
                    res.traces += 1
                    m = parse_model_hdr(model[i])
                    if m != impl:
                        res.disagreements.append({'case': case, 'model': m, 'impl': impl})
                for what, sig in oracle_hdr(now, hs, impl):
                    res.oracle_failures.append({'case': case, 'what': what, 'signature': sig, 'observed': impl})
                i += 1


def split_corpus(corpus):
    encs, decs, hdrs = [], [], []
    for c in corpus:
        if c.get('op') == 'enc':
            encs.append(c)
        elif c.get('op') == 'dec':
            decs.append(c['s'])
        elif c.get('op') == 'hdr':
            hdrs.append((c['now'], [tuple(h) for h in c['hs']]))
    return encs, decs, hdrs


def run(ctx):
    res = Result()
    rng = ctx.rng
    res.rule = ('encode: 0, +-1, +-2 ulp neighbours of k*10^-n (every power of ten 1e-12..1e8, k<=20 and PRNG k '
                'up to 1e5 at n=3,6,9 -- this contains the thresholds 10, 0.01, 0.00001), PRNG log-uniform floats '
                'over [1e-12, 1e8], short decimal literals, denormals/0.0/-0.0/top of range, ints 0..N plus PRNG '
                'ints to 99999999; outside the domain (negative, >99999999, nan, inf): correspondence only. '
                'decode: ~70% grammar strings (all digit counts, leading zeros, every unit), ~30% malformed '
                '(newline, 9+ digits, non-ASCII digits, empty, sign, spaces, wrong unit, ...). headers: PRNG lists '
                'of grpc-timeout and look-alike names at several clock values. distinct = distinct encoded '
                'output / distinct decoder input / distinct tuple of grpc-timeout values')
    encs, decs, hdrs = split_corpus(ctx.corpus())
    # -- encoder inputs
    for x in special_floats():
        encs.append(fcase(x))
    for x in boundary_floats(rng, ctx.n(4000, 30000)):
        encs.append(fcase(x))
    for _ in range(ctx.n(20000, 300000)):
        encs.append(fcase(10.0 ** rng.uniform(-12, 8)))
    for _ in range(ctx.n(8000, 100000)):
        # short decimal literals, the inputs people actually write: 0.013, 2.5, 0.00042 ...
        encs.append(fcase(float('%d.%0*d' % (rng.choice([0, 0, 0, 1, 9, 10, 59]), rng.randint(1, 9),
                                             rng.randint(0, 10 ** rng.randint(1, 6))))))
    for n in range(0, ctx.n(3000, 150000)):
        encs.append(icase(n))
    for n in [9999, 10000, 10001, 99999, 100000, 999999, 1000000, 9999999, 10000000, 99999998, TMAX,
              TMAX + 1, 10 ** 9, 10 ** 20, 10 ** 400, -1, -5, -10 ** 9]:
        encs.append(icase(n))
    for _ in range(ctx.n(2000, 50000)):
        encs.append(icase(int(10 ** rng.uniform(0, 8))))
    # -- decoder inputs
    decs += ['1m', '1u', '1n', '1S', '1M', '1H', '0S', '00000000n', '99999999H', '99999999n', '13m', '007S']
    decs += MALFORMED
    for _ in range(ctx.n(12000, 150000)):
        decs.append(gen_valid_value(rng) if rng.random() < 0.7 else gen_malformed_value(rng))
    # -- header lists
    for _ in range(ctx.n(4000, 40000)):
        hdrs.append((f2bits(rng.choice(NOWS)), gen_headers(rng, malformed=rng.random() < 0.15)))
    check_cases(ctx, res, encs, decs, hdrs)
    return res


def replay(ctx, case):
    res = Result()
    encs, decs, hdrs = split_corpus([case])
    check_cases(ctx, res, encs, decs, hdrs)
    return res
