"""C20 probes: finite tables of what the plugin DOES, obtained by running it (never by reading its source).

One descriptor set with one file per probe path; each file declares a message and a service with the four
(client_streaming, server_streaming) combinations as methods.  It is pushed through the real `main()` and the
generated modules are executed by harness/c20_helper.py; from the observation:

  names   path -> (pb2 module the generated code imports, output file name)
  routes  (package, service, method) -> (route in Base.__mapping__(), route the Stub method opens)
  flags -> Cardinality member found in the mapping        (what `main` looks up for the two flags)
  member -> client class the Stub instantiates            (what `render` chooses)
  client class -> Cardinality the class opens streams with (observed at channel.request())

Used by tools/facts_C20.py (-> coq/Gen/FactsC20.v) and by harness/drive_C20.py (model vs implementation on
the same probes).  Only public behaviour is involved: private names of grpclib/plugin/main.py and of the
client method classes can change freely.
"""
import json
import os
import subprocess
import sys

HERE = os.path.dirname(os.path.abspath(__file__))

# every path yields importable Python (hyphens, directories, dots, both suffixes, doubled and swapped
# suffixes, suffix-like tails, bare names, upper case, empty stems)
PATHS = ['a.proto', 'a.protodevel', 'a', 'a/b-c.proto', 'x-y/z-w.protodevel', '.proto', '.protodevel',
         'a.proto.proto', 'a.protodevel.proto', 'a.proto.protodevel', 'proto', 'a.protox', 'a-b/c-d/e-f',
         'b-', 'a.b/c.d.proto', 'protodevel', 'x.protodevelx', 'A-B.PROTO', 'a/.proto', 'd_1/e-2/f--3.proto',
         'q.prot', 'aproto', 'x/y/z/w-v.protodevel', '-c-.proto', 'a-.protodevel.protodevel', 'devel.proto',
         'n.proto-x', 'dir.proto/f.proto', 'dir-protodevel/g', 'u_v-w.x-y.proto']
PACKAGES = ['', 'p', 'a.b', 'x_1.Y2.z']
FLAGS = [(False, False), (True, False), (False, True), (True, True)]


def meth_name(cs, ss):
    return 'm%d%d' % (cs, ss)


def probe_case():
    files = []
    for i, p in enumerate(PATHS):
        pkg = PACKAGES[i % len(PACKAGES)]
        t = ('.' + pkg if pkg else '') + '.M%d' % i
        files.append({'name': p, 'package': pkg, 'deps': [], 'public': [],
                      'messages': [{'name': 'M%d' % i, 'nested': []}],
                      'services': [{'name': 'S%d' % i, 'methods': [
                          {'name': meth_name(cs, ss), 'cs': cs, 'ss': ss, 'in': t, 'out': t} for cs, ss in FLAGS]}]})
    return {'files': files, 'gen': list(PATHS), 'tag': 'probe'}


class ProbeError(Exception):
    pass


def run_probe(repo, python=sys.executable, timeout=300):
    """observation of probe_case() on the grpclib found in `repo` (a fresh helper process)"""
    env = dict(os.environ)
    env.update({'PYTHONPATH': repo, 'PYTHONHASHSEED': '0', 'PYTHONDONTWRITEBYTECODE': '1'})
    case = probe_case()
    data = (json.dumps({'files': case['files'], 'gen': case['gen']}) + '\n').encode()
    p = subprocess.run([python, os.path.join(HERE, 'c20_helper.py')], input=data, stdout=subprocess.PIPE,
                       stderr=subprocess.PIPE, timeout=timeout, env=env, cwd=os.path.dirname(HERE))
    lines = [ln for ln in p.stdout.decode().split('\n') if ln]
    if p.returncode or len(lines) != 1:
        raise ProbeError('helper rc=%s: %s' % (p.returncode, p.stderr.decode()[-400:]))
    return case, json.loads(lines[0])


def tables(case, obs):
    """the five tables, or ProbeError when the observation does not determine them (fail-closed)"""
    if obs.get('main') != 'ok':
        raise ProbeError('main() raised %s on the probe request' % obs.get('main'))
    if len(obs['files']) != len(case['files']):
        raise ProbeError('%d output files for %d probe files' % (len(obs['files']), len(case['files'])))
    names, routes = [], []
    flags_member, member_cls, cls_member = {}, {}, {}

    def put(d, k, v, what):
        if d.setdefault(k, v) != v:
            raise ProbeError('%s is not a function: %r -> %r and %r' % (what, k, d[k], v))
    for f, o in zip(case['files'], obs['files']):
        if o['exec'] != 'ok':
            raise ProbeError('generated module for %r does not execute: %s' % (f['name'], o['exec']))
        own = [m for m in o['imports'] if m not in ('abc', 'typing') and not m.startswith('grpclib.')]
        if len(own) != 1:
            raise ProbeError('imports of %r: %r' % (f['name'], o['imports']))
        names.append((f['name'], own[0], o['name']))
        s = f['services'][0]
        b, st = o['classes'].get(s['name'] + 'Base'), o['classes'].get(s['name'] + 'Stub')
        if not b or not st or not isinstance(b.get('mapping'), list) or not isinstance(st.get('stub'), list):
            raise ProbeError('classes of %r: %r' % (f['name'], sorted(o['classes'])))
        mp = {r['func']: r for r in b['mapping']}
        sa = {r['attr']: r for r in st['stub']}
        for m in s['methods']:
            if m['name'] not in mp or m['name'] not in sa:
                raise ProbeError('method %s of %r missing' % (m['name'], f['name']))
            r, a = mp[m['name']], sa[m['name']]
            routes.append((f['package'], s['name'], m['name'], r['route'], a['route']))
            put(flags_member, (bool(m['cs']), bool(m['ss'])), r['card'], 'flags -> member')
            put(member_cls, r['card'], a['cls'], 'member -> client class')
            put(cls_member, a['cls'], a['card'], 'client class -> cardinality')
    if sorted(flags_member) != sorted(FLAGS) or '?' in flags_member.values() or '?' in cls_member.values():
        raise ProbeError('cardinality not observed: %r %r' % (flags_member, cls_member))
    return {'names': names, 'routes': routes,
            'flags_member': [(k, flags_member[k]) for k in FLAGS],
            'member_cls': sorted(member_cls.items()), 'cls_member': sorted(cls_member.items())}
