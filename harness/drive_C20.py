"""C20 -- generated stubs and service bases agree with the service definition.

Implementation side: the REAL grpclib.plugin.main.main() run on synthesised CodeGeneratorRequests inside
one helper process (harness/c20_helper.py, fds 0/1 swapped per request), the generated text EXECUTED
against dynamically built `<name>_pb2` modules (fresh protobuf DescriptorPool + message classes), and the
executed module inspected: Base.__abstractmethods__, Impl().__mapping__(), vars(Stub(channel)).
Model side: Model/Plugin.v (extracted): main -> abstract module -> executed view.
Direct oracle: the property statement on the executed module vs the descriptor set, model-independent.
"""
import json
import keyword
import os
import re
import subprocess

from harness import core
from harness.core import Result

PROPERTY = 'C20'
THEOREM_FILES = ['Props/C20.v']
ALLOWED_AXIOMS = []
LABEL = ('partial (the plugin up to an abstract module is modelled and proved about completely; "imports '
         'cleanly" and the text -> module step are Python\'s: they are a trusted transcription in the model and '
         'are exercised by the correspondence runs only)')
TRUSTED = ['tools/facts_C20.py + harness/c20_probe.py (tables OBSERVED by running the plugin on probes: module '
           'names for 30 paths, routes, flags -> Cardinality member -> client class -> cardinality it opens '
           'streams with; fail-closed when the observations do not determine a table)',
           'modelled, not verified: the text templates of render() (tied by executing the generated text), '
           'Python 3.12 import/exec, class-body and dict-literal binding order, private-name mangling, '
           'keyword.kwlist, abc.ABCMeta; google.protobuf descriptor_pb2 / DescriptorPool / message classes '
           '(used to synthesise requests and pb2 modules); protoc\'s python module naming rule '
           '(StripProto, - -> _, / -> ., + _pb2) re-implemented in harness/c20_helper.py']
ASSUMPTIONS = ['descriptor sets are what protoc hands to a plugin: unique file names and fully-qualified '
               'names, every referenced type declared in a file of the request and visible (own file, direct '
               'dependency, or re-exported by `import public`), names are proto identifiers, packages dotted '
               'identifiers, file paths over [A-Za-z0-9_./-]',
               'the pb2 modules are laid out as protoc --python_out lays them out']

HERE = os.path.dirname(os.path.abspath(__file__))
IDENT = re.compile(r'^[A-Za-z_][A-Za-z0-9_]*$')


def cps(s):
    return ','.join(str(ord(c)) for c in s) if s else '-'


def uncps(w):
    return '' if w == '-' else ''.join(chr(int(t)) for t in w.split(','))


# ---- naming rules used by the ORACLE (protoc's rule for python modules; independent of grpclib) ---

def protoc_base(path):
    if path.endswith('.protodevel'):
        path = path[:-len('.protodevel')]
    elif path.endswith('.proto'):
        path = path[:-len('.proto')]
    return path.replace('-', '_').replace('/', '.')


def pb2_mod(path):
    return protoc_base(path) + '_pb2'


def walk_msgs(f):
    def go(parents, ms):
        for m in ms:
            yield parents, m
            yield from go(parents + (m['name'],), m.get('nested', []))
    yield from go((), f.get('messages', []))


def full_name(f, parents, name):
    return '.' + '.'.join(([f['package']] if f.get('package') else []) + list(parents) + [name])


def declared_types(ds):
    """full proto name -> list of (file name, parents+name)"""
    out = {}
    for f in ds['files']:
        for parents, m in walk_msgs(f):
            out.setdefault(full_name(f, parents, m['name']), []).append((f['name'], parents + (m['name'],)))
    return out


def visible_files(ds, f):
    """own file, direct dependencies, and what those re-export by `import public` (transitively)"""
    by = {}
    for g in ds['files']:
        by.setdefault(g['name'], g)
    vis = {f['name']} | set(f.get('deps', []))
    todo = list(f.get('deps', []))
    seen = set()
    while todo:
        n = todo.pop()
        if n in seen or n not in by:
            continue
        seen.add(n)
        g = by[n]
        for i in g.get('public', []):
            if 0 <= i < len(g.get('deps', [])):
                vis.add(g['deps'][i])
                todo.append(g['deps'][i])
    return vis


# ---- generators -----------------------------------------------------------------------------------

DIRS = ['api', 'my-pkg', 'v1', 'grpclib', 'x_y', 'a-b-c', 'proto', 'Acme', 'svc']
BASES = ['svc', 'my-api', 'common-types', 'a.b', 'types', 'x', 'helloworld', 'a-b_c', 'proto', 'protodevel',
         'health', 'M']
SUFFIXES = ['.proto', '.proto', '.proto', '.protodevel', '.protodevel', '', '.proto.proto',
            '.protodevel.proto', '.proto.protodevel']
PKGS = ['', '', '', 'a', 'acme.api.v1', 'x.y', 'grpc.health.v1', 'a.b', 'p']
MSGS = ['Req', 'Rep', 'Id', 'Inner', 'M', 'Outer', 'Item', 'match', 'Type_1', 'Empty']
SVCS = ['Greeter', 'S', 'Api', 'health', 'My_Service', '_Svc', 'T1']
METHS = ['Get', 'List', 'Watch', 'Do', 'unaryUnary', 'stream_it', '_private', 'X1', 'match', 'type', 'self',
         'channel', 'name', 'Check', 'A']
KEYWORDS = ['class', 'import', 'None', 'pass', 'from', 'lambda', 'def', 'async', 'await', 'is', 'True', 'del',
            'global', 'yield', 'with', 'in', 'not', 'return']


def gen_path(rng, used_mods):
    for _ in range(50):
        d = [rng.choice(DIRS) for _ in range(rng.choice([0, 0, 1, 1, 2]))]
        p = '/'.join(d + [rng.choice(BASES)]) + rng.choice(SUFFIXES)
        if pb2_mod(p) not in used_mods:
            used_mods.add(pb2_mod(p))
            return p
    p = 'f%d.proto' % len(used_mods)
    used_mods.add(pb2_mod(p))
    return p


def gen_msgs(rng, depth, used, prefix):
    out = []
    names = rng.sample(MSGS, rng.choice([1, 1, 2, 3]) if depth == 0 else rng.choice([0, 1, 1, 2]))
    for n in names:
        fn = prefix + '.' + n
        if fn in used:
            continue
        used.add(fn)
        nested = gen_msgs(rng, depth + 1, used, fn) if depth < 2 and rng.random() < (0.6 if depth == 0 else 0.45) else []
        out.append({'name': n, 'nested': nested})
    return out


def gen_valid(rng, allow_public=True):
    """a descriptor set protoc could hand to the plugin"""
    nfiles = rng.choice([1, 1, 2, 2, 3, 4])
    used_mods, used_names, files = set(), set(), []
    pkgpool = rng.sample(PKGS, 3)
    for i in range(nfiles):
        pkg = rng.choice(pkgpool)
        f = {'name': gen_path(rng, used_mods), 'package': pkg, 'deps': [], 'public': [], 'messages': [],
             'services': []}
        f['messages'] = gen_msgs(rng, 0, used_names, '.' + pkg if pkg else '')
        if not f['messages'] and i == 0:
            n = 'Solo%d' % i
            used_names.add(('.' + pkg if pkg else '') + '.' + n)
            f['messages'] = [{'name': n, 'nested': []}]
        if files:
            k = rng.choice([0, 1, 1, 2, len(files)])
            f['deps'] = [g['name'] for g in rng.sample(files, min(k, len(files)))]
            f['public'] = [j for j in range(len(f['deps'])) if rng.random() < 0.3]
        files.append(f)
    types = declared_types({'files': files})
    by_file = {}
    for t, locs in types.items():
        for fn, path in locs:
            by_file.setdefault(fn, []).append((t, path))
    for f in files:
        direct = {f['name']} | set(f['deps'])
        vis = visible_files({'files': files}, f)
        cands = []
        for fn in vis:
            for t, path in by_file.get(fn, []):
                origin = ('own' if fn == f['name'] else 'dep' if fn in direct else 'public') + \
                         ('-nested' if len(path) > 1 else '-top')
                cands.append((t, origin))
        cands.sort()
        if not allow_public or rng.random() < 0.93:
            cands2 = [c for c in cands if not c[1].startswith('public')]
            cands = cands2 or cands
        if not cands or all(c[1].startswith('public') for c in cands) and not allow_public:
            continue
        for sname in rng.sample(SVCS, rng.choice([0, 1, 1, 1, 2, 3])):
            fn = ('.' + f['package'] if f['package'] else '') + '.' + sname
            if fn in used_names:
                continue
            used_names.add(fn)
            ms = []
            for mname in rng.sample(METHS, rng.choice([0, 1, 2, 3, 4, 4])):
                (ti, oi), (to, oo) = rng.choice(cands), rng.choice(cands)
                ms.append({'name': mname, 'cs': rng.random() < 0.5, 'ss': rng.random() < 0.5, 'in': ti,
                           'out': to, 'cs_set': rng.random() < 0.5, 'ss_set': rng.random() < 0.5})
            f['services'].append({'name': sname, 'methods': ms})
    names = [f['name'] for f in files]
    r = rng.random()
    if r < 0.5:
        gen = list(names)
    else:
        gen = rng.sample(names, rng.randint(1, len(names)))
    withsvc = [f['name'] for f in files if f['services']]
    if withsvc and not set(gen) & set(withsvc) and rng.random() < 0.8:
        gen.append(rng.choice(withsvc))
    return {'files': files, 'gen': gen, 'tag': 'valid'}


def all_methods(ds, only_generated=True):
    for f in ds['files']:
        if only_generated and f['name'] not in ds['gen']:
            continue
        for s in f['services']:
            for m in s['methods']:
                yield f, s, m


def gen_malformed(rng):
    """one deliberate irregularity on top of a valid set: inputs protoc would reject (the plugin's error
    branches) and inputs that are valid proto but awkward Python"""
    for _ in range(200):
        ds = gen_valid(rng, allow_public=False)
        ms = list(all_methods(ds))
        kind = rng.choice(['undeclared', 'undeclared', 'undeclared-ungenerated', 'kw-method', 'kw-method',
                           'kw-message', 'kw-dir', 'digit-dir', 'private', 'dunder', 'dup-method',
                           'dup-service', 'missing-file', 'dup-type', 'dup-file', 'ns-collision',
                           'public-top', 'empty-names'])
        ds['tag'] = kind
        if kind == 'undeclared' and ms:
            f, s, m = rng.choice(ms)
            m[rng.choice(['in', 'out'])] = rng.choice(['.nope.Missing', '', 'Req', m['in'][1:], m['in'] + '.',
                                                      m['in'] + '.Nope', '.' + m['in']])
            return ds
        if kind == 'undeclared-ungenerated':
            cands = [x for x in all_methods(ds, False) if x[0]['name'] not in ds['gen']]
            if cands:
                f, s, m = rng.choice(cands)
                m['in'] = '.nope.Missing'
                return ds
        if kind == 'kw-method' and ms:
            f, s, m = rng.choice(ms)
            kw = rng.choice(KEYWORDS)
            if kw not in [x['name'] for x in s['methods']]:
                m['name'] = kw
                return ds
        if kind == 'kw-message' and ms:
            f, s, m = rng.choice(ms)
            kw = rng.choice(KEYWORDS)
            g = rng.choice(ds['files'])
            pre = ('.' + g['package'] if g['package'] else '')
            if pre + '.' + kw not in declared_types(ds):
                g['messages'].append({'name': kw, 'nested': []})
                m['in'] = pre + '.' + kw
                if g['name'] != f['name'] and g['name'] not in f['deps']:
                    f['deps'].append(g['name'])
                return ds
        if kind in ('kw-dir', 'digit-dir') and ms:
            f, s, m = rng.choice(ms)
            old = f['name']
            new = (rng.choice(['lambda', 'import', 'class', 'in']) if kind == 'kw-dir'
                   else rng.choice(['2024', '1st', '3rd-party'])) + '/' + old
            if pb2_mod(new) in [pb2_mod(g['name']) for g in ds['files']]:
                continue
            rename_file(ds, old, new)
            return ds
        if kind == 'private' and ms:
            f, s, m = rng.choice(ms)
            n = rng.choice(['__Foo', '__x', '__a_', '___y'])
            if n not in [x['name'] for x in s['methods']]:
                m['name'] = n
                return ds
        if kind == 'dunder' and ms:
            f, s, m = rng.choice(ms)
            n = rng.choice(['__init__', '__mapping__', '__call__', '__', '____', '__x__'])
            if n not in [x['name'] for x in s['methods']]:
                m['name'] = n
                return ds
        if kind == 'dup-method':
            cands = [(f, s) for f in ds['files'] if f['name'] in ds['gen'] for s in f['services']
                     if len(s['methods']) >= 2]
            if cands:
                f, s = rng.choice(cands)
                i, j = rng.sample(range(len(s['methods'])), 2)
                s['methods'][j]['name'] = s['methods'][i]['name']
                if rng.random() < 0.5:
                    s['methods'].append(dict(rng.choice(s['methods'])))
                return ds
        if kind == 'dup-service':
            cands = [f for f in ds['files'] if f['name'] in ds['gen'] and f['services']]
            if cands:
                f = rng.choice(cands)
                s = rng.choice(f['services'])
                t = json.loads(json.dumps(s))
                rng.shuffle(t['methods'])
                t['methods'] = t['methods'][:rng.randint(0, len(t['methods']))]
                f['services'].insert(rng.randint(0, len(f['services'])), t)
                return ds
        if kind == 'missing-file':
            ds['gen'].insert(rng.randint(0, len(ds['gen'])), rng.choice(['missing.proto', '', 'x']))
            return ds
        if kind == 'dup-type' and len(ds['files']) >= 2 and ms:
            f, s, m = rng.choice(ms)
            locs = declared_types(ds).get(m['in'])
            if locs:
                fn, path = locs[0]
                src = next(g for g in ds['files'] if g['name'] == fn)
                others = [g for g in ds['files'] if g['name'] != fn and g['package'] == src['package']]
                if others:
                    g = rng.choice(others)
                    node = None
                    level = g['messages']
                    for part in path:
                        node = next((x for x in level if x['name'] == part), None)
                        if node is None:
                            node = {'name': part, 'nested': []}
                            level.append(node)
                        level = node['nested']
                    return ds
        if kind == 'dup-file' and ms:
            f, s, m = rng.choice(ms)
            g = json.loads(json.dumps(f))
            g['services'] = g['services'][:rng.randint(0, len(g['services']))]
            for sv in g['services']:
                sv['methods'] = sv['methods'][:1]
            g['package'] = rng.choice([f['package'], 'other'])
            ds['files'].insert(rng.choice([0, len(ds['files'])]), g)
            return ds
        if kind == 'ns-collision' and ms:
            f, s, m = rng.choice(ms)
            old = f['name']
            new = s['name'] + rng.choice(['Base', 'Stub']) + '/' + old
            rename_file(ds, old, new)
            return ds
        if kind == 'public-top':
            # type reachable only through `import public`, modules without a common top-level package
            a = {'name': 'zz_c.proto', 'package': 'zc', 'deps': [], 'public': [],
                 'messages': [{'name': 'M', 'nested': [{'name': 'N', 'nested': []}]}], 'services': []}
            b = {'name': rng.choice(['zz_b.proto', 'zdir/b.proto']), 'package': 'zb', 'deps': ['zz_c.proto'],
                 'public': [0], 'messages': [{'name': 'B', 'nested': []}], 'services': []}
            c = {'name': rng.choice(['zz_a.proto', 'zdir/a.proto']), 'package': rng.choice(['', 'za']),
                 'deps': [b['name']], 'public': [], 'messages': [{'name': 'A', 'nested': []}],
                 'services': [{'name': 'S', 'methods': [
                     {'name': 'Foo', 'cs': rng.random() < 0.5, 'ss': rng.random() < 0.5,
                      'in': rng.choice(['.zc.M', '.zc.M.N', '.zb.B']), 'out': rng.choice(['.zc.M', '.zc.M.N'])}]}]}
            ds['files'] += [a, b, c]
            ds['gen'].append(c['name'])
            return ds
        if kind == 'empty-names' and ms:
            f, s, m = rng.choice(ms)
            which = rng.choice(['method', 'service', 'file'])
            if which == 'method':
                m['name'] = ''
            elif which == 'service':
                s['name'] = ''
            else:
                if '' in [g['name'] for g in ds['files']]:
                    continue
                rename_file(ds, f['name'], rng.choice(['.proto', '/x.proto', 'a//b.proto']))
            return ds
    ds['tag'] = 'valid'
    return ds


def rename_file(ds, old, new):
    for g in ds['files']:
        if g['name'] == old:
            g['name'] = new
        g['deps'] = [new if d == old else d for d in g['deps']]
    ds['gen'] = [new if n == old else n for n in ds['gen']]


# ---- implementation side ---------------------------------------------------------------------------

def run_helper(cases, timeout=1500):
    env = dict(os.environ)
    env.update({'PYTHONPATH': core.REPO, 'PYTHONHASHSEED': '0', 'PYTHONDONTWRITEBYTECODE': '1'})
    data = ''.join(json.dumps(strip_case(c)) + '\n' for c in cases).encode()
    p = subprocess.run([core.PY, os.path.join(HERE, 'c20_helper.py')], input=data, stdout=subprocess.PIPE,
                       stderr=subprocess.PIPE, timeout=timeout, env=env, cwd=core.VERIF)
    lines = p.stdout.decode().split('\n')
    if lines and lines[-1] == '':
        lines.pop()
    if p.returncode or len(lines) != len(cases):
        raise RuntimeError('c20_helper rc=%s, %d answers for %d cases: %s' % (
            p.returncode, len(lines), len(cases), p.stderr.decode()[-600:]))
    return [json.loads(ln) for ln in lines]


def run_entry_point(case):
    """the plugin started the way protoc starts it: a fresh process, request on stdin, response on stdout"""
    env = dict(os.environ)
    env.update({'PYTHONPATH': core.REPO + os.pathsep + HERE, 'PYTHONHASHSEED': '0',
                'PYTHONDONTWRITEBYTECODE': '1'})
    code = ('import sys, json, c20_helper\n'
            'ds = json.loads(sys.argv[1])\n'
            'sys.stdout.buffer.write(c20_helper.build_request(ds).SerializeToString())\n')
    req = subprocess.run([core.PY, '-c', code, json.dumps(strip_case(case))], stdout=subprocess.PIPE,
                         stderr=subprocess.PIPE, env=env, timeout=120)
    if req.returncode:
        return ('request-build-failed', '')
    p = subprocess.run([core.PY, '-c', 'from grpclib.plugin.main import main; main()'], input=req.stdout,
                       stdout=subprocess.PIPE, stderr=subprocess.PIPE, env=env, timeout=120)
    import hashlib
    if p.returncode:
        err = p.stderr.decode().strip().split('\n')[-1].split(':')[0].strip()
        return (err or 'rc=%d' % p.returncode, '')
    return ('ok', hashlib.sha1(p.stdout).hexdigest())


def strip_case(c):
    return {'files': c['files'], 'gen': c['gen']}


def canon_impl(obs):
    """canonical observation of the executed modules, in the vocabulary of the model's answer"""
    if obs['main'] != 'ok':
        return ('err', obs['main'])
    files = []
    for f in obs['files']:
        g = {'name': f['name'], 'source': f['header'][1][len('# source: '):] if len(f['header']) > 1 else '?'}
        if f['exec'] == 'SyntaxError':
            g['exec'] = 'syntax'
        elif f['exec'] != 'ok':
            g['exec'] = ('raised', f['exec'])
        else:
            g['imports'] = f['imports']
            g['guarded'] = f['guarded_imports']
            cls = {}
            for name, c in f['classes'].items():
                if c['has_mapping']:
                    if isinstance(c['mapping'], str):
                        mp = 'N' if c['mapping'] == 'raised:NameError' else ('raised', c['mapping'])
                    else:
                        mp = [[r['route'], r['func'], r['card'], r['req']['path'], r['rep']['path']]
                              for r in c['mapping']]
                    cls[name] = ['B', c['abstract_keys'], mp]
                else:
                    if isinstance(c['stub'], str):
                        st = 'N' if c['stub'] == 'raised:NameError' else ('raised', c['stub'])
                    elif c['stub'] is None:
                        st = ('no-init',)
                    else:
                        st = [[r['attr'], r['cls'], r['route'], r['req']['path'], r['rep']['path']]
                              for r in c['stub']]
                    cls[name] = ['S', st]
            g['exec'] = ['ok', cls]
            if f['other_names']:
                g['other_names'] = f['other_names']
        files.append(g)
    return ('ok', files)


# ---- model side -------------------------------------------------------------------------------------

def model_line(ds):
    w = ['req', str(len(ds['files']))]

    def msg(m):
        w.extend([cps(m['name']), str(len(m.get('nested', [])))])
        for n in m.get('nested', []):
            msg(n)
    for f in ds['files']:
        w.extend([cps(f['name']), cps(f.get('package', '')), str(len(f.get('deps', [])))])
        w.extend(cps(d) for d in f.get('deps', []))
        w.append(str(len(f.get('messages', []))))
        for m in f.get('messages', []):
            msg(m)
        w.append(str(len(f.get('services', []))))
        for s in f.get('services', []):
            w.extend([cps(s['name']), str(len(s['methods']))])
            for m in s['methods']:
                w.extend([cps(m['name']), '1' if m['cs'] else '0', '1' if m['ss'] else '0', cps(m['in']),
                          cps(m['out'])])
    w.append(str(len(ds['gen'])))
    w.extend(cps(g) for g in ds['gen'])
    return ' '.join(w)


class Toks:
    def __init__(self, line):
        self.w = line.split()
        self.i = 0

    def next(self):
        self.i += 1
        return self.w[self.i - 1]

    def s(self):
        return uncps(self.next())

    def n(self):
        return int(self.next())


def parse_model(line):
    """-> (canonical observation, abstract services per file, model branch tag per file)"""
    t = Toks(line)
    head = t.next()
    if head == 'err':
        return ('err', t.next()), [], ['err']
    if head != 'ok':
        raise RuntimeError('model answered: ' + line[:200])
    files, abstract, branches = [], [], []
    for _ in range(t.n()):
        assert t.next() == 'F'
        g = {'name': t.s(), 'source': t.s()}
        imports = [t.s() for _ in range(t.n())]
        guarded = [t.s() for _ in range(t.n())]
        svcs = []
        for _ in range(t.n()):
            a = {'name': t.s()}
            a['abstract'] = [t.s() for _ in range(t.n())]
            a['mapping'] = [[t.s() for _ in range(5)] for _ in range(t.n())]
            a['stub'] = [[t.s() for _ in range(5)] for _ in range(t.n())]
            svcs.append(a)
        abstract.append(svcs)
        assert t.next() == 'X'
        ex = t.next()
        if ex in ('syntax', 'unmodelled'):
            g['exec'] = ex
            branches.append(ex)
        else:
            g['imports'], g['guarded'] = imports, guarded
            cls = {}
            tag = 'ok'
            for _ in range(t.n()):
                name = t.s()
                k = t.next()
                if k == 'B':
                    keys = [t.s() for _ in range(t.n())]
                    if t.next() == 'N':
                        mp = 'N'
                        tag = 'ok+NameError'
                    else:
                        mp = [[t.s() for _ in range(5)] for _ in range(t.n())]
                    cls[name] = ['B', keys, mp]
                else:
                    if t.next() == 'N':
                        st = 'N'
                    else:
                        st = [[t.s() for _ in range(5)] for _ in range(t.n())]
                    cls[name] = ['S', st]
            g['exec'] = ['ok', cls]
            branches.append(tag if svcs else 'ok-empty')
        files.append(g)
    if t.i != len(t.w):
        raise RuntimeError('model answer has trailing words')
    return ('ok', files), abstract, branches


def same(model, impl):
    """model vs implementation, file by file; `unmodelled` files are not compared beyond their name"""
    if model[0] != impl[0]:
        return False
    if model[0] == 'err':
        return model[1] == impl[1]
    if len(model[1]) != len(impl[1]):
        return False
    for m, i in zip(model[1], impl[1]):
        if m['name'] != i['name'] or m['source'] != i['source']:
            return False
        if m['exec'] == 'unmodelled':
            continue
        if json.dumps(m, sort_keys=True) != json.dumps(i, sort_keys=True):
            return False
    return True


# ---- direct oracle: the property statement on the executed module ---------------------------------

def domain(ds):
    """None if the descriptor set is one protoc could hand to a plugin, else why not"""
    names = [f['name'] for f in ds['files']]
    if len(set(names)) != len(names):
        return 'duplicate-file-name'
    if len({pb2_mod(n) for n in names}) != len(names):
        return 'module-name-clash'
    if any(not n for n in names):
        return 'empty-file-name'
    if len(set(ds['gen'])) != len(ds['gen']) or not set(ds['gen']) <= set(names):
        return 'file-to-generate-missing'
    full = set()
    types = declared_types(ds)
    for f in ds['files']:
        if f.get('package') and not all(IDENT.match(p) for p in f['package'].split('.')):
            return 'bad-package'
        if any(d not in names for d in f.get('deps', [])):
            return 'missing-dependency'
        for parents, m in walk_msgs(f):
            if not IDENT.match(m['name']):
                return 'bad-identifier'
        for s in f.get('services', []):
            if not IDENT.match(s['name']):
                return 'bad-identifier'
            fn = full_name(f, (), s['name'])
            if fn in full or fn in types:
                return 'duplicate-full-name'
            full.add(fn)
            mn = [m['name'] for m in s['methods']]
            if len(set(mn)) != len(mn):
                return 'duplicate-method-name'
            if not all(IDENT.match(x) for x in mn):
                return 'bad-identifier'
    if any(len(v) > 1 for v in types.values()):
        return 'duplicate-full-name'
    for f in ds['files']:
        vis = visible_files(ds, f)
        for s in f.get('services', []):
            for m in s['methods']:
                for t in (m['in'], m['out']):
                    if t not in types:
                        return 'undeclared-type'
                    if types[t][0][0] not in vis:
                        return 'invisible-type'
    return None


def py_name_ok(n):
    return bool(IDENT.match(n)) and not keyword.iskeyword(n)


def cause_of(ds, f):
    """which awkward-for-Python feature (valid proto!) the generated file's inputs have, if any"""
    types = declared_types(ds)
    mods = [pb2_mod(d) for d in f.get('deps', []) + [f['name']]]
    refs = [t for s in f['services'] for m in s['methods'] for t in (m['in'], m['out'])]
    ref_files = [types[t][0][0] for t in refs if t in types]
    mods_all = mods + [pb2_mod(x) for x in ref_files]
    if not f['services']:
        return 'none'
    if any(not py_name_ok(c) for m in mods_all for c in m.split('.')):
        return 'module-path-not-identifier'
    meths = [m['name'] for s in f['services'] for m in s['methods']]
    if any(keyword.iskeyword(n) for n in meths):
        return 'python-keyword-method'
    if any(keyword.iskeyword(c) for t in refs if t in types for c in types[t][0][1]):
        return 'python-keyword-message'
    if any(n.startswith('__') for n in meths):
        return 'double-underscore-method-name'
    classes = {s['name'] + x for s in f['services'] for x in ('Base', 'Stub')}
    if any(m.split('.')[0] in classes | {'abc', 'typing'} for m in mods_all):
        return 'namespace-collision'
    if any(x != f['name'] and x not in f.get('deps', []) for x in ref_files):
        return 'type-from-transitive-public-import'
    return 'none'


def oracle(ds, obs):
    """list of (what, signature) -- the property statement evaluated on the executed modules"""
    why = domain(ds)
    if why is not None:
        return [], why
    out = []

    def fail(kind, what, cause, **kw):
        sig = {'kind': kind, 'cause': cause}
        sig.update(kw)
        out.append((what, sig))
    if obs['main'] != 'ok':
        fail('plugin-died', 'the plugin raised %s on a valid descriptor set' % obs['main'], 'none',
             exc=obs['main'])
        return out, None
    if obs.get('response_error'):
        fail('plugin-error', 'CodeGeneratorResponse.error set', 'none')
    by = {f['name']: f for f in ds['files']}
    types = declared_types(ds)
    if [f['name'] for f in obs['files']] != [protoc_base(g).replace('.', '/') + '_grpc.py' for g in ds['gen']]:
        fail('output-name', 'output files %r' % [f['name'] for f in obs['files']], 'none')
        return out, None
    for g, o in zip(ds['gen'], obs['files']):
        f = by[g]
        cause = cause_of(ds, f)
        if o['exec'] != 'ok':
            fail('import-fails', 'generated module %s does not import: %s' % (o['name'], o['exec']), cause,
                 exc=o['exec'])
            continue
        if o['other_names']:
            fail('stray-names', 'unexpected module-level names %r' % o['other_names'], cause)
        if not f['services']:
            if o['classes'] or o['imports'] or o['guarded_imports']:
                fail('no-services', 'file without services yields classes %r / imports %r' % (
                    sorted(o['classes']), o['imports']), cause)
            continue
        want = {s['name'] + x for s in f['services'] for x in ('Base', 'Stub')}
        if set(o['classes']) != want:
            fail('classes', 'classes %r, expected %r' % (sorted(o['classes']), sorted(want)), cause)
            continue
        for m in [pb2_mod(d) for d in f.get('deps', []) + [g]]:
            if m not in o['imports']:
                fail('imports', 'pb2 module %s not imported' % m, cause)
        for s in f['services']:
            b, st = o['classes'][s['name'] + 'Base'], o['classes'][s['name'] + 'Stub']
            declared = [m['name'] for m in s['methods']]
            if not b['is_abc'] or not b['has_mapping']:
                fail('base-shape', '%sBase is not an ABC with __mapping__' % s['name'], cause)
                continue
            if b['abstractmethods'] != sorted(declared):
                fail('abstract-methods', 'abstract methods %r, declared RPCs %r' % (
                    b['abstractmethods'], sorted(declared)), cause)
            pre = '/' + (f['package'] + '.' if f.get('package') else '') + s['name'] + '/'
            rows = {}
            for side, got in (('mapping', b['mapping']), ('stub', st['stub'])):
                if isinstance(got, str):
                    fail('call-raises', '%s of %s raises %s' % (
                        'Base().__mapping__()' if side == 'mapping' else 'Stub(channel)', s['name'], got[7:]),
                        cause, exc=got[7:], side=side)
                    continue
                if got is None:
                    fail('stub-shape', '%sStub has no __init__' % s['name'], cause)
                    continue
                key = 'func' if side == 'mapping' else 'attr'
                if sorted(r[key] for r in got) != sorted(declared):
                    fail(side + '-names', '%s names %r, declared RPCs %r' % (
                        side, [r[key] for r in got], declared), cause)
                    continue
                rows[side] = {r[key]: r for r in got}
                for m in s['methods']:
                    r = rows[side][m['name']]
                    if r['route'] != pre + m['name']:
                        fail('route', '%s route %r, expected %r' % (side, r['route'], pre + m['name']), cause,
                             side=side)
                    if r['flags'] != [bool(m['cs']), bool(m['ss'])]:
                        fail('cardinality', '%s %s has cardinality %s, declared (client_streaming=%s, '
                             'server_streaming=%s)' % (side, m['name'], r['card'], m['cs'], m['ss']), cause,
                             side=side)
                    for fld, t in (('req', m['in']), ('rep', m['out'])):
                        if r[fld]['proto'] != t or r[fld]['file'] != types[t][0][0]:
                            fail('type', '%s %s %s type is %s from %s, declared %s' % (
                                side, m['name'], fld, r[fld]['proto'], r[fld]['file'], t), cause, side=side)
                    if side == 'mapping' and not (r['bound'] and r['handler']):
                        fail('handler', 'mapping entry of %s is not Handler(bound method, ...)' % m['name'],
                             cause)
                    if side == 'stub' and not (r['channel'] and r['cls_module'] == 'grpclib.client'):
                        fail('stub-method', 'stub attribute %s is not a grpclib.client method on the channel'
                             % m['name'], cause)
            if len(rows) == 2:
                for n in declared:
                    a, c = rows['mapping'][n], rows['stub'][n]
                    if (a['route'], a['flags'], a['req']['path'], a['rep']['path']) != \
                            (c['route'], c['flags'], c['req']['path'], c['rep']['path']):
                        fail('base-stub-disagree', 'Base and Stub disagree on %s' % n, cause)
    return out, None


# ---- driver -----------------------------------------------------------------------------------------

def shape_signature(ds):
    types = declared_types(ds)
    sig = []
    for f in ds['files']:
        if f['name'] not in ds['gen']:
            continue
        p = f['name']
        pathk = ('dir' if '/' in p else '') + ('hyph' if '-' in p else '') + \
                ('devel' if p.endswith('.protodevel') else 'proto' if p.endswith('.proto') else 'nosuf')
        origins = set()
        for s in f['services']:
            for m in s['methods']:
                for t in (m['in'], m['out']):
                    if t in types:
                        fn, path = types[t][0]
                        origins.add(('own' if fn == f['name'] else 'dep' if fn in f['deps'] else 'far') +
                                    str(min(len(path), 3)))
        cards = sorted({(m['cs'] or (m.get('cs_set') and None), m['ss'] or (m.get('ss_set') and None))
                        for s in f['services'] for m in s['methods']}, key=repr)
        sig.append((pathk, bool(f['package']), '.' in f['package'], tuple(len(s['methods']) for s in f['services']),
                    tuple(cards), tuple(sorted(origins))))
    return (ds.get('tag', ''), tuple(sig))


def check_cases(ctx, res, cases):
    obs = run_helper(cases)
    model = ctx.model([model_line(c) for c in cases]) if ctx.model_ok else None
    for i, (c, o) in enumerate(zip(cases, obs)):
        res.evaluations += 1
        tag = c.get('tag', 'valid')
        case = {'files': c['files'], 'gen': c['gen'], 'tag': tag}
        if o['main'] == 'helper-error':
            res.disagreements.append({'case': case, 'model': None, 'impl': o})
            continue
        impl = canon_impl(o)
        res.count('stream:' + tag)
        res.count('impl:main:' + o['main'])
        if o.get('mode'):
            res.count('pb2-classes:' + o['mode'])
        for f in o['files']:
            res.count('impl:exec:' + f['exec'])
        ngen = [f for f in c['files'] if f['name'] in c['gen']]
        res.count('generated-files-with-services:%d' % sum(1 for f in ngen if f['services']))
        for f in ngen:
            res.count('package:' + ('empty' if not f.get('package') else 'dotted' if '.' in f['package'] else 'single'))
            for s in f['services']:
                res.count('methods-per-service:%d' % len(s['methods']))
                for m in s['methods']:
                    res.count('cardinality:%d%d' % (m['cs'], m['ss']))
                    for k in ('cs', 'ss'):
                        res.count('flag-field:' + ('true' if m[k] else 'explicit-false' if m.get(k + '_set')
                                                   else 'absent'))
        res.signatures.add(shape_signature(c))
        res.sample({'descriptor_set': case, 'observed': impl}, limit=4)
        if model is not None:
            res.traces += 1
            try:
                mobs, _, branches = parse_model(model[i])
            except Exception as e:  # noqa
                res.disagreements.append({'case': case, 'model': 'unparsable: %s %s' % (e, model[i][:200]),
                                          'impl': impl})
                continue
            for b in branches:
                res.count('model:' + b)
            if not same(mobs, impl):
                res.disagreements.append({'case': case, 'model': mobs, 'impl': impl})
        fails, why = oracle(c, o)
        res.count('oracle:' + ('in-domain' if why is None else 'out-of-domain:' + why))
        for what, sig in fails:
            res.oracle_failures.append({'case': case, 'what': what, 'signature': sig, 'observed': impl})


def check_tables(ctx, res):
    """the small finite parts, through the public behaviour only (harness/c20_probe.py): the 4 flag pairs end to
    end (flags -> member in the mapping -> client class of the stub -> cardinality that class opens streams
    with) and the module-name functions on the probe paths, model vs implementation vs protoc's rule"""
    from harness import c20_probe
    case = c20_probe.probe_case()
    obs = run_helper([case])[0]
    try:
        t = c20_probe.tables(case, obs)
    except c20_probe.ProbeError as e:
        # the probes are ordinary valid inputs: let the oracle speak about them, and say the tie is broken
        res.evaluations += 1
        fails, why = oracle(case, obs)
        for what, sig in fails:
            res.oracle_failures.append({'case': case, 'what': what, 'signature': sig, 'observed': canon_impl(obs)})
        res.disagreements.append({'case': {'op': 'probe'}, 'model': 'tables', 'impl': 'not determined: %s' % e})
        return
    paths = [n[0] for n in t['names']]
    lines = ['card %d %d' % (cs, ss) for cs, ss in c20_probe.FLAGS] + ['names ' + cps(p) for p in paths]
    model = ctx.model(lines) if ctx.model_ok else None
    fm, mc, cm = dict(t['flags_member']), dict(t['member_cls']), dict(t['cls_member'])
    import grpclib.const
    k = 0
    for cs, ss in c20_probe.FLAGS:
        res.evaluations += 1
        member = fm[(cs, ss)]
        cls = mc.get(member, '?')
        ccard = cm.get(cls, '?')
        try:
            cflags = grpclib.const.Cardinality[ccard]
            cflags = ['1' if cflags.client_streaming else '0', '1' if cflags.server_streaming else '0']
            mflags = grpclib.const.Cardinality[member]
            mflags = (bool(mflags.client_streaming), bool(mflags.server_streaming))
        except KeyError:
            cflags, mflags = ['?', '?'], None
        impl = [member, cls, ccard] + cflags
        if model is not None:
            res.traces += 1
            got = [uncps(w) if j < 3 and w != '?' else w for j, w in enumerate(model[k].split())]
            if got != impl:
                res.disagreements.append({'case': {'op': 'card', 'cs': cs, 'ss': ss}, 'model': got, 'impl': impl})
        if mflags != (cs, ss) or cflags != ['1' if cs else '0', '1' if ss else '0']:
            res.oracle_failures.append({
                'case': {'op': 'card', 'cs': cs, 'ss': ss},
                'what': 'flags (%s, %s) map to %s / %s opening %s' % (cs, ss, member, cls, ccard),
                'signature': {'kind': 'cardinality-table', 'cause': 'none'}, 'observed': impl})
        k += 1
    for p, pb2, out in t['names']:
        res.evaluations += 1
        impl = [pb2, out]
        if model is not None:
            res.traces += 1
            got = [uncps(w) for w in model[k].split()]
            got = [got[1], got[3]]          # (strip_proto and the grpc module name are not observable)
            if got != impl:
                res.disagreements.append({'case': {'op': 'names', 'path': p}, 'model': got, 'impl': impl})
        want = [pb2_mod(p), protoc_base(p).replace('.', '/') + '_grpc.py']
        if impl != want:
            res.oracle_failures.append({'case': {'op': 'names', 'path': p},
                                        'what': 'module names %r, protoc\'s rule gives %r' % (impl, want),
                                        'signature': {'kind': 'module-name', 'cause': 'none'}, 'observed': impl})
        k += 1
    res.count('tables:cardinality', 4)
    res.count('tables:paths', len(paths))


def run(ctx):
    res = Result()
    rng = ctx.rng
    res.rule = ('PRNG descriptor sets of 1-4 files: packages (empty, single, dotted), paths with 0-2 directories, '
                'hyphens, .proto/.protodevel/no/double suffix, a DAG of dependencies with `import public` edges, '
                'messages top-level and nested up to 3 deep with the same simple names in several packages, 0-3 '
                'services x 0-4 methods x 4 streaming combinations (each flag field absent / explicitly false / true), request/reply types from the own file, a direct '
                'dependency or (7%) a public re-export; a separate stream with one irregularity each: undeclared '
                'types, file_to_generate missing, duplicate method/service/type/file names, Python keywords as '
                'method/message/directory names, digit-leading directories, __private and __dunder__ method '
                'names, directory named like a generated class, empty names; distinct = distinct (stream tag, per '
                'generated file: path shape, package shape, methods per service, cardinality set, type origins)')
    cases = []
    for c in ctx.corpus():
        c = dict(c)
        c.setdefault('tag', 'corpus')
        cases.append(c)
    for c in getattr(ctx, 'hints', None) or []:
        if isinstance(c, dict) and 'files' in c:
            cases.append(c)
    nv, nm = ctx.n(1800, 40000), ctx.n(700, 12000)
    cases += [gen_valid(rng) for _ in range(nv)]
    cases += [gen_malformed(rng) for _ in range(nm)]
    check_tables(ctx, res)
    for k in range(0, len(cases), 2000):
        check_cases(ctx, res, cases[k:k + 2000])
    # the plugin as protoc starts it (fresh process, stdin/stdout): same bytes as inside the helper
    sub = [c for c in cases if c.get('tag') in ('valid', 'corpus')][:ctx.n(4, 25)]
    sub += [c for c in cases if c.get('tag') == 'undeclared'][:ctx.n(1, 5)]
    if sub:
        obs = run_helper(sub)
        for c, o in zip(sub, obs):
            res.evaluations += 1
            res.count('entry-point-process')
            st, sha = run_entry_point(c)
            if st != o['main'] or (st == 'ok' and sha != o.get('resp_sha')):
                res.disagreements.append({'case': {'files': c['files'], 'gen': c['gen'], 'tag': 'entry-point'},
                                          'model': 'helper: %s %s' % (o['main'], o.get('resp_sha')),
                                          'impl': 'process: %s %s' % (st, sha)})
    return res


def replay(ctx, case):
    res = Result()
    if case.get('op') in ('card', 'names', 'probe'):
        check_tables(ctx, res)
    else:
        check_cases(ctx, res, [case])
    return res
