"""C13 -- metadata round-trip / validation: correspondence of Model/Metadata.v + Model/Base64.v with
grpclib.metadata, direct oracle, end-to-end through an in-process client/server pair."""
import asyncio
import base64
import binascii
import string

from harness.core import Result
from harness.svc import RawCodec, Service, cps, uncps, hx, unhx

PROPERTY = 'C13'
THEOREM_FILES = ['Props/C13.v']
ALLOWED_AXIOMS = []
LABEL = 'full (pure functions modelled completely; h2/hpack transport of header strings is exercised end to end only)'
TRUSTED = ['modelled, not verified: base64.b64encode/b64decode and binascii.a2b_base64 (non-strict) '
           'as transcribed from CPython 3.12 Modules/binascii.c; re.fullmatch for the two character '
           'classes; multidict ordering; hpack/h2 carrying header strings unchanged']
ASSUMPTIONS = ['metadata keys are Python str; values are str, bytes or another type (modelled as VOther)',
               'header values reaching decode_metadata are str (h2 header_encoding=ascii)']

KEYCH = string.digits + string.ascii_lowercase + '_.-'
RESERVED = ['te', 'content-type', 'user-agent']


# ---- generators -----------------------------------------------------------------------------------

# valid keys that look like (or share a prefix with) HTTP / reserved names: HTTP stacks like to
# normalise, join or filter exactly these
LOOKALIKE_KEYS = ['cookie', 'set-cookie', 'host', 'accept', 'date', 'authorization', 'connection',
                  'tenant-id', 'test', 'te-x', 'content-type-options', 'content-types', 'user-agent-x',
                  'user-agents', 'grpc', 'grp', 'grpcx', 'x-te', 'x-grpc-y', 'status', 'path', 'method',
                  # text keys that merely resemble the binary suffix '-bin'
                  'x_bin', 'trace_bin', '_bin', 'bin', 'xbin', 'cabin', 'x.bin', 'x-bi', 'x-binx', 'x-bin-', 'x-bin.',
                  'x-bin_', 'x--bin-x', 'x-bin1', 'bin-x']


def gen_key(rng, bin_=None):
    if bin_ is not True and rng.random() < 0.12:
        k = rng.choice(LOOKALIKE_KEYS)
        if bin_ is None and rng.random() < 0.2:
            k += '-bin'
        if k.startswith('grpc-') or k in RESERVED:      # e.g. 'grpc' + '-bin' would be reserved
            k = 'x' + k
        return k
    n = rng.choice([1, 1, 2, 3, 5, 8, 13])
    k = ''.join(rng.choice(KEYCH) for _ in range(n))
    if bin_ is None:
        bin_ = rng.random() < 0.4
    if bin_:
        k = (k if rng.random() < 0.9 else '') + '-bin'
    elif k.endswith('-bin') or k in RESERVED or k.startswith('grpc-'):
        k = 'x' + k + 'x'
    return k


def gen_text(rng):
    n = rng.choice([1, 1, 2, 3, 7, 20, 60])
    return ''.join(chr(rng.randint(0x20, 0x7e)) for _ in range(n))


def gen_bytes(rng):
    n = rng.choice([0, 1, 2, 3, 4, 5, 6, 7, 31, 32, 33, 100])
    if rng.random() < 0.2:
        return bytes(rng.choice([0, 0xff, 0x3e << 2, 0xfb, 0xfc, 0x3f]) for _ in range(n))
    return bytes(rng.randint(0, 255) for _ in range(n))


def gen_valid_md(rng):
    n = rng.choice([0, 1, 1, 2, 3, 5, 8])
    keys = [gen_key(rng) for _ in range(max(1, n))]
    md = []
    for _ in range(n):
        k = rng.choice(keys) if rng.random() < 0.5 else gen_key(rng)
        md.append((k, gen_bytes(rng) if k.endswith('-bin') else gen_text(rng)))
    return md


BAD_KEYS = ['', 'Upper', 'a b', ' a', 'a\n', 'a\x00', 'k\x7f', 'café', 'kK', ':path',
            ':status', 'grpc-timeout', 'grpc-', 'grpc-status', 'te', 'content-type', 'user-agent',
            'a~b', 'a/b', 'a,b', 'a=b', '١', 'GRPC-x', 'Te', 'a\tb']


def gen_malformed_md(rng):
    md = gen_valid_md(rng)
    pos = rng.randint(0, len(md))
    kind = rng.choice(['key', 'key', 'value', 'type', 'type', 'binstr', 'strbytes', 'emptyval'])
    if kind == 'key':
        k = rng.choice(BAD_KEYS)
        if rng.random() < 0.3:
            k = k + '-bin'
        item = (k, gen_bytes(rng) if k.endswith('-bin') else gen_text(rng))
    elif kind == 'value':
        bad = rng.choice(['\n', '\x00', '\x7f', 'é', '\x1f', ' ', 'a\nb', '\r', '\x80'])
        t = gen_text(rng)
        i = rng.randint(0, len(t))
        item = (gen_key(rng, False), t[:i] + bad + t[i:])
    elif kind == 'type':
        item = (gen_key(rng), rng.choice([1, None, 1.5, ('a',), True]))
    elif kind == 'binstr':
        item = (gen_key(rng, True), gen_text(rng))
    elif kind == 'strbytes':
        item = (gen_key(rng, False), gen_bytes(rng))
    else:
        item = (gen_key(rng, False), '')
    md.insert(pos, item)
    return md


PROTO_HEADERS = [(':status', '200'), (':method', 'POST'), (':path', '/a/b'), (':scheme', 'http'),
                 (':authority', 'x'), ('te', 'trailers'), ('content-type', 'application/grpc'),
                 ('user-agent', 'ua'), ('grpc-timeout', '1S'), ('grpc-status', '0'),
                 ('grpc-message', 'm'), ('grpc-status-details-bin', 'AAAA'), ('grpc-encoding', 'x'),
                 ('grpc-foo-bin', '!!!')]


def gen_headers(rng):
    """what a peer may send: protocol headers + user headers with any base64 spelling"""
    hs = []
    for _ in range(rng.choice([0, 1, 2, 3, 5])):
        r = rng.random()
        if r < 0.3:
            hs.append(rng.choice(PROTO_HEADERS))
        elif r < 0.7:
            b = gen_bytes(rng)
            enc = base64.b64encode(b).decode()
            sp = rng.random()
            if sp < 0.4:
                enc = enc.rstrip('=')
            elif sp < 0.5:
                enc = enc.rstrip('=') + '=' * rng.randint(0, 4)
            elif sp < 0.6 and enc:
                i = rng.randint(0, len(enc))
                enc = enc[:i] + rng.choice([' ', '\n', '-', '_', '=', '==', 'é', '.', 'A', '%']) + enc[i:]
            elif sp < 0.65 and enc:
                enc = enc[:rng.randint(0, len(enc))]
            hs.append((gen_key(rng, True), enc))
        else:
            hs.append((gen_key(rng, False), gen_text(rng) if rng.random() < 0.9 else 'café \x00'))
    return hs


# ---- implementation side --------------------------------------------------------------------------

def impl_encode(md):
    from grpclib.metadata import encode_metadata
    try:
        hs = encode_metadata(list(md))
    except ValueError:
        return ('err', 'value')
    except TypeError:
        return ('err', 'type')
    except Exception as e:  # anything else escapes the documented behaviour
        return ('exc', type(e).__name__)
    return ('ok', [(k, v) for k, v in hs])


def impl_decode(hs):
    from grpclib.metadata import decode_metadata
    try:
        md = decode_metadata(list(hs))
    except UnicodeEncodeError:
        return ('err', 'unicode')
    except binascii.Error:
        return ('err', 'binascii')
    except Exception as e:
        return ('exc', type(e).__name__)
    return ('ok', list(md.items()))


# ---- model side (line protocol of ocaml/dC13.ml) --------------------------------------------------

def val_word(v):
    if isinstance(v, str):
        return 's:' + (cps(v) if v else '')
    if isinstance(v, bytes):
        return 'b:' + (v.hex() if v else '')
    return 'o'


def enc_line(md):
    return ' '.join(['enc', str(len(md))] + [w for k, v in md for w in (cps(k), val_word(v))])


def dec_line(hs):
    return ' '.join(['dec', str(len(hs))] + [w for k, v in hs for w in (cps(k), cps(v))])


def parse_model_enc(line):
    w = line.split()
    if w[0] == 'err':
        return ('err', w[1])
    n = int(w[1])
    return ('ok', [(uncps(w[2 + 2 * i]), uncps(w[3 + 2 * i])) for i in range(n)])


def parse_model_dec(line):
    w = line.split()
    if w[0] == 'err':
        return ('err', w[1])
    n = int(w[1])
    out = []
    for i in range(n):
        k, v = uncps(w[2 + 2 * i]), w[3 + 2 * i]
        out.append((k, uncps(v[2:] or '-') if v.startswith('s:') else unhx(v[2:] or '-')))
    return ('ok', out)


# ---- direct oracle: the property statement on the implementation alone ---------------------------

def py_valid_item(k, v):
    if not k or any(c not in KEYCH for c in k):
        return False
    if k in RESERVED or k.startswith('grpc-') or k.startswith(':'):
        return False
    if k.endswith('-bin'):
        return isinstance(v, bytes)
    return isinstance(v, str) and len(v) > 0 and all(0x20 <= ord(c) <= 0x7e for c in v)


B64 = set(string.ascii_letters + string.digits + '+/')


def oracle_encode(md, enc):
    valid = all(py_valid_item(k, v) for k, v in md)
    if valid:
        if enc[0] != 'ok':
            return 'valid metadata refused: %r' % (enc,), 'valid-refused'
        for (k, v), (hk, hv) in zip(md, enc[1]):
            if hk != k:
                return 'key changed', 'key-changed'
            if k.endswith('-bin'):
                if not set(hv) <= B64:
                    return 'non-base64 character on the wire', 'wire-unsafe'
            elif hv != v:
                return 'text value changed', 'value-changed'
        back = impl_decode(enc[1])
        if back != ('ok', list(md)):
            return 'round trip differs: %r' % (back,), 'roundtrip'
        if [type(v) for _, v in back[1]] != [type(v) for _, v in md]:
            return 'value type changed', 'type-changed'
        # also behind protocol headers
        back2 = impl_decode(PROTO_HEADERS[:7] + enc[1])
        if back2 != ('ok', list(md)):
            return 'round trip behind protocol headers differs', 'roundtrip-proto'
    else:
        if enc[0] == 'ok':
            return 'invalid metadata accepted: %r' % (enc[1],), 'invalid-accepted'
        if enc[0] == 'exc':
            return 'invalid metadata raised %s instead of ValueError/TypeError' % enc[1], 'wrong-exception'
    return None


def oracle_decode(hs, dec):
    if dec[0] == 'ok':
        for k, v in dec[1]:
            if k.startswith(':') or k.startswith('grpc-') or k in RESERVED:
                return 'protocol header %r visible in metadata' % k, 'proto-visible'
            if k.endswith('-bin') and not isinstance(v, bytes):
                return '-bin value not bytes', 'bin-not-bytes'
        # every well-formed base64 spelling decodes to the same bytes
        kept = [(k, v) for k, v in hs if not (k.startswith(':') or k.startswith('grpc-') or k in RESERVED)]
        if [k for k, _ in kept] != [k for k, _ in dec[1]]:
            return 'keys/multiplicity/order changed', 'order'
    elif dec[0] == 'exc':
        return 'decode_metadata raised %s' % dec[1], 'decode-exception'
    return None


# ---- end to end -----------------------------------------------------------------------------------

async def e2e_case(md, shape='normal'):
    """request metadata -> handler sees it -> echoes it back.  shapes: 'normal' (initial metadata,
    message, trailing metadata), 'trailers-only-error' (non-OK trailers-only response carrying the
    metadata), 'trailers-only-ok' (streaming reply without messages: OK trailers-only)"""
    from grpclib.testing import ChannelFor
    from grpclib.client import UnaryUnaryMethod, UnaryStreamMethod
    from grpclib.const import Status
    from grpclib.exceptions import GRPCError
    seen = {}

    async def handler(stream):
        await stream.recv_message()
        seen['req'] = list(stream.metadata.items())
        if shape == 'normal':
            await stream.send_initial_metadata(metadata=list(stream.metadata.items()))
            await stream.send_message(b'ok')
            await stream.send_trailing_metadata(metadata=list(stream.metadata.items()))
        elif shape == 'trailers-only-error':
            await stream.send_trailing_metadata(status=Status.NOT_FOUND,
                                                metadata=list(stream.metadata.items()))
        elif shape == 'late-error':
            await stream.send_initial_metadata(metadata=list(stream.metadata.items()))
            await stream.send_message(b'ok')
            await stream.send_trailing_metadata(status=Status.NOT_FOUND,
                                                metadata=list(stream.metadata.items()))
        else:
            await stream.send_trailing_metadata(metadata=list(stream.metadata.items()))

    card = 'US' if shape == 'trailers-only-ok' else 'UU'
    svc = Service('v.S', {'M': (handler, card)})
    async with ChannelFor([svc], codec=RawCodec()) as ch:
        cls = UnaryStreamMethod if card == 'US' else UnaryUnaryMethod
        m = cls(ch, '/v.S/M', bytes, bytes)
        async with m.open(metadata=md) as stream:
            await stream.send_message(b'x', end=True)
            try:
                if shape in ('normal', 'late-error'):
                    await stream.recv_message()
                    await stream.recv_trailing_metadata()
                else:
                    await stream.recv_initial_metadata()
            except GRPCError as e:
                if shape not in ('trailers-only-error', 'late-error') or e.status is not Status.NOT_FOUND:
                    raise
            im = list(stream.initial_metadata.items())
            tm = list(stream.trailing_metadata.items()) if stream.trailing_metadata is not None else None
    return seen.get('req'), (im if shape in ('normal', 'late-error') else md), tm


async def e2e_sequence(mds):
    """Several calls in a row on ONE channel (and one on a second channel at the end), with listeners on both
    ends that add an entry to the event's metadata IN PLACE (the documented way to edit it): every call must
    arrive with exactly its own metadata plus that call's own listener entries -- nothing carried over from an
    earlier call, whatever mixture of None / empty / non-empty metadata the calls pass."""
    from grpclib.testing import ChannelFor
    from grpclib.client import UnaryUnaryMethod
    from grpclib.events import listen, SendRequest, SendInitialMetadata, SendTrailingMetadata
    seen = []
    n = {'req': 0, 'im': 0, 'tm': 0}

    async def handler(stream):
        await stream.recv_message()
        seen.append(list(stream.metadata.items()))
        await stream.send_message(b'ok')

    async def on_req(ev):
        n['req'] += 1
        ev.metadata.add('x-l-req', 'c%d' % n['req'])

    async def on_im(ev):
        n['im'] += 1
        ev.metadata.add('x-l-im', 'c%d' % n['im'])

    async def on_tm(ev):
        n['tm'] += 1
        ev.metadata.add('x-l-tm', 'c%d' % n['tm'])

    svc = Service('v.S', {'M': (handler, 'UU')})
    got = []
    async with ChannelFor([svc], codec=RawCodec()) as ch, ChannelFor([svc], codec=RawCodec()) as ch2:
        for c in (ch, ch2):
            listen(c, SendRequest, on_req)
        srv = None
        try:
            import gc
            from grpclib.server import Server
            srv = [o for o in gc.get_objects() if isinstance(o, Server)]
        except Exception:
            srv = []
        for sv in srv:
            try:
                listen(sv, SendInitialMetadata, on_im)
                listen(sv, SendTrailingMetadata, on_tm)
            except Exception:
                pass
        for i, md in enumerate(list(mds) + [None]):
            c = ch2 if i == len(mds) else ch
            m = UnaryUnaryMethod(c, '/v.S/M', bytes, bytes)
            kw = {} if md is None else {'metadata': md}
            async with m.open(**kw) as stream:
                await stream.send_message(b'x', end=True)
                await stream.recv_message()
                await stream.recv_trailing_metadata()
                got.append((list(stream.initial_metadata.items()), list(stream.trailing_metadata.items())))
    return seen, got, bool(srv)


def check_sequence(mds, out):
    """None when every call saw exactly its own metadata (plus its own listener entries), else a description"""
    seen, got, srv_listeners = out
    for i, md in enumerate(list(mds) + [None]):
        want = list(md or []) + [('x-l-req', 'c%d' % (i + 1))]
        if i >= len(seen) or seen[i] != want:
            return 'call %d arrived with %r, expected %r' % (i + 1, seen[i] if i < len(seen) else None, want)
        if srv_listeners:
            im, tm = got[i]
            if im != [('x-l-im', 'c%d' % (i + 1))] or tm != [('x-l-tm', 'c%d' % (i + 1))]:
                return 'reply %d carried initial %r / trailing %r' % (i + 1, im, tm)
    return None


def run_e2e(cases, fn=None):
    loop = asyncio.new_event_loop()
    asyncio.set_event_loop(loop)
    out = []
    try:
        for md, shape in cases:
            try:
                if fn is not None:
                    out.append(loop.run_until_complete(asyncio.wait_for(fn(md), 20)))
                    continue
                out.append(loop.run_until_complete(asyncio.wait_for(e2e_case(md, shape), 20)))
            except Exception as e:
                out.append(('exc', type(e).__name__, str(e)[:100]))
    finally:
        loop.run_until_complete(loop.shutdown_asyncgens())
        loop.close()
        asyncio.set_event_loop(None)
    return out


# ---- driver ---------------------------------------------------------------------------------------

def check_cases(ctx, res, encs, decs, bins):
    lines = [enc_line(md) for md in encs] + [dec_line(hs) for hs in decs] + \
            ['encbin ' + hx(b) for b in bins] + ['b64 ' + hx(b) for b in bins]
    model = ctx.model(lines) if ctx.model_ok else None
    i = 0
    for md in encs:
        impl = impl_encode(md)
        res.evaluations += 1
        valid = all(py_valid_item(k, v) for k, v in md)
        res.count('encode:' + ('valid' if valid else 'invalid') + ':' + impl[0] +
                  (':' + impl[1] if impl[0] != 'ok' else ''))
        res.signatures.add(('enc', tuple((k, type(v).__name__, len(v) % 3 if isinstance(v, (bytes, str)) else -1)
                                          for k, v in md))[:2] + (valid,))
        res.sample({'op': 'encode_metadata', 'md': [(k, v) for k, v in md], 'impl': impl})
        if model is not None:
            res.traces += 1
            m = parse_model_enc(model[i])
            if m != impl:
                res.disagreements.append({'case': {'op': 'enc', 'md': md}, 'model': m, 'impl': impl})
        bad = oracle_encode(md, impl)
        if bad:
            res.oracle_failures.append({'case': {'op': 'enc', 'md': md}, 'what': bad[0],
                                        'signature': {'op': 'encode', 'kind': bad[1]}, 'observed': impl})
        i += 1
    for hs in decs:
        impl = impl_decode(hs)
        res.evaluations += 1
        res.count('decode:' + impl[0] + (':' + impl[1] if impl[0] != 'ok' else ''))
        res.signatures.add(('dec', tuple((k, len(v) % 4) for k, v in hs)))
        res.sample({'op': 'decode_metadata', 'headers': hs, 'impl': impl}, limit=10)
        if model is not None:
            res.traces += 1
            m = parse_model_dec(model[i])
            if m != impl:
                res.disagreements.append({'case': {'op': 'dec', 'hs': hs}, 'model': m, 'impl': impl})
        bad = oracle_decode(hs, impl)
        if bad:
            res.oracle_failures.append({'case': {'op': 'dec', 'hs': hs}, 'what': bad[0],
                                        'signature': {'op': 'decode', 'kind': bad[1]}, 'observed': impl})
        i += 1
    from grpclib.metadata import encode_bin_value, decode_bin_value
    for j, b in enumerate(bins):
        res.evaluations += 1
        e = encode_bin_value(b)
        res.count('bin:len%%3=%d' % (len(b) % 3))
        res.signatures.add(('bin', len(b)))
        if model is not None:
            res.traces += 1
            if unhx(model[i + j]) != e:
                res.disagreements.append({'case': {'op': 'encbin', 'b': b}, 'model': model[i + j], 'impl': e})
            if unhx(model[i + len(bins) + j]) != base64.b64encode(b):
                res.disagreements.append({'case': {'op': 'b64', 'b': b}, 'model': model[i + len(bins) + j],
                                          'impl': base64.b64encode(b)})
        try:
            ok = decode_bin_value(e) == b and decode_bin_value(base64.b64encode(b)) == b and b'=' not in e
        except Exception:
            ok = False
        if not ok:
            res.oracle_failures.append({'case': {'op': 'bin', 'b': b}, 'what': 'base64 round trip of bytes fails',
                                        'signature': {'op': 'bin', 'kind': 'roundtrip', 'len3': len(b) % 3}})


def run(ctx):
    res = Result()
    rng = ctx.rng
    res.rule = ('PRNG multi-dicts: ~60% valid (keys over [0-9a-z_.-], -bin suffix, repeated keys, bytes of '
                'every length mod 3), ~40% with one malformed item (bad key / reserved / control or '
                'non-ASCII value / wrong type / empty); PRNG received header lists with protocol headers and '
                'padded, unpadded, over-padded, truncated and polluted base64; all byte strings of length 0..2 '
                'over a byte sample and PRNG longer ones; distinct = distinct (keys, types, lengths mod 3) shape')
    corpus = ctx.corpus()
    encs = [[(k, (bytes.fromhex(v['hex']) if isinstance(v, dict) else v)) for k, v in c['md']]
            for c in corpus if c.get('op') == 'enc']
    decs = [[tuple(h) for h in c['hs']] for c in corpus if c.get('op') == 'dec']
    n = ctx.n(1200, 40000)
    for _ in range(n):
        encs.append(gen_valid_md(rng) if rng.random() < 0.6 else gen_malformed_md(rng))
    for _ in range(n // 2):
        decs.append(gen_headers(rng))
    bins = [bytes(t) for t in ([[]] + [[a] for a in range(256)] +
                               [[a, b] for a in (0, 1, 63, 64, 127, 128, 251, 255) for b in (0, 3, 15, 16, 252, 255)])]
    bins += [gen_bytes(rng) for _ in range(n // 4)]
    check_cases(ctx, res, encs, decs, bins)
    if ctx.tier == 'thorough' and ctx.model_ok:
        # cross-check the EXTRACTED model against evaluation inside Coq on a subsample
        from harness import core
        sub = bins[:120] + bins[-80:]
        lit = '[' + '; '.join('[' + '; '.join(str(x) for x in b) + ']' for b in sub) + ']'
        incoq = core.coq_eval('From GV Require Import Lib.Str Model.Base64.',
                              'map encode_bin_value %s' % lit)
        extracted = [list(unhx(x)) for x in ctx.model(['encbin ' + hx(b) for b in sub])]
        res.extra['extraction_crosscheck'] = {'cases': len(sub), 'mismatches': 0}
        for b, a1, a2 in zip(sub, incoq, extracted):
            if list(a1) != a2:
                res.extra['extraction_crosscheck']['mismatches'] += 1
                res.disagreements.append({'case': {'op': 'encbin', 'b': b}, 'model': a2,
                                          'impl': 'in-Coq vm_compute says %r' % (a1,)})
    # end to end: valid metadata through a real client/server pair, in three response layouts
    shapes = ['normal', 'trailers-only-error', 'trailers-only-ok', 'late-error']
    cases = [(gen_valid_md(rng), shapes[i % 4]) for i in range(ctx.n(120, 2000))]
    # every look-alike key repeated and followed by another key, through every response layout in turn
    for i, k in enumerate(LOOKALIKE_KEYS):
        cases.append(([(k, 'a=1'), ('m', 'x'), (k, 'b=2'), ('zz', 't')], shapes[(i + ctx.seed) % 4]))
        # text values that happen to be (or not to be) valid base64 must arrive as the same text
        cases.append(([(k, 'YWJj'), (k, 'hello world!'), (k, 'abcd')], shapes[(i + 1 + ctx.seed) % 4]))
    # large metadata (still within HTTP/2's 64 KiB header-list default): size alone must change nothing
    for i, big in enumerate([[('big', 'x' * 9000)], [('big-bin', bytes(range(256)) * 40)],
                             [('a', 'y' * 20000), ('b-bin', b'\x01' * 15000), ('c', 'z')],
                             [('k%d' % j, 'v' * 700) for j in range(40)]]):
        cases.append((big, shapes[(i + ctx.seed) % 4]))
        cases.append((big, shapes[(i + 1 + ctx.seed) % 4]))
    # sequences of calls on one channel: nothing of one call's metadata may show up in a later call
    seqs = [[None, None], [[], None, []], [None, [('a', '1')], None], [[('a', '1')], [], [('b-bin', b'\x00')], None]]
    for _ in range(ctx.n(6, 40)):
        seqs.append([rng.choice([None, [], gen_valid_md(rng)]) for _ in range(rng.choice([2, 3, 5]))])
    for mds, out in zip(seqs, run_e2e([(m, None) for m in seqs], fn=e2e_sequence)):
        res.evaluations += 1
        res.count('e2e-sequence:%d' % len(mds))
        res.signatures.add(('e2e-seq', tuple(None if m is None else len(m) for m in mds)))
        bad = out[0] == 'exc' and ('harness/driver: %r' % (out,)) or (out[0] != 'exc' and check_sequence(mds, out))
        if bad:
            res.oracle_failures.append({'case': {'op': 'e2e-seq', 'mds': mds},
                                        'what': 'metadata leaked between calls: ' + str(bad),
                                        'signature': {'op': 'e2e-seq', 'kind': 'leak'}, 'observed': out})
    for (md, shape), out in zip(cases, run_e2e(cases)):
        res.evaluations += 1
        res.count('e2e:' + shape)
        res.signatures.add(('e2e', shape, tuple(k for k, _ in md)))
        if out[0] == 'exc' or not (out[0] == md and out[1] == md and out[2] == md):
            res.oracle_failures.append({'case': {'op': 'e2e', 'md': md, 'shape': shape},
                                        'what': 'metadata changed end to end (%s response)' % shape,
                                        'signature': {'op': 'e2e', 'kind': 'changed', 'shape': shape},
                                        'observed': out})
    return res


def replay(ctx, case):
    res = Result()
    op = case.get('op')

    def unj(v):
        return bytes.fromhex(v['hex']) if isinstance(v, dict) and 'hex' in v else v
    if op == 'enc':
        check_cases(ctx, res, [[(k, unj(v)) for k, v in case['md']]], [], [])
    elif op == 'dec':
        check_cases(ctx, res, [], [[tuple(h) for h in case['hs']]], [])
    elif op == 'bin' or op == 'encbin' or op == 'b64':
        check_cases(ctx, res, [], [], [unj(case['b'])])
    elif op == 'e2e':
        md = [(k, unj(v)) for k, v in case['md']]
        shape = case.get('shape', 'normal')
        out = run_e2e([(md, shape)])[0]
        res.evaluations = 1
        if out[0] == 'exc' or not (out[0] == md and out[1] == md and out[2] == md):
            res.oracle_failures.append({'case': case, 'what': 'metadata changed end to end (%s response)' % shape,
                                        'signature': {'op': 'e2e', 'kind': 'changed', 'shape': shape},
                                        'observed': out})
    elif op == 'e2e-seq':
        mds = [None if m is None else [(k, unj(v)) for k, v in m] for m in case['mds']]
        out = run_e2e([(mds, None)], fn=e2e_sequence)[0]
        res.evaluations = 1
        bad = ('harness/driver: %r' % (out,)) if out[0] == 'exc' else check_sequence(mds, out)
        if bad:
            res.oracle_failures.append({'case': case, 'what': 'metadata leaked between calls: ' + str(bad),
                                        'signature': {'op': 'e2e-seq', 'kind': 'leak'}, 'observed': out})
    elif op == 'e2e-seq':
        mds = [None if m is None else [(k, unj(v)) for k, v in m] for m in case['mds']]
        out = run_e2e([(mds, None)], fn=e2e_sequence)[0]
        res.evaluations = 1
        bad = ('harness/driver: %r' % (out,)) if out[0] == 'exc' else check_sequence(mds, out)
        if bad:
            res.oracle_failures.append({'case': case, 'what': 'metadata leaked between calls: ' + str(bad),
                                        'signature': {'op': 'e2e-seq', 'kind': 'leak'}, 'observed': out})
    return res
