"""C05 -- deadlines bound every operation on both sides and are reported as such.

Implementation side: the real grpclib on the virtual-time loop.
  client: ONE call = Channel.request(timeout=, deadline=) + `async with` + a short program of stream
          operations ending in the target operation, with one scripted blocking reason (transport
          paused / no flow-control credit / stream-slot limit / peer silent) that is lifted never,
          before, exactly at or after the deadline, and a connect delay; observed: the virtual instant
          and exception class of every operation and of the context exit, the grpc-timeout header of the
          HEADERS frame with the instant it was written, the deadline timer.
  server: ONE request with 0-3 grpc-timeout headers (valid / invalid / expired) against a handler that
          runs for a scripted time relative to the deadline and honours / swallows the cancellation or
          raises its own TimeoutError; observed: grpc-status at the scripted client, the instant the
          handler saw CancelledError, the instant of the answer.
Model side: build/model_C05 (Model/Deadline.v kernel over the generated client programs +
Model/ServerDeadline.v in C15's floats), same cases, exact instants (client: ticks of 2^-30 s; server:
IEEE bits).  Direct oracle: the property statement on the observations (no model involved)."""
import math
from fractions import Fraction

from harness import c05_util as U
from harness.core import Result
from harness.svc import cps

PROPERTY = 'C05'
THEOREM_FILES = ['Props/C05.v']
ALLOWED_AXIOMS = [
    'ClassicalDedekindReals.sig_not_dec',
    'ClassicalDedekindReals.sig_forall_dec',
    'FunctionalExtensionality.functional_extensionality_dep',
    'Classical_Prop.classic',
]
LABEL = ('full on the model: all schedules of the client kernel (every path of every generated operation, '
         'all timeouts, all interleavings of timer / environment / tasks); all header lists, arrival '
         'instants and terminating handlers on the server float model; "the wire value is the time '
         'remaining when the request is sent" is refuted (D8) and replaced by the bound at the instant of '
         'computation; real timer jitter (asyncio fires a timer up to its clock resolution of 1 ns early, '
         'the loop may run late) is outside')
TRUSTED = [
    'asyncio semantics as encoded in Model/Deadline.v: Task.cancel wakes a waiting task and wins over a '
    'wait that completed in the same loop iteration; call_later fires at its instant; time does not pass '
    'while a callback is ready (virtual loop)',
    'one await of a primitive (protocol.Stream.send_request / send_data / end / reset / recv_*, '
    'Channel.__connect__, a dispatch hook) is modelled as a single suspension that the environment '
    'completes; grpclib code below client.Stream catches no CancelledError (checked by reading)',
    'Stream.__aexit__ / __aenter__ / Channel.request / DeadlineWrapper.start / server.request_handler are '
    'hand-transcribed (tied by the correspondence only); the operations are the generated IR',
    'CPython float = IEEE binary64 (Flocq), as in C15; Coq standard-library real-number axioms listed '
    'under axioms (Reals via Flocq, C15\'s theorems reused for the wire value and the header minimum)',
]
ASSUMPTIONS = [
    'client instants are dyadic with <= 47 significant bits (the harness generates multiples of 2^-29 s '
    'below 2^18 s), so that the Python float arithmetic on them is exact and the Z clock is faithful',
    'timeouts of at least 2^-29 s (1.86 ns): below asyncio\'s clock resolution (1 ns) a timer fires in '
    'the loop iteration that armed it',
    'server handlers terminate after swallowing a cancellation (cooperative cancellation cannot preempt '
    'a handler that never returns)',
    'operations of a call run inside its `async with` (an operation still running after the context '
    'exit is no longer covered by the disarmed timer)',
    'no foreign Wrapper.cancel (stream reset / connection loss) at the very instant of the deadline: it '
    'would replace the TimeoutError (C04 covers those events)',
]

S = U.S
OPS = ['sr', 'sm', 'en', 'ri', 'rm', 'rt', 'ca', 'ex']
MORE_OPS = ['si']            # send_message whose send_request is implicit (nested `with wrapper`)
REASONS = ['paused', 'credit', 'slot', 'silent']
ANSWERS = ['never', 'before', 'at', 'after']
ULP52 = Fraction(1, 2 ** 52)


def grid(x):
    """seconds (Fraction/float) -> even tick count (multiple of 2^-29 s), rounded down"""
    return int(Fraction(x) * S) // 2 * 2


def t_values():
    """timeouts in ticks: from 2^-29 s to 2^17 s, with the dyadic neighbours of the unit thresholds of
    encode_timeout (0.00001, 0.01, 10)"""
    out = [2, 4, 2 ** 10, 2 ** 20]
    for th in (Fraction(1, 100000), Fraction(1, 100), Fraction(10)):
        g = grid(th)
        out += [g - 2, g, g + 2]
    out += [S // 1024, S // 2, S, 3 * S + S // 4, 60 * S, 1024 * S, 3600 * S + 2, 2 ** 17 * S]
    return sorted(set(t for t in out if t >= 2))


def unit_range(t):
    s = Fraction(t, S)
    return 'S' if s > 10 else 'm' if s > Fraction(1, 100) else 'u' if s > Fraction(1, 100000) else 'n'


def lift_of(answer, t0, t, delay):
    """absolute instant (ticks) at which the blocking reason is lifted"""
    D = t0 + t
    if answer == 'never':
        return None
    if answer == 'at':
        return D
    if answer == 'before':
        return t0 + (t // 4) * 2          # t0 + t/2 on the grid (= t0 itself for the tiniest t)
    return D + max(2, (t // 4) * 2)


def client_case(op, reason, answer, t, delay=0, t0=S, explicit=None):
    c = {'side': 'c', 'op': op, 'reason': reason, 'answer': answer, 't0': t0, 'timeout': t,
         'delay': delay, 'explicit': explicit}
    if t is None:
        c['lift'] = None if answer == 'never' else t0 + 8 * S
    else:
        c['lift'] = lift_of(answer, t0, max(t, 0), delay)
    return c


# ---- model lines ---------------------------------------------------------------------------------

def client_line(case, obs):
    kinds = U.blocking_kinds(case['op'], case['reason'])
    av = [(0, case['t0'] + case.get('delay', 0))] + [(U.KIND[k], case.get('lift')) for k in kinds]
    w = ['C', str(case['t0']), '-' if case.get('timeout') is None else str(case['timeout']),
         '-' if case.get('explicit') is None else str(case['explicit']), str(U.FAR), str(len(av))]
    for k, t in av:
        w += [str(k), 'never' if t is None else str(t)]
    dl = '1' if (case.get('timeout') is not None or case.get('explicit') is not None) else '0'
    specs = []
    for r in obs['ops']:
        c = r['call']
        cx = '1' + ('1' if c == 'sm1' else '0') + dl + '0' + ('1' if r.get('msg') else '0') + '0'
        specs.append('op:%s:%s:%s' % ({'sm1': 'sm'}.get(c, c), r['flags'], cx))
    if obs['exit'] is not None:
        x = obs['exit']
        specs.append('exit:%s:10%s000:%d%d' % (x['flags'], dl, x['exc'], x['closing']))
    w.append(str(len(specs)))
    return ' '.join(w + specs)


def client_canon(case, obs):
    """what the implementation did, in the vocabulary of the model's answer"""
    if obs['enter'][0] != 'ret':
        phase = 'enter_failed'
    elif obs['exit'] is not None and obs['exit']['res'] != 'pending' and obs['exit']['flags'][0] == '1':
        phase = 'exited'
    else:
        phase = 'entered'
    tasks = []
    for r in obs['ops'] + ([obs['exit']] if obs['exit'] else []):
        tasks.append('B' if r['res'] == 'pending' else 'D,%s,%d' % (r['res'], r['at']))
    wire = []
    for a, v, n in obs['frames']:
        wire.append('%d,%s' % (a, '-' if v is None else cps(v)))
    armed = obs.get('armed_after_exit', obs['armed_end']) if obs['app_done'] else obs['armed_end']
    return {'phase': phase, 'tasks': tasks, 'wire': wire, 'armed': bool(armed)}


def model_canon(ans):
    w = ans.split()
    if len(w) != 10 or w[4] != 'T' or w[6] != 'W' or w[8] != 'G':
        return {'error': ans}
    tasks = [] if w[5] == '-' else [('B' if t.startswith('B') else t) for t in w[5].split(';')]
    wire = []
    if w[7] != '-':
        for e in w[7].split(';'):
            a, c, r, s = e.split(',', 3)
            wire.append('%s,%s' % (a, s))
    return {'phase': w[0], 'tasks': tasks, 'wire': wire, 'armed': w[2] != '-', 'guarded': w[9] == '1'}


def server_line(c):
    ck = 'h' if c['cancel'] == 'h' else 's:%s:%s' % (U.f2bits(c['cancel'][1]), c['cancel'][2])
    return ' '.join(['S', U.f2bits(c['a']), str(len(c['values']))] + [cps(v) for v in c['values']] +
                    [U.f2bits(c['dur']), c['fin'], ck, '1' if c.get('trailers_first') else '0',
                     '0' if c.get('reply', 'direct') == 'direct' else '1'])


STATUS_NAME = {'0': 'ok', '2': 'unknown', '4': 'deadline', '5': 'own', None: 'none'}


def server_canon(c, obs):
    out = {'status': STATUS_NAME.get(obs['status'], 'status-' + str(obs['status'])),
           'started': obs['started'] is not None,
           'cancel_at': '-' if obs['cancel_at'] is None else U.f2bits(obs['cancel_at']).lstrip('0') or '0'}
    if not c.get('trailers_first') and c.get('reply', 'direct') != 'paused':
        out['end_at'] = '-' if obs['status_at'] is None else U.f2bits(obs['status_at']).lstrip('0') or '0'
    return out


def server_model_canon(c, ans):
    w = ans.split()
    if len(w) != 5:
        return {'error': ans}
    out = {'status': w[0], 'started': w[1] == '1', 'cancel_at': w[3]}
    if not c.get('trailers_first') and c.get('reply', 'direct') != 'paused':
        out['end_at'] = w[4]
    return out


# ---- direct oracle: the property statement --------------------------------------------------------

def wire_value(s):
    """exact value of a grpc-timeout string per the gRPC grammar, None when outside it"""
    if s is None or len(s) < 2 or len(s) > 9 or s[-1] not in U.UNITS:
        return None
    d = s[:-1]
    if not all(ch in '0123456789' for ch in d):
        return None
    return int(d) * U.UNITS[s[-1]]


def client_oracle(case, obs):
    """list of (what, signature) -- empty when the property holds on this call"""
    bad = []
    t0, timeout, explicit = case['t0'], case.get('timeout'), case.get('explicit')
    cands = ([t0 + timeout] if timeout is not None else []) + ([explicit] if explicit is not None else [])
    D = min(cands) if cands else None
    base = {'side': 'client', 'op': case['op'], 'reason': case['reason']}

    def flag(kind, what, **kw):
        bad.append((what, dict(base, kind=kind, **kw)))

    if D is not None and D <= t0:
        if obs['enter'] != ('timeout', t0):
            flag('expired-call-entered', 'deadline already passed at __aenter__ but it gave %r' % (obs['enter'],))
        return bad
    if obs['enter'][0] != 'ret':
        flag('enter-failed', '__aenter__ raised %s with time remaining' % obs['enter'][0])
        return bad
    recs = obs['ops'] + ([obs['exit']] if obs['exit'] else [])
    for r in recs:
        name = r['call']
        if r['res'] == 'pending':
            if D is not None:
                flag('blocked-past-deadline', '%s still blocked at the horizon, deadline %d' % (name, D),
                     call=name)
            continue
        at, start = r['at'], r['start']
        if r['res'] == 'timeout':
            if D is None:
                flag('timeout-without-deadline', '%s raised TimeoutError in a call without timeout' % name,
                     call=name)
            elif at < D:
                flag('early-timeout', '%s raised TimeoutError at %d, before the deadline %d' % (name, at, D),
                     call=name)
        if D is None:
            continue
        if start <= D < at:
            flag('completed-after-deadline', '%s completed at %d, after the deadline %d' % (name, at, D),
                 call=name)
        if start < D and at >= D and r['res'] != 'timeout' and not (case.get('lift') == D and at == D):
            flag('not-a-timeout-error', '%s was in progress at the deadline and ended with %s'
                 % (name, r['res']), call=name)
        if start > D and at != start:
            flag('blocked-after-deadline', '%s started after the deadline and waited' % name, call=name)
    by = obs.get('bystander') or {}
    if by.get('res', 'pending') != 'pending':
        flag('bystander-interrupted', 'an unrelated call WITHOUT timeout, blocked in recv_message, ended with %s '
             'at %r while this call ran' % (by['res'], by.get('at')))
    # the wire
    for a, v, n in obs['frames']:
        if D is None:
            if n:
                flag('header-without-deadline', 'grpc-timeout %r sent by a call without timeout' % v)
            continue
        if n != 1:
            flag('header-count', '%d grpc-timeout headers on the request' % n)
            continue
        val = wire_value(v)
        if val is None:
            flag('header-malformed', 'grpc-timeout %r is outside the grammar' % v)
            continue
        left = Fraction(max(0, D - a), S)
        t_comp = t0 + case.get('delay', 0)              # when __connect__ returned
        left_comp = Fraction(max(0, D - t_comp), S)
        if val > left:
            if val <= left * (1 + ULP52):
                bad.append(('grpc-timeout %r exceeds the %s s remaining at the send instant by less than '
                            '2^-52 relative' % (v, float(left)),
                            {'kind': 'lengthened', 'class': 'sub-ulp'}))
            elif a > t_comp and val <= left_comp * (1 + ULP52):
                bad.append(('grpc-timeout %r on the wire with %s s remaining when the HEADERS were sent '
                            '(computed %s s earlier, before send_request waited)'
                            % (v, float(left), float(Fraction(a - t_comp, S))),
                            {'kind': 'wire-exceeds-remaining-at-send', 'waited_in': 'send_request',
                             'bounded_by_remaining_at_computation': True}))
            else:
                flag('wire-exceeds-remaining', 'grpc-timeout %r exceeds the time remaining (%s s at the '
                     'send instant, %s s when computed)' % (v, float(left), float(left_comp)))
        if val * 10 <= left_comp * 9 and left_comp - val >= Fraction(1, 10 ** 9):
            flag('wire-shortened', 'grpc-timeout %r is not the time remaining (%s s)' % (v, float(left_comp)))
    return bad


def server_oracle(c, obs):
    bad = []
    base = {'side': 'server'}

    def flag(kind, what, **kw):
        bad.append((what, dict(base, kind=kind, **kw)))

    if obs.get('bystander_cancelled') is not None:
        flag('bystander-interrupted', 'an unrelated request WITHOUT grpc-timeout was cancelled at %r'
             % obs['bystander_cancelled'])
    vals = [wire_value(v) for v in c['values']]
    status = obs['status']
    a = Fraction(c['a'])
    own = {'ret': '0', 'other': '2', 'grpc': '5', 'timeout': '2'}
    if c.get('trailers_first'):
        return bad                        # the response was complete before anything happened
    if any(v is None for v in vals):
        if status != '2' or obs['started'] is not None:
            flag('invalid-timeout-not-refused', 'invalid grpc-timeout %r: status %r, handler started %r'
                 % (c['values'], status, obs['started'] is not None))
        return bad
    if not vals:
        if obs['cancel_at'] is not None:
            flag('interrupted-without-deadline', 'no grpc-timeout, yet the handler was cancelled')
        if status != own[c['fin']]:
            flag('status-without-deadline', 'no grpc-timeout: status %r, expected %r' % (status, own[c['fin']]))
        return bad
    m = min(vals)
    D = a + m
    tol = Fraction(math.ulp(float(D))) * 4
    fin_at = a + Fraction(c['dur'])
    if m == 0 or Fraction(c['a'] + float(m)) <= a:
        # nothing remains on arrival (zero, or absorbed by the clock's precision)
        if status != '4':
            flag('expired-on-arrival-status', 'deadline passed on arrival (%r): status %r' % (c['values'], status))
        return bad
    if fin_at < D - tol:
        if obs['cancel_at'] is not None:
            flag('cancelled-before-deadline', 'handler done at %s, deadline %s, yet cancelled at %r'
                 % (float(fin_at), float(D), obs['cancel_at']))
        if status != own[c['fin']]:
            flag('status-before-deadline', 'handler finished before the deadline: status %r, expected %r'
                 % (status, own[c['fin']]))
    elif fin_at > D + tol:
        if obs['cancel_at'] is None:
            flag('not-cancelled', 'handler ran past the deadline %s and was never cancelled' % float(D))
        elif abs(Fraction(obs['cancel_at']) - D) > tol:
            flag('cancelled-at-wrong-instant', 'handler cancelled at %r, deadline %s (smallest of %r)'
                 % (obs['cancel_at'], float(D), c['values']))
        if status != '4':
            flag('deadline-status', 'deadline passed (handler %s): status %r, expected 4'
                 % ('honours' if c['cancel'] == 'h' else 'swallows', status))
        if obs['cancels'] > 1 or obs['second_cancel']:
            flag('cancelled-twice', 'handler cancelled more than once by its deadline')
    else:
        if status not in ('4', own[c['fin']]):
            flag('status-at-deadline', 'handler finished at the deadline: status %r' % status)
    return bad


# ---- running cases --------------------------------------------------------------------------------

def do_client(res, case, batch):
    obs = U.run_client(case)
    res.evaluations += 1
    canon = client_canon(case, obs)
    t = case.get('timeout')
    res.count('client:%s:%s:%s' % (case['op'], case['reason'], case.get('answer')))
    res.count('client:t:' + ('none' if t is None else 'expired' if t <= 0 else unit_range(t)))
    for x in canon['tasks']:
        res.count('client:result:' + (x if x == 'B' else x.split(',')[1]))
    res.signatures.add(('c', case['op'], case['reason'], case.get('answer'),
                        'none' if t is None else 'expired' if t <= 0 else unit_range(t),
                        0 if not case.get('delay') else 1 if t is None or case['delay'] < t else 2,
                        case.get('explicit') is not None,
                        tuple(x if x == 'B' else x.split(',')[1] for x in canon['tasks'])))
    res.sample({'case': case, 'observed': canon}, limit=8)
    for what, sig in client_oracle(case, obs):
        res.oracle_failures.append({'case': case, 'what': what, 'signature': sig, 'observed': canon})
    batch.append((case, canon, client_line(case, obs), 'c'))


def do_server(res, case, batch):
    if isinstance(case['cancel'], list):
        case = dict(case, cancel=tuple(case['cancel']))
    obs = U.run_server(case)
    res.evaluations += 1
    canon = server_canon(case, obs)
    kinds = tuple(sorted('bad' if wire_value(v) is None else 'zero' if wire_value(v) == 0 else v[-1]
                         for v in case['values']))
    res.count('server:headers:%d' % len(case['values']))
    res.count('server:status:' + canon['status'])
    res.count('server:cancel:' + (case['cancel'] if case['cancel'] == 'h' else 's-' + case['cancel'][2]))
    res.count('server:reply:' + case.get('reply', 'direct'))
    res.count('server:card:' + case.get('card', 'SS'))
    res.signatures.add(('s', kinds, case.get('rel'), case['fin'], case.get('reply', 'direct'), case.get('card', 'SS'),
                        case['cancel'] if case['cancel'] == 'h' else case['cancel'][2],
                        bool(case.get('trailers_first')), canon['status'], canon['cancel_at'] != '-'))
    res.sample({'case': case, 'observed': canon}, limit=8)
    for what, sig in server_oracle(case, obs):
        res.oracle_failures.append({'case': case, 'what': what, 'signature': sig, 'observed': canon})
    batch.append((case, canon, server_line(case), 's'))


def flush(ctx, res, batch):
    if not ctx.model_ok or not batch:
        return
    out = ctx.model([b[2] for b in batch])
    for (case, canon, line, side), ans in zip(batch, out):
        res.traces += 1
        if side == 'c':
            m = model_canon(ans)
            ok = ('error' not in m and m.pop('guarded') and m == canon)
        else:
            m = server_model_canon(case, ans)
            ok = m == canon
        if not ok:
            res.disagreements.append({'case': case, 'impl': canon, 'model': ans})


VALID = ['1S', '2S', '500m', '100u', '1n', '1H', '3M', '00000001S', '99999999H', '250m', '7u', '20S']
ZERO = ['0n', '0S', '00u']
INVALID = ['1s', '', '1', 'S', '123456789S', '1.5S', ' 1S', '5S\n', '-1S', '1 S', '1SS']
ARRIVALS = [1.0, 3.0, 1000.25, 2.0 ** 22]
BIG = 2.0 ** 26      # clock value whose ulp (1.5e-8 s) absorbs a 1 ns timeout
FINS = ['ret', 'other', 'grpc', 'timeout']


def server_cases(rng, n, full):
    """header multisets x handler duration relative to the deadline x cancellation behaviour"""
    out = []

    def add(values, rel, fin, cancel, a, tf=False, reply='direct', card='SS'):
        vals = [wire_value(v) for v in values]
        dur = None
        if values and all(v is not None for v in vals) and min(vals) > 0:
            # (generation only) the instants the code will compute, to place the handler's end around them
            from grpclib.metadata import decode_timeout
            ts = a + min(decode_timeout(v) for v in values)
            rem = ts - a
            if rem > 0:
                when = a + rem
                dur = {'before': min(rem / 2, 1.0), 'equal': rem, 'after': min(rem * 1.5, rem + 64.0),
                       'long': rem * 2 + 1.0}[rel]
                if a + rem > a + 6000 and rel != 'before':
                    return                      # beyond the horizon of the run (server keepalive at 7200 s)
                if dur <= 0 or (a + dur != when and abs((a + dur) - when) < 4e-9):
                    return                      # asyncio would merge the two timers (clock resolution)
        if dur is None:
            dur = {'before': 0.5, 'equal': 1.0, 'after': 2.0, 'long': 5000.0}[rel]
        if a >= 2.0 ** 23 and not ('1n' in values or any(v is None for v in vals)):
            return      # asyncio never fires a timer when time() + 1e-9 == time(): no sleeping up there
        if reply == 'paused' and (rel == 'before' or tf):
            return      # a paused transport would block the handler's own sends, not only the reply
        c = {'side': 's', 'a': a, 'values': list(values), 'dur': dur, 'rel': rel, 'fin': fin,
             'cancel': cancel, 'trailers_first': tf, 'reply': reply, 'card': card}
        if reply == 'paused':
            c['resume'] = min(3 * dur + 2.0, 6500.0) if a < 2.0 ** 23 else 1.0
        out.append(c)

    cancels = ['h'] + [('s', 0.5, f) for f in FINS]
    if full:
        for values in [[], ['1S'], ['2S', '1S'], ['1S', '2S', '500m'], ['100u'], ['1n'], ['0n'], ['1S', '0S'],
                       ['1s'], ['1S', ''], ['5S\n', '1S'], ['99999999H'], ['1H'], ['3M', '20S']]:
            for rel in ['before', 'equal', 'after', 'long']:
                for fin in FINS:
                    for cancel in cancels:
                        if rel in ('before',) and cancel != 'h':
                            continue
                        add(values, rel, fin, cancel, 3.0)
        for a in ARRIVALS:
            for values in [['1n'], ['100u'], ['1S'], ['0n']]:
                for rel in ['before', 'after']:
                    add(values, rel, 'ret', 'h', a)
                    add(values, rel, 'ret', ('s', 0.5, 'other'), a)
        for fin in FINS:
            add(['1S'], 'after', fin, 'h', 3.0, tf=True)
        add(['1n'], 'after', 'ret', 'h', BIG)           # absorbed: fl(now + 1e-9) == now -> expired
        add(['1n', '1S'], 'after', 'ret', ('s', 0.5, 'ret'), BIG)
        # expired / fired deadline x the reply path suspends or not x 4 cardinalities
        for card in ('UU', 'US', 'SU', 'SS'):
            for reply in ('direct', 'listener', 'paused'):
                for values, a in [(['0n'], 3.0), (['0m'], 3.0), (['1S', '0S'], 1000.25), (['1n'], BIG),
                                  (['1s'], 3.0)]:
                    add(values, 'after', 'ret', 'h', a, reply=reply, card=card)
                for values in (['1S'], ['2S', '500m'], ['1n']):
                    for rel in ('before', 'equal', 'after'):
                        for cancel in cancels:
                            add(values, rel, 'ret', cancel, 3.0, reply=reply, card=card)
                add([], 'before', 'ret', 'h', 3.0, reply=reply, card=card)
    for _ in range(n):
        k = rng.choice([0, 1, 1, 2, 2, 3])
        values = []
        for _i in range(k):
            r = rng.random()
            values.append(rng.choice(VALID) if r < 0.7 else rng.choice(ZERO) if r < 0.8 else
                          rng.choice(INVALID))
        add(values, rng.choice(['before', 'equal', 'after', 'long']), rng.choice(FINS),
            rng.choice(cancels), rng.choice(ARRIVALS + [BIG]), tf=rng.random() < 0.05,
            reply=rng.choice(['direct', 'direct', 'listener', 'paused']),
            card=rng.choice(['UU', 'US', 'SU', 'SS']))
    return out


def special_client_cases():
    out = []
    for op in ('sr', 'rm'):
        out.append(client_case(op, 'silent', 'never', 0))                 # timeout=0: expired at once
        out.append(client_case(op, 'silent', 'never', -S))                # negative timeout
        # explicit deadline earlier / later than the timeout, and alone
        out.append(client_case(op, 'silent', 'never', 8 * S, explicit=S + 4 * S))
        out.append(client_case(op, 'silent', 'never', 4 * S, explicit=S + 8 * S))
        out.append(client_case(op, 'silent', 'never', None, explicit=S + 4 * S))
        out.append(client_case(op, 'silent', 'never', 4 * S, explicit=S))   # explicit already passed
    # the context is left before a request was sent (refused first call): __aexit__ returns early
    c = client_case('e0', 'silent', 'never', 4 * S)
    out.append(c)
    return out


U.PROGRAMS['e0'] = ['en']


def run(ctx):
    res = Result()
    rng = ctx.rng
    res.rule = ('client: op(8: send_request, send_message, end, recv_initial_metadata, recv_message, '
                'recv_trailing_metadata, cancel, context exit) x blocking reason(4: transport paused, no '
                'flow-control credit, stream-slot limit, peer silent) x instant the reason is lifted {never, '
                'before, exactly at, after the deadline} x timeout in {2^-29 s .. 2^17 s incl. the dyadic '
                'neighbours of the unit thresholds 0.00001 / 0.01 / 10} x connect delay {0, t/4, 2t} x start '
                'instant; plus calls without timeout, expired / negative timeouts, explicit deadlines, a '
                'context left before any request.  server: 0-3 grpc-timeout headers (valid / zero / invalid) x '
                'handler duration {before, equal, after, long after the deadline} x handler end {return, '
                'raise, raise GRPCError, raise TimeoutError} x {honour, swallow then ...} x arrival instant x '
                'reply path {direct, a SendTrailingMetadata listener that awaits, transport paused then '
                'resumed} x 4 cardinalities. '
                'distinct = distinct (op, reason, lift, unit range, delay class, per-call results) resp. '
                '(header classes, relation, behaviour, status) tuples')
    batch = []
    for c in ctx.corpus():
        (do_client if c.get('side') == 'c' else do_server)(res, c, batch)
    thorough = ctx.tier == 'thorough'
    ts = t_values()
    n_matrix = 0
    # complete op x reason x answer matrix, for a timeout of every unit range (all timeouts when thorough)
    matrix_ts = ts
    for t in matrix_ts:
        for op in OPS + MORE_OPS:
            for reason in REASONS:
                for answer in ANSWERS:
                    do_client(res, client_case(op, reason, answer, t), batch)
                    n_matrix += 1
    # calls without a timeout: never interrupted
    for op in OPS + MORE_OPS:
        for reason in REASONS:
            for answer in ('never', 'after'):
                do_client(res, client_case(op, reason, answer, None), batch)
    for c in special_client_cases():
        do_client(res, c, batch)
    # PRNG over the whole space (all timeouts, connect delays, start instants)
    for _ in range(ctx.n(2500, 40000)):
        t = rng.choice(ts)
        delay = rng.choice([0, 0, (t // 8) * 2, 2 * t])
        t0 = rng.choice([0, S, 1024 * S + S // 2, 2 ** 16 * S])
        if t0 + 4 * t + delay >= U.FAR:
            t0 = 0
        do_client(res, client_case(rng.choice(OPS + MORE_OPS), rng.choice(REASONS), rng.choice(ANSWERS), t,
                                   delay=delay, t0=t0), batch)
    for c in server_cases(rng, ctx.n(1500, 25000), True):
        do_server(res, c, batch)
    res.extra['client_matrix_cells'] = n_matrix
    res.extra['timeouts_ticks'] = ts
    res.exhaustive = False
    flush(ctx, res, batch)
    return res


def replay(ctx, case):
    res = Result()
    batch = []
    (do_client if case.get('side') == 'c' else do_server)(res, case, batch)
    flush(ctx, res, batch)
    return res
