"""C03 -- the server always ends a stream with exactly one well-formed, truthful response.

Three legs on the same batch of cases (request header list x body x handler program x environment):
  1. implementation: harness/c03_impl.py runs the case on a real grpclib Server protocol instance with a
     scripted validating h2 client peer on the virtual-time loop (handler programs interpreted as real
     coroutines; client RST_STREAM, Server.close() and the deadline injected at scripted points);
  2. model: build/model_C03 (extracted Model/ServerCall.v) on the same cases; frames (exact header lists),
     per-call results and the way the handler ended are compared;
  3. direct oracle: wire monitor + truthfulness on the frames the peer saw -- does not use the model.
"""
import base64
import itertools
from urllib.parse import unquote
import os
import re

from harness.core import Result
from harness.svc import cps
from harness import c03_impl
from harness.c03_impl import KNOWN_PATH

PROPERTY = 'C03'
THEOREM_FILES = ['Props/C03.v']
ALLOWED_AXIOMS = []
LABEL = ('partial: user handler code is represented by the program alphabet {recv_message, send_initial_metadata, '
         'send_message, send_trailing_metadata(status,msg) -- each sending call also in a variant that fails part-way '
         '(invalid metadata / refused message / raising listener) --, cancel, sleep, transport-paused} ending in return / '
         'raise GRPCError / raise Exception (plain, the handler\'s own TimeoutError, StreamTerminatedError, ProtocolError) / '
         'raise BaseException / wait, with an honour-or-swallow cancellation policy; theorems are '
         'over programs of every length; D4 (BaseException / cancelled by Server.close -> no terminal frame) is a '
         'recorded finding (exactly_one_terminal is proved as _partial + _refuted); D42 (GRPCError(OK) on a unary reply '
         'without a message) is repaired and proved at full strength')
TRUSTED = ['modelled, not verified: hyper-h2 stream life-cycle (open / half-closed / closed; a refused send on a '
           'half-closed(local) stream closes it), asyncio task cancellation at suspension points, '
           'Wrapper/DeadlineWrapper error replacement, Buffer.read on the buffered request body',
           'tools/facts_C03.py + tools/facts_C03Probes.py (fail-closed translators BY BEHAVIOUR: decision tables read '
           'off the wire of the real server on fixed probe requests / probe handlers -- refusal table with precedence, '
           'exit statuses, deadline statuses, ~580 golden probe programs the Coq model must reproduce; no source '
           'syntax is read)',
           'Model.Metadata.decode_metadata / Model.Base64 (C13) for the malformed-metadata check']
ASSUMPTIONS = ['the flow-control windows are open; the transport is writable until the program pauses it (Pause), after '
               'which every sending call waits for write_ready; cancellation reaches the handler only in Sleep, in a Recv '
               'that has to wait, in such a paused sending call, or in the final Wait; the environment resumes writing '
               'once the handler coroutine has ended (or at once when it is never called); awaiting listeners suspend '
               'for zero time (asyncio.sleep(0)), so no scripted event lands in them -- they exist to expose a '
               'cancellation that is already pending; events strike only while the handler coroutine runs',
               'the whole request (HEADERS, DATA, END_STREAM) is delivered before the handler task first runs',
               'a valid grpc-timeout is either far away (fires only while the handler waits) or scripted to fall '
               'inside a given Sleep; an API error is caught by the handler and the program goes on (letting it '
               'escape is the same program cut there and ending in raise Exception)',
               'the connection stays up (transport.is_closing() false) for the duration of the call']

BASE = [(':method', 'POST'), (':scheme', 'http'), (':path', KNOWN_PATH), (':authority', 'x'),
        ('te', 'trailers'), ('content-type', 'application/grpc')]
FAR = ('grpc-timeout', '100S')
INTERNAL = 'Internal Server Error'

# ---- canonical forms ----------------------------------------------------------------------------------

REPLY_HEX = None


def canon_impl(obs, case):
    global REPLY_HEX
    if REPLY_HEX is None:
        from harness import peer as P
        REPLY_HEX = P.grpc_frame(c03_impl.REPLY).hex()
    frames = []
    for f in obs['frames']:
        if f[0] in ('H', 'T'):
            # grpc-message travels percent-encoded; what a conforming client shows is the decoded text
            frames.append([f[0], [[k, unquote(v, encoding='utf-8', errors='replace') if k == 'grpc-message' else v]
                                  for k, v in f[1]], bool(f[2])])
        elif f[0] == 'D':
            good = (f[1] == 'BIG') if case.get('big') else (f[1] == REPLY_HEX)
            frames.append(['D'] if (good and not f[2]) else ['D', f[1], f[2]])
        elif f[0] == 'R':
            frames.append(['R'] if f[1] == 0 else ['R', f[1]])
        else:
            frames.append(list(f))
    e = obs['end']
    if obs['hang']:
        end = 'hang'
    elif e == 'not-run':
        end = 'notrun'
    elif e == 'cancelled':
        end = 'cancelled:' + obs['cause']
    elif e is not None and e.startswith('swallow-'):
        end = 'swallow:%s:%s' % (obs['cause'], e[8:])
    elif e is None:
        end = 'none'
    else:
        end = 'fin:' + e
    return {'frames': frames, 'results': list(obs['results']), 'end': end}


def fin_word(f):
    if f[0] == 'grpc':
        return 'grpc:%d:%s' % (f[1], '~' if f[2] is None else cps(f[2]))
    if f[0] == 'exc' and len(f) > 1:
        return f[1]                     # timeout | streamterm | protocol
    return f[0]


def op_word(o):
    if isinstance(o, str):
        return o[:2] if len(o) == 3 else o         # 'I!a' / 'I!h' -> 'I!': the model has one way to fail part-way
    return 'T%s:%d:%s' % ('!' if len(o) > 3 and o[3] else '', o[1], '~' if o[2] is None else cps(o[2]))


def model_line(case):
    b = case['body']
    w = ['run', cps(KNOWN_PATH), case['card'], str(b['msgs']), '1' if b.get('partial') else '0',
         '1' if b.get('eof') else '0', case.get('ext', 'none'),
         str(-1 if case.get('ext_at') is None else case['ext_at']), '1' if case.get('paused0') else '0',
         cps(case.get('codec') or 'proto'),
         'H' if case.get('policy', 'honour') == 'honour' else 'S/' + fin_word(case.get('fin2') or ['ret']),
         fin_word(case['fin']), str(len(case['ops']))]
    w += [op_word(o) for o in case['ops']]
    w.append(str(len(case['headers'])))
    for k, v in case['headers']:
        w += [cps(k), cps(v)]
    return ' '.join(w)


def uncps(w):
    return '' if w == '-' else ''.join(chr(int(t)) for t in w.split(','))


def parse_model(line):
    parts = line.split('|')
    if len(parts) != 6:
        return {'error': line}
    frames = []
    for w in parts[1].split():
        if w in ('D', 'R'):
            frames.append([w])
        else:
            kind, end, hs = w.split(':', 2)
            frames.append([kind, [[uncps(p.split('/')[0]), uncps(p.split('/')[1])] for p in hs.split(';') if p],
                           end == '1'])
    return {'verdict': parts[0], 'frames': frames, 'results': parts[2].split(), 'end': parts[3],
            'accepted': parts[4][0] == '1', 'well_formed': parts[4][1] == '1', 'final': parts[5]}


# ---- the direct oracle (independent of the model) -------------------------------------------------------

TIMEOUT_RE = re.compile(r'[0-9]{1,8}[HMSmun]')
B64 = set('ABCDEFGHIJKLMNOPQRSTUVWXYZabcdefghijklmnopqrstuvwxyz0123456789+/')
RESERVED = ('te', 'content-type', 'user-agent')


def classify_request(headers, codec='proto'):
    """('accept', info) | ('reject', [defects]) | ('unclear', why): what the property statement calls an
    acceptable gRPC request for a server whose codec has content subtype `codec`, decided from the header list"""
    d = dict(headers)
    defects = []
    if d.get(':method') != 'POST':
        defects.append('method')
    ct = d.get('content-type')
    if ct is None:
        defects.append('no-content-type')
    elif ct != 'application/grpc+' + codec and not (codec == 'proto' and ct in ('application/grpc', 'application/grpc+')):
        # the bare application/grpc means +proto; an empty subtype is read as "no subtype" (see notes/C03.md);
        # a server with another codec must refuse both
        defects.append('content-type')
    if d.get('te') != 'trailers':
        defects.append('te')
    if d.get(':path') != KNOWN_PATH:
        defects.append('path')
    touts = [v for k, v in headers if k == 'grpc-timeout']
    if any(not TIMEOUT_RE.fullmatch(v) for v in touts):
        defects.append('timeout')
    unclear = False
    for k, v in headers:
        if k.startswith(':') or k.startswith('grpc-') or k in RESERVED or not k.endswith('-bin'):
            continue
        body = v.rstrip('=')
        if set(body) <= B64 and len(body) % 4 == 1:
            defects.append('metadata')          # can not be base64 of anything
        elif not (set(body) <= B64 and len(v) - len(body) in (0, (-len(body)) % 4)):
            unclear = True                       # tolerated spellings are C13's business
    if defects:
        return 'reject', defects
    if unclear:
        return 'unclear', 'metadata'
    expired = any(int(v[:-1]) == 0 for v in touts)
    return 'accept', {'timeout': bool(touts), 'expired': expired}


def wire_monitor(frames, want_ct):
    """(state, why): M0 nothing / MH headers / MT terminal headers / MR reset / BAD"""
    st = 'M0'
    for f in frames:
        k = f[0]
        if k == 'H':
            d = dict(map(tuple, f[1]))
            if st != 'M0':
                return 'BAD', 'second response HEADERS'
            if not f[2]:
                if d.get(':status') != '200' or d.get('content-type') != want_ct or 'grpc-status' in d:
                    return 'BAD', 'response HEADERS without :status 200 / content-type'
                st = 'MH'
            else:
                if d.get(':status') == '200':
                    if 'grpc-status' not in d:
                        return 'BAD', 'trailers-only without grpc-status'
                    if d.get('content-type') != want_ct and d.get('grpc-status') == '0':
                        return 'BAD', 'OK trailers-only without content-type'
                elif ':status' not in d:
                    return 'BAD', 'terminal HEADERS without :status'
                st = 'MT'
        elif k == 'D':
            if st != 'MH' or len(f) != 1:
                return 'BAD', 'DATA outside HEADERS..TRAILERS or malformed message'
        elif k == 'T':
            d = dict(map(tuple, f[1]))
            if st != 'MH' or not f[2] or 'grpc-status' not in d:
                return 'BAD', 'TRAILERS misplaced / without END_STREAM / without grpc-status'
            st = 'MT'
        elif k == 'R':
            if st == 'MR' or len(f) != 1:
                return 'BAD', 'second RST_STREAM or unexpected error code'
            st = 'MR'
        else:
            return 'BAD', 'unexpected event %r' % (f,)
    return st, ''


def status_of(frames):
    for f in frames:
        if f[0] in ('H', 'T'):
            d = dict(map(tuple, f[1]))
            if 'grpc-status' in d:
                return d['grpc-status'], d.get('grpc-message')
    return None


EXC_KINDS = ('exc', 'timeout', 'streamterm', 'protocol')


def end_class(end):
    return {'fin:base': 'base', 'cancelled:close': 'cancelled-close',
            'swallow:close:base': 'swallow-close-base'}.get(end, end.replace(':', '-'))


def oracle(case, obs, can):
    """list of (what, signature) -- empty when the property holds on this case"""
    bad = []
    frames = can['frames']
    end = can['end']
    ec = end_class(end)

    def fail(kind, what, **kw):
        sig = {'kind': kind, 'end': ec}
        sig.update(kw)
        bad.append((what, sig))
    if obs['hang'] and obs.get('where') in ('I', 'M', 'T', 'C') and not obs.get('paused'):
        # the handler never got out of a sending call although the client is reading and returning credit
        fail('stuck-send', 'the handler is stuck in a sending call (%s) on a writable connection whose client '
             'returns flow-control credit; frames seen: %s' % (obs.get('where'), [f[0] for f in can['frames']]))
    if obs['hang'] and obs['end'] is not None:
        fail('stuck', 'the handler coroutine ended (%s) but request_handler never finished' % obs['end'])
    for f in obs['frames']:
        if f[0] in ('H', 'T'):
            for k, v in f[1]:
                if k == 'grpc-message' and not all(0x20 <= ord(ch) <= 0x7e for ch in v):
                    fail('message-not-ascii', 'grpc-message on the wire is not printable ASCII: %r' % v)
    if obs['violations']:
        fail('h2-violation', 'the validating peer rejected what the server sent: %s' % obs['violations'][:1])
    codec = case.get('codec') or 'proto'
    cls, info = classify_request([tuple(h) for h in case['headers']], codec)
    want_ct = 'application/grpc+' + codec          # the content-type the server's codec stands for
    state, why = wire_monitor(frames, want_ct)
    if state == 'BAD':
        fail('malformed', 'response is not well-formed: ' + why)
        return bad
    streaming = case['card'] in ('US', 'SS')
    ndata = sum(1 for f in frames if f[0] == 'D')
    st = status_of(frames)
    if cls == 'reject':
        if end != 'notrun':
            fail('reject-ran', 'handler ran for an unacceptable request %r' % info, defect=info[0])
        if state not in ('MT', 'MR') or not frames or frames[0][0] != 'H':
            fail('unanswered', 'unacceptable request (%s) left without an error response' % info[0], defect=info[0])
            return bad
        d = dict(map(tuple, frames[0][1]))
        if d.get(':status') == '200' and d.get('grpc-status') in (None, '0'):
            fail('reject-ok', 'unacceptable request (%s) answered without an error' % info[0], defect=info[0])
        if info == ['path'] and d.get('grpc-status') != '12':
            fail('unimplemented', 'unknown method answered %r instead of UNIMPLEMENTED' % (d,), defect='path')
        if ndata:
            fail('reject-data', 'message sent for an unacceptable request', defect=info[0])
        return bad
    if cls == 'accept' and info.get('expired'):
        # the deadline had passed when the request arrived: DEADLINE_EXCEEDED, and nobody is asked to work on it
        if end != 'notrun':
            fail('expired-ran', 'the deadline had expired on arrival (grpc-timeout 0) but the handler was called')
        if state not in ('MT', 'MR'):
            fail('no-terminal', 'request whose deadline had expired on arrival left without a terminal response',
                 reply='expired')
        elif st is None or st[0] != '4':
            fail('wrong-status', 'deadline expired on arrival: expected status 4, wire says %r' % (st,),
                 want='4', got=(st[0] if st else None))
        return bad
    # accepted (or unclear) request ------------------------------------------------------------
    if not streaming and ndata > 1:
        fail('unary-two', 'unary reply with %d messages' % ndata)
    results = can['results']
    explicit = None
    cancel_ok = False
    for o, r in zip(case['ops'], results):
        if not isinstance(o, str) and r == 'ok' and explicit is None:
            explicit = (str(o[1]), o[2])        # the handler's own trailers went out (the call completed)
        if o == 'C' and r == 'ok':
            cancel_ok = True
    raised = None           # the GRPCError the handler itself raised (not replaced by a wrapper error)
    if end in ('fin:grpc', 'swallow:close:grpc'):
        f = case['fin'] if end == 'fin:grpc' else case['fin2']
        raised = (str(f[1]), f[2])
    if st is not None and st[0] == '0':
        # OK only if the handler returned normally, or said OK itself: explicit OK trailers, or -- the one
        # case where the two clauses of the statement meet -- it raised GRPCError(Status.OK)
        normal = end in ('fin:ret', 'swallow:close:ret')
        if not (normal or (explicit is not None and explicit[0] == '0') or (raised and raised[0] == '0')):
            fail('false-ok', 'status OK although the handler did not complete normally (%s)' % end)
        if not streaming and ndata != 1:
            fail('ok-without-message', 'unary reply: status OK with %d messages' % ndata)
    if end == 'hang' or end.split(':')[1:2] == ['reset']:
        return bad              # the handler is still waiting for the client / the client reset the stream
    if end == 'notrun' and cls == 'unclear':
        if state not in ('MT', 'MR'):
            fail('unanswered', 'request left without a terminal response', defect='unclear')
        return bad
    if state not in ('MT', 'MR'):
        extra = {}
        if raised is not None:
            extra['raised'] = int(raised[0])
        extra['reply'] = ('streaming' if streaming else 'unary-%d' % ndata)
        fail('no-terminal', 'no terminal frame (trailers or RST_STREAM) after the handler ended with %s; '
             'frames seen: %s' % (end, [f[0] for f in frames]), **extra)
        return bad
    if explicit is not None:
        if st is None or st[0] != explicit[0] or st[1] != explicit[1]:
            fail('explicit-status', 'handler sent trailers %r but the wire says %r' % (explicit, st))
        return bad
    if cancel_ok:
        if st is not None:
            fail('status-after-cancel', 'status %r although the handler cancelled the stream' % (st,))
        return bad
    # implicit trailers at exit
    want = None
    if end == 'notrun':
        want = ('4', None) if (cls == 'accept' and info.get('expired')) else ('?', None)
    elif end in ('fin:ret', 'swallow:close:ret'):
        want = ('0', None) if (streaming or ndata == 1) else ('non-ok', None)
    elif raised is not None:
        # GRPCError(Status.OK) can not be honoured on a unary reply without its message (D42, repaired): any
        # non-OK status is truthful there; otherwise exactly the raised (status, message)
        want = ('non-ok', None) if (raised[0] == '0' and not streaming and ndata == 0) else raised
    elif end.split(':')[-1] in EXC_KINDS and end.split(':')[0] == 'fin' or \
            (end.startswith('swallow:close:') and end.split(':')[-1] in EXC_KINDS):
        # any Exception that is not a GRPCError -- including the handler's OWN asyncio.TimeoutError while the
        # request carries a deadline that has not fired -- is UNKNOWN
        want = ('2', '*')
    elif end.split(':')[1:2] == ['deadline']:
        want = ('4', '*')               # the deadline actually fired (the harness saw its cancellation)
    if want is None or st is None:
        fail('status-missing', 'no grpc-status after %s' % end)
    elif want[0] == 'non-ok':
        if st[0] == '0':
            fail('false-ok', 'unary reply without a message answered OK')
    elif want[0] == '?':
        fail('not-run', 'acceptable request whose handler was never called: %r' % (st,))
    elif st[0] != want[0] or (want[1] != '*' and st[1] != want[1]):
        fail('wrong-status', 'handler ended with %s: expected status %r, wire says %r' % (end, want, st),
             want=want[0], got=st[0])
    return bad


# ---- case generation --------------------------------------------------------------------------------

OPS = ['R', 'I', 'M', ['T', 0, None], ['T', 5, 'nf'], 'C', 'S']
# ... plus calls that fail part-way (a = bad argument, h = raising listener) and the transport being paused
OPS_X = OPS + ['I!a', 'I!h', 'M!a', 'M!h', ['T', 0, None, 'a'], ['T', 5, 'nf', 'h'], 'P']
FINS = [['ret'], ['grpc', 10, 'hmsg'], ['grpc', 0, None], ['exc'], ['base'], ['wait']]
FINS_X = [['ret'], ['exc'], ['exc', 'timeout'], ['exc', 'streamterm'], ['exc', 'protocol'], ['grpc', 0, None],
          ['base'], ['wait']]
FIN2S = [['ret'], ['grpc', 7, None], ['exc'], ['exc', 'timeout'], ['base']]
CARDS = ['UU', 'US', 'SU', 'SS']
BODIES = [{'msgs': 0, 'partial': False, 'eof': True}, {'msgs': 0, 'partial': False, 'eof': False},
          {'msgs': 0, 'partial': True, 'eof': True}, {'msgs': 0, 'partial': True, 'eof': False},
          {'msgs': 1, 'partial': False, 'eof': True}, {'msgs': 1, 'partial': False, 'eof': False},
          {'msgs': 2, 'partial': False, 'eof': True}, {'msgs': 2, 'partial': False, 'eof': False},
          {'msgs': 1, 'partial': True, 'eof': True}]
STD_BODY = {'msgs': 1, 'partial': False, 'eof': True}


def mk(ops, fin, card='UU', body=None, headers=None, policy='honour', fin2=None, ext='none', ext_at=None,
       paused0=False, hooks_await=False, big=False, codec=None, details=None):
    if headers is None:
        headers = BASE if codec in (None, 'proto') else replaced('content-type', 'application/grpc+' + codec)
    return {'headers': [list(h) for h in headers], 'codec': codec, 'details': details, 'card': card,
            'body': dict(body or STD_BODY), 'ops': list(ops), 'fin': list(fin), 'policy': policy,
            'fin2': list(fin2 or ['ret']), 'ext': ext, 'ext_at': ext_at, 'paused0': bool(paused0),
            'hooks_await': bool(hooks_await), 'big': bool(big)}


# GRPCError / trailers messages that need escaping on the wire: what arrives (decoded) must be what was raised
TRICKY = ['%41', 'a%2Fb', '100%25', '100%', '%', 'caf\xe9 \u2615', 'a b\tc', 'x\ny', '\u00e9%C3%A9', 'plain']


CODECS = ['json', 'x.my-codec']          # servers whose codec is not the proto one


def without(name):
    return [h for h in BASE if h[0] != name]


def replaced(name, value):
    return [(h[0], value) if h[0] == name else h for h in BASE]


def request_classes():
    """a covering set of request header lists: every check of request_handler passing / failing, alone and in
    combination with later ones, duplicates (last wins), timeout and metadata spellings"""
    out = [('valid', BASE)]
    out.append(('no-method', without(':method')))
    for m in ('GET', 'post', 'POST ', ''):
        out.append(('method-' + m, replaced(':method', m)))
    out.append(('dup-method-last-bad', BASE + [(':method', 'PUT')]))
    out.append(('dup-method-last-good', [(':method', 'PUT')] + BASE))
    out.append(('no-content-type', without('content-type')))
    for ct in ('application/grpc+proto', 'application/grpc+', 'application/grpc+json', 'application/grpc+proto+x',
               'application/grpcx', 'application/json', 'Application/grpc', 'application/grpc;charset=utf-8', '',
               '+proto', 'application/grpc +proto'):
        out.append(('ct-' + ct, replaced('content-type', ct)))
    out.append(('no-te', without('te')))
    for te in ('Trailers', 'trailers, deflate', 'gzip', ''):
        out.append(('te-' + te, replaced('te', te)))
    out.append(('no-path', without(':path')))
    for p in ('/v.S/Nope', '/v.S/M/', 'v.S/M', '/', ''):
        out.append(('path-' + p, replaced(':path', p)))
    for t in ('100S', '1H', '00003000S', '5000000u', '00000100S'):
        out.append(('timeout-' + t, BASE + [('grpc-timeout', t)]))
    for t in ('0n', '0S', '00000000H'):
        out.append(('expired-' + t, BASE + [('grpc-timeout', t)]))
    for t in ('5x', '', 'S', '123456789S', '1.5S', '-1S', ' 5S', '5S\n', '5 S', '5s', '99999999999S'):
        out.append(('badtimeout-' + t, BASE + [('grpc-timeout', t)]))
    out.append(('two-timeouts-min-expired', BASE + [('grpc-timeout', '100S'), ('grpc-timeout', '0m')]))
    out.append(('two-timeouts-one-bad', BASE + [('grpc-timeout', '100S'), ('grpc-timeout', 'x')]))
    out.append(('two-timeouts-valid', BASE + [('grpc-timeout', '200S'), ('grpc-timeout', '100S')]))
    for k, v in (('x-bin', 'A'), ('x-bin', 'AAAAA'), ('a.b_c-bin', 'QUJDRA=A'[:5]), ('x-bin', 'AAAAAAAAA')):
        out.append(('badmeta-%s:%s' % (k, v), BASE + [(k, v)]))
    for k, v in (('x-bin', 'QQ'), ('x-bin', 'QUI'), ('x-bin', 'QUJD'), ('x-bin', ''), ('x-bin', 'QQ=='),
                 ('x-key', 'any text ~'), ('grpc-foo-bin', 'A'), ('grpc-encoding', 'identity'),
                 ('user-agent', 'ua/1'), ('x-bin', 'Q!Q')):
        out.append(('meta-%s:%s' % (k, v), BASE + [(k, v)]))
    # two defects: the earlier check decides
    out.append(('method+ct', [h for h in replaced(':method', 'GET') if h[0] != 'content-type']))
    out.append(('ct+te', [h for h in replaced('content-type', 'text/html') if h[0] != 'te']))
    out.append(('te+path', [h for h in replaced(':path', '/x') if h[0] != 'te']))
    out.append(('path+timeout', replaced(':path', '/x') + [('grpc-timeout', 'zz')]))
    out.append(('timeout+meta', BASE + [('grpc-timeout', 'zz'), ('x-bin', 'A')]))
    out.append(('expired+meta', BASE + [('grpc-timeout', '0n'), ('x-bin', 'A')]))
    out.append(('only-pseudo', [(':method', 'POST'), (':path', KNOWN_PATH)]))
    out.append(('nothing', [(':scheme', 'http')]))
    return out


def deadline_header(k):
    """a grpc-timeout that falls inside the k-th Sleep (sleeps last 1/64 s = 15625 us)"""
    return ('grpc-timeout', '%du' % ((2 * k + 1) * 7812))


def all_programs(depth, alphabet=None):
    for n in range(depth + 1):
        for ops in itertools.product(alphabet or OPS, repeat=n):
            yield list(ops)


def gen_random(rng, classes):
    n = rng.choice([3, 4, 5, 6, 7, 8, 10, 14])
    weights = rng.choice([[1, 1, 2, 1, 1, 1, 2], [2, 1, 3, 1, 1, 0.3, 3], [1, 2, 2, 2, 2, 2, 1]])
    ops = []
    for _ in range(n):
        o = rng.choices(OPS, weights)[0]
        if not isinstance(o, str) and rng.random() < 0.5:
            code = rng.choice([0, 0, 1, 2, 4, 12, 13, 16])
            o = ['T', code, rng.choice([None, 'm%d' % code, ''])]
        if o in ('I', 'M') and rng.random() < 0.2:
            o = o + rng.choice(['!a', '!h'])
        elif not isinstance(o, str) and rng.random() < 0.25:
            o = o[:3] + [rng.choice(['a', 'h'])]
        ops.append(o)
    if rng.random() < 0.25:
        ops.insert(rng.randrange(len(ops) + 1), 'P')
    fin = rng.choice(FINS + FINS_X)
    if fin[0] == 'grpc' and rng.random() < 0.7:
        code = rng.choice([0, 1, 2, 3, 4, 5, 8, 12, 14, 16])
        fin = ['grpc', code, rng.choice([None, 'why-%d' % code, ''] + TRICKY)]
    ops = [(['T', o[1], rng.choice(TRICKY)] + o[3:]) if (not isinstance(o, str) and rng.random() < 0.3) else o
           for o in ops]
    policy = rng.choice(['honour', 'honour', 'swallow'])
    fin2 = rng.choice(FIN2S)
    ext = rng.choice(['none', 'none', 'reset', 'close'])
    sleeps = sum(1 for o in ops if o == 'S')
    ext_at = rng.randrange(sleeps + 1) if (sleeps and rng.random() < 0.6) else None
    r = rng.random()
    if r < 0.12:
        headers = rng.choice(classes)[1]
        if ext == 'none':
            ext_at = None
    elif r < 0.5:
        headers = BASE
    elif ext == 'none' and ext_at is not None:
        headers = BASE + [deadline_header(ext_at)]
    else:
        headers = BASE + [FAR]
    if ext == 'none' and not any(h[0] == 'grpc-timeout' and h[1].endswith('u') for h in headers):
        ext_at = None
    body = dict(rng.choice(BODIES))
    body['framing'] = rng.choice(['one', 'split', 'sep'])
    codec = rng.choice([None] * 6 + CODECS)
    if codec is not None and rng.random() < 0.8:
        # mostly requests that speak the server's codec; the rest keeps whatever content-type the class has
        headers = [(k, 'application/grpc+' + codec) if (k == 'content-type' and v == 'application/grpc') else (k, v)
                   for k, v in headers]
    return mk(ops, fin, rng.choice(CARDS), body, headers, policy, fin2, ext, ext_at,
              paused0=rng.random() < 0.15, hooks_await=rng.random() < 0.3, big=rng.random() < 0.04, codec=codec,
              details=rng.choice([None, None, 'empty', 'obj', 'nested']))


def build_cases(ctx, res):
    rng = ctx.rng
    classes = request_classes()
    cases = []
    tags = []

    def add(tag, c):
        cases.append(c)
        tags.append(tag)
    # 1. request classes x body END_STREAM x a few programs
    for name, hs in classes:
        for body in ({'msgs': 1, 'partial': False, 'eof': True}, {'msgs': 1, 'partial': False, 'eof': False},
                     {'msgs': 0, 'partial': False, 'eof': True, 'framing': 'sep'}):
            for ops, fin, card in ((['R', 'M'], ['ret'], 'UU'), (['M', 'M'], ['grpc', 3, 'bad arg'], 'SS'),
                                   ([], ['wait'], 'US')):
                add('request-class', mk(ops, fin, card, body, hs))
    # 1b. the reply path suspends: every request class (refused, expired on arrival, about to expire, valid) x
    #     {transport paused before the request arrives, listeners that really await, both} x 4 cardinalities x
    #     END_STREAM -- _abort / __aexit__ have to get their one terminal out after a real suspension
    soon = [('expires-in-1n', BASE + [('grpc-timeout', '1n')]), ('expires-in-1u', BASE + [('grpc-timeout', '1u')])]
    for name, hs in classes + soon:
        about_to = name.startswith('expires-in')
        for paused0, hooks in ((True, False), (False, True), (True, True)):
            for card in CARDS:
                for eof in (True, False):
                    body = {'msgs': 1, 'partial': False, 'eof': eof}
                    for ops, fin in (((['S', 'M'], ['ret'])), (['R'], ['wait'])):
                        add('reply-path-suspends', mk(ops, fin, card, body, hs, ext_at=0 if about_to else None,
                                                      paused0=paused0, hooks_await=hooks))
    for ops in all_programs(2):                       # ... and short programs with awaiting listeners throughout
        for card in ('UU', 'SS'):
            for fin in FINS_X:
                if fin[0] != 'wait':
                    add('reply-path-suspends', mk(ops, fin, card, hooks_await=True))
    # 1e. servers with a non-default codec: every request class (as is, and with the content-type rewritten to the
    #     server's own where the class has the plain one) x END_STREAM, and every response shape (all programs to
    #     depth 2 x all endings) -- refusals, response HEADERS and trailers-only must speak the server's codec
    for codec in CODECS:
        own = 'application/grpc+' + codec
        for name, hs in classes + [('own-ct', replaced('content-type', own)),
                                   ('own-ct-x', replaced('content-type', own + 'x')),
                                   ('ct-codec-only', replaced('content-type', codec))]:
            variants = [hs]
            if any(k == 'content-type' and v == 'application/grpc' for k, v in hs):
                variants.append([(k, own) if k == 'content-type' else (k, v) for k, v in hs])
            for v in variants:
                for eof in (True, False):
                    for ops, fin, card in ((['R', 'M'], ['ret'], 'UU'), ([], ['grpc', 3, 'bad arg'], 'SS')):
                        add('codec', mk(ops, fin, card, {'msgs': 1, 'partial': False, 'eof': eof}, v, codec=codec))
        for ops in all_programs(2):
            for card in ('UU', 'SS'):
                for fin in FINS_X:
                    if fin[0] != 'wait':
                        add('codec', mk(ops, fin, card, codec=codec))
    # 1f. handlers that report errors WITH status details (none, [], an arbitrary object, a list of arbitrary
    #     objects) on servers with the default-subtype and with non-default codecs, no details codec configured:
    #     raised GRPCError and explicit trailers, before and after a message -- every call must still be answered
    for codec in [None] + CODECS:
        for det in ('empty', 'obj', 'nested'):
            for card in CARDS:
                for eof in (True, False):
                    body = {'msgs': 1, 'partial': False, 'eof': eof}
                    for ops, fin in (([], ['grpc', 9, 'why']), (['M'], ['grpc', 3, None]), (['R', 'I'], ['grpc', 16, 'x']),
                                     ([['T', 5, 'nf']], ['ret']), (['M', ['T', 0, None]], ['ret']),
                                     (['M', ['T', 13, 'boom']], ['exc']), (['S'], ['wait'])):
                        add('details', mk(ops, fin, card, body, None if fin[0] != 'wait' else
                                          (replaced('content-type', 'application/grpc+' + codec) if codec else BASE) + [FAR],
                                          policy='swallow', fin2=['grpc', 4, 'late'], codec=codec, details=det))
    # 1d. replies larger than the client's connection window (it advertises 1 MiB per stream, 65535 per
    #     connection, and returns connection-level credit as it reads): the reply path depends on that credit
    for ops in ([ 'M'], ['M', 'M'], ['R', 'M', 'S', 'M'], ['I', 'M', ['T', 0, None]], ['M', ['T', 5, 'nf']],
                ['M', 'M', 'M', 'C']):
        for card in CARDS:
            for eof in (True, False):
                for fin in (['ret'], ['exc'], ['grpc', 8, 'big']):
                    add('big-reply', mk(ops, fin, card, {'msgs': 1, 'partial': False, 'eof': eof},
                                        BASE + [FAR] if eof else BASE, big=True))
    # 1c. messages that need escaping: the decoded grpc-message must be the raised / the explicit one
    for msg in TRICKY:
        for card in ('UU', 'SS'):
            add('tricky-message', mk(['M'], ['grpc', 9, msg], card))
            add('tricky-message', mk(['M', ['T', 11, msg]], ['ret'], card))
            add('tricky-message', mk([['T', 3, msg]], ['exc'], card, {'msgs': 1, 'partial': False, 'eof': False}))
    # 2. handler programs, exhaustive to the depth bound, x 4 cardinalities x 5 endings (standard request)
    # enumeration DEPTHS depend on the tier only (ctx.n() multiplies by 3 in search mode, which must never reach an
    # exponent); in search mode (leg 3) the enumerations keep their quick depth and only the PRNG samples grow
    deep = ctx.tier == 'thorough' and not ctx.search
    depth = 5 if deep else 4
    res.extra['exhaustive_depth'] = depth
    for ops in all_programs(depth):
        for card in CARDS:
            if len(ops) > 4 and card in ('US', 'SU'):
                continue                # depth 5 (thorough): the two pure cardinalities only
            for fin in FINS:
                if fin[0] == 'wait':
                    continue            # without an event a waiting handler hangs: covered in 3.
                add('exhaustive', mk(ops, fin, card))
    # 2b. the extended alphabet (calls failing part-way, paused transport) x every ending incl. the handler's
    #     own TimeoutError / StreamTerminatedError / ProtocolError x {no deadline, deadline far away}
    dx = 3 if deep else 2
    res.extra['exhaustive_depth_extended_alphabet'] = dx
    for ops in all_programs(dx, OPS_X):
        for card in ('UU', 'SS'):
            for fin in FINS_X:
                for hs in (BASE, BASE + [FAR]):
                    if fin[0] == 'wait' and hs is BASE:
                        continue
                    add('exhaustive-extended', mk(ops, fin, card, None, hs))
    for ops in all_programs(1, OPS_X):          # ... and with the client side still open / a swallowed deadline
        for card in CARDS:
            for fin in FINS_X:
                for pol, fin2 in (('honour', None), ('swallow', ['exc', 'timeout']), ('swallow', ['base'])):
                    add('exhaustive-extended', mk(ops, fin, card, {'msgs': 1, 'partial': False, 'eof': False},
                                                  BASE + [FAR], pol, fin2))
    # 3. environment matrix on short programs: bodies x END_STREAM x events x policies x deadline
    d2 = 3 if deep else 2
    env = []
    for ops in all_programs(d2):
        for fin in FINS + [['exc', 'timeout']]:
            for card in ('UU', 'SS'):
                for body in BODIES:
                    for ext in ('none', 'reset', 'close'):
                        for pol, fin2 in (('honour', None), ('swallow', ['ret']), ('swallow', ['base']),
                                          ('swallow', ['grpc', 7, None]), ('swallow', ['exc', 'timeout'])):
                            for tmo in (False, True):
                                env.append((ops, fin, card, body, ext, pol, fin2, tmo))
    want = 27000 if ctx.search else ctx.n(9000, 120000)
    if len(env) > want:
        env = rng.sample(env, want)
    else:
        res.extra['environment_matrix_complete'] = True
    for ops, fin, card, body, ext, pol, fin2, tmo in env:
        add('environment', mk(ops, fin, card, body, BASE + [FAR] if tmo else BASE, pol, fin2, ext))
    # 4. PRNG: deeper programs, events during a Sleep, deadline inside a Sleep, framings, any request class
    for _ in range(15000 if ctx.search else ctx.n(5000, 60000)):
        add('random', gen_random(rng, classes))
    return cases, tags


# ---- running ---------------------------------------------------------------------------------------------

def _worker(case):
    try:
        return c03_impl.run_case(case)
    except Exception as e:                      # the harness itself failed on this case
        import traceback
        return {'harness_error': traceback.format_exc()[-800:]}


def impl_batch(cases):
    if len(cases) < 400 or os.environ.get('VERIF_SERIAL'):
        return [_worker(c) for c in cases]
    try:
        import multiprocessing as mp
        n = max(1, min(8, (os.cpu_count() or 2) // 2))
        with mp.get_context('fork').Pool(n) as pool:
            return pool.map(_worker, cases, chunksize=200)
    except Exception:
        return [_worker(c) for c in cases]


def check_cases(ctx, res, cases, tags=None):
    tags = tags or ['replay'] * len(cases)
    CH = 40000
    if len(cases) > CH:                 # bounded memory in the thorough tier
        for a in range(0, len(cases), CH):
            check_cases(ctx, res, cases[a:a + CH], tags[a:a + CH])
        return
    model = None
    if ctx.model_ok:
        model = ctx.model([model_line(c) for c in cases])
    observed = impl_batch(cases)
    for i, (case, obs) in enumerate(zip(cases, observed)):
        res.evaluations += 1
        if 'harness_error' in obs:
            res.disagreements.append({'case': case, 'model': None, 'impl': obs})
            continue
        can = canon_impl(obs, case)
        res.count('tag:' + tags[i])
        res.count('card:' + case['card'])
        res.count('len:%d' % min(len(case['ops']), 9))
        res.count('end:' + can['end'])
        for r in can['results']:
            res.count('result:' + r)
        res.count('frames:' + ''.join(f[0] for f in can['frames']))
        res.signatures.add((case['card'], bool(case['body'].get('eof')), tuple(can['results']), can['end'],
                            ''.join(f[0] for f in can['frames'])))
        if tags[i] in ('request-class', 'random'):
            res.sample({'case': case, 'observed': can}, limit=4)
        if model is not None:
            res.traces += 1
            m = parse_model(model[i])
            if 'error' in m:
                res.disagreements.append({'case': case, 'model': m, 'impl': can})
            else:
                res.count('model-verdict:' + m['verdict'])
                mm = {'frames': m['frames'], 'results': m['results'], 'end': m['end']}
                if mm != can:
                    res.disagreements.append({'case': case, 'model': mm, 'impl': can})
        for what, sig in oracle(case, obs, can):
            res.oracle_failures.append({'case': case, 'what': what, 'signature': sig, 'observed': can})


def unjson(case):
    c = dict(case)
    c['headers'] = [list(h) for h in case['headers']]
    c['ops'] = [o if isinstance(o, str) else list(o) for o in case['ops']]
    return c


def run(ctx):
    res = Result()
    res.rule = ('(1) a covering set of ~90 request header lists (every check of request_handler failing alone and in '
                'pairs, duplicates, timeout and -bin spellings) x END_STREAM timing x 3 programs; (1b) the same request '
                'classes plus deadlines about to expire (1n, 1u) x {transport paused before the request arrives, listeners '
                'on all five hooks that really await, both} x 4 cardinalities x END_STREAM, and all programs to depth 2 x '
                '8 endings with awaiting listeners; (1f) GRPCError / explicit trailers carrying status details (none, [], arbitrary object, list of arbitrary '
                'objects) on default- and non-default-codec servers x 4 cardinalities x END_STREAM x 7 programs; '
                '(1d) 100000-byte replies to a client that advertises 1 MiB per stream / '
                '65535 per connection and returns connection-level credit as it reads; (1e) servers built with a non-default '
                'codec (content subtypes json, x.my-codec): every request class as is and with the server\'s own content-type '
                'x END_STREAM, all programs to depth 2 x 7 endings x {UU,SS}; (1c) GRPCError / explicit-trailer messages that need escaping (%41, '
                'a%2Fb, 100%25, lone %, non-ASCII, control characters), compared after percent-decoding; (2) ALL handler '
                'programs over the 7-letter alphabet {R,I,M,T(OK),T(NOT_FOUND),C,S} up to the depth bound (4 quick; thorough 5 '
                'for UU and SS, 4 for US and SU) x 4 '
                'cardinalities x {return, raise GRPCError(ABORTED), raise GRPCError(OK), raise Exception, raise BaseException}; '
                '(2b) ALL programs over the 14-letter alphabet that adds the part-way failing calls I!a I!h M!a M!h T!a T!h '
                '(a = invalid metadata / refused message, h = raising listener) and P (transport paused) up to depth 2 '
                '(quick) / 3 (thorough) x {UU,SS} x 8 endings incl. the handler\'s own TimeoutError / StreamTerminatedError / '
                'ProtocolError x {no deadline, deadline far away}, plus depth 1 x 4 cardinalities x client side open x '
                '{honour, swallow+own TimeoutError, swallow+BaseException}; (3) short programs x '
                '9 request bodies (none/partial/complete/excess x END_STREAM) x {no event, client RST, Server.close} x '
                '{honour, swallow+return, swallow+BaseException, swallow+GRPCError} x {no deadline, deadline}; '
                '(4) PRNG programs of length 3..14 with events during a chosen Sleep, deadlines falling inside a '
                'Sleep, three DATA framings.  distinct = distinct (cardinality, END_STREAM, per-call results, handler '
                'end, frame kinds) behaviours observed on the implementation')
    corpus = [unjson(c['case'] if 'case' in c else c) for c in ctx.corpus()]
    cases, tags = build_cases(ctx, res)
    hints = [unjson(h) for h in getattr(ctx, 'hints', []) if isinstance(h, dict) and 'ops' in h]
    cases = corpus + hints + cases
    tags = ['corpus'] * len(corpus) + ['hint'] * len(hints) + tags
    check_cases(ctx, res, cases, tags)
    res.exhaustive = True      # part (2) is a complete enumeration up to extra['exhaustive_depth']
    return res


def replay(ctx, case):
    res = Result()
    check_cases(ctx, res, [unjson(case)])
    return res
