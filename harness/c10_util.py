"""C10 -- running one scenario on the real grpclib and recording (a) the trace of model ops with the
outcome the implementation showed for each, (b) snapshots of the observable bookkeeping at instants
where nothing is runnable, (c) the facts the direct oracle needs.

Two set-ups:
  link    real client Channel <-> real Server protocol over a subclass of harness.wire.Link (bytes
          re-cut by a PRNG cutter); handlers scripted per call;
  client  real client Channel (harness.wire.ClientEnd) <-> scripted server-side h2 peer.

Nothing in /repo is touched: the instrumentation replaces *instance* attributes of the h2 connections,
of `processor.register` and of `handler.accept` from outside, only to LOG which API call was made for
which call and whether it raised.  The trace tokens are those of ocaml/dC10.ml.
"""
import asyncio
import random
import sys

from h2.exceptions import TooManyStreamsError
from h2.events import RequestReceived
from h2.settings import SettingCodes
from h2.stream import StreamState

from grpclib.client import Channel, UnaryUnaryMethod, StreamStreamMethod
from grpclib.const import Status
from grpclib.exceptions import GRPCError, StreamTerminatedError
from grpclib.server import Server

from harness import vloop, wire, peer as P
from harness.svc import RawCodec, Service, exc_name

MCS = SettingCodes.MAX_CONCURRENT_STREAMS
LETTER = {StreamState.IDLE: 'i', StreamState.OPEN: 'o', StreamState.HALF_CLOSED_LOCAL: 'l',
          StreamState.HALF_CLOSED_REMOTE: 'r', StreamState.CLOSED: 'c'}
FINAL_SPAN = 3000.0          # beyond every scripted sleep / deadline, below the 7200 s keepalive


class Abort(BaseException):
    """an application BaseException that is not an Exception (KeyboardInterrupt-like, but harmless
    to the event loop)"""


class AppError(Exception):
    pass


class CallState:
    def __init__(self):
        self.sid = None            # client stream id once opened
        self.blocked = False       # last open attempt hit TooManyStreamsError, not retried yet
        self.opened = False
        self.opened_at = None
        self.exited = False        # X emitted
        self.in_cancel = False
        self.task = None
        self.c_result = None
        self.accepted = False      # server side
        self.hphase = None         # None | 'body' | 'exiting'
        self.hend = None           # None | 'return' | 'Exception' | 'BaseException'
        self.hend_name = None
        self.in_scancel = False
        self.released = False      # q emitted
        self.s_end_sent = False
        self.s_rst_sent = False
        self.exit_trailers = None  # None | 'ok' | 'nonok'   (trailers written while exiting)
        self.nonok_sent = False    # non-OK trailers were written (explicitly or while exiting)
        self.sh_at_exit = None     # server h2 letter right after the handler was released
        self.exit_exc = None       # class of the exception leaving request_handler ('BaseException' | 'Exception' | None)
        self.pstream = None        # server protocol.Stream
        self.cstream = None        # client Stream (for its wrapper's task set)
        self.rst_delivered = False # a client RST_STREAM for this call was delivered to the server


class Run:
    """state of one scenario run: trace, per-call facts, pending wire entries"""

    def __init__(self, ncalls, mode):
        self.mode = mode
        self.n = ncalls
        self.st = [CallState() for _ in range(ncalls)]
        self.tokens = []           # model tokens
        self.expect = []           # what the implementation showed for each token
        self.snaps = []            # (index into tokens, snapshot dict)
        self.pend = {'c2s': [], 's2c': []}
        self.sid2c = {}
        self.enabled = True
        self.notes = []
        self.checks = []           # oracle findings collected at checkpoints
        self.held = {}             # client set-up: RST written at context exit, reported after the X op
        self.h2_dirty = False      # an RST queued by the client's h2 API has not been taken by data_to_send yet
        self.unobservable = []     # components that could not be located by role on this source tree

    def op(self, tok, exp):
        if self.enabled:
            self.tokens.append(tok)
            self.expect.append(exp)

    def sent(self, d, item):
        if self.enabled:
            self.pend[d].append(item)

    def take(self, d):
        e, self.pend[d] = self.pend[d], []
        return e

    def delivered(self, d, entries):
        for it in entries:
            if it[0] == 'S':
                self.op('S', '-')
            else:
                self.op(('d:%d' if d == 'c2s' else 'D:%d') % it[1], '-')
                if d == 'c2s' and it[0] == 'R':
                    self.st[it[1]].rst_delivered = True     # a client RST_STREAM reached the server

    def written(self, d, entries):
        """a transport write carried these entries; frames that had been held back in the client's h2
        buffer (reset_nowait while paused) reach the wire now: that is the model's CFlush"""
        if d == 'c2s' and any(len(it) > 2 and 'held' in it[2] for it in entries):
            self.op('F', '-')

    def held_calls(self):
        return sorted(it[1] for it in self.pend['c2s'] if len(it) > 2 and 'held' in it[2])


def call_of_headers(headers):
    for k, v in headers:
        if k == 'x-call' or k == b'x-call':
            v = v.decode() if isinstance(v, bytes) else v
            return int(v) if v.isdigit() else None
    return None


def is_trailers(headers):
    for k, v in headers:
        if k == 'grpc-status':
            return v
    return None



# ---- finding things by ROLE, not by (private) name -------------------------------------------------

def find_h2(proto):
    """the H2Connection this protocol drives: the attribute (of the protocol's connection object, else
    of the protocol or its processor) whose value IS an h2.connection.H2Connection"""
    from h2.connection import H2Connection
    for holder in (getattr(proto, 'connection', None), proto, getattr(proto, 'processor', None)):
        if holder is None:
            continue
        try:
            vals = list(vars(holder).values())
        except TypeError:
            continue
        for v in vals:
            if isinstance(v, H2Connection):
                return v
    return None


def tasks_in(coll):
    """asyncio tasks held by a collection attribute (as elements, keys or values)"""
    out = []
    try:
        items = list(coll.values()) + list(coll.keys()) if isinstance(coll, dict) else list(coll)
    except Exception:
        return out
    for x in items:
        if isinstance(x, asyncio.Future) and hasattr(x, 'get_coro'):
            out.append(x)
    return out


def task_collections(obj):
    """{attribute name: [tasks]} for every collection attribute of obj that currently holds tasks"""
    out = {}
    try:
        items = list(vars(obj).items())
    except TypeError:
        return out
    for name, val in items:
        if isinstance(val, (dict, set, frozenset, list, tuple)) or type(val).__name__ in ('deque', 'WeakSet'):
            ts = tasks_in(val)
            if ts:
                out[name] = ts
    return out


def find_wrappers(obj):
    """the per-call cancellation wrappers reachable from a client Stream / protocol stream: attribute values
    that are grpclib.utils.Wrapper instances"""
    from grpclib.utils import Wrapper
    try:
        return [v for v in vars(obj).values() if isinstance(v, Wrapper)]
    except TypeError:
        return []


class ServerStandIn:
    """what grpclib.Server needs from the object loop.create_server returns"""
    def close(self):
        pass

    async def wait_closed(self):
        pass


def server_factory(loop, server):
    """Server.start() through its public API: the loop's create_server tells us the protocol factory"""
    got = {}

    async def create_server(factory, *a, **kw):
        got['factory'] = factory
        return ServerStandIn()
    loop.create_server = create_server
    try:
        t = loop.create_task(server.start('127.0.0.1', 0))
        loop.run_quiet(0.0)
        if not t.done() or t.exception() is not None or 'factory' not in got:
            raise RuntimeError('Server.start() did not complete on the virtual loop')
    finally:
        del loop.create_server
    return got['factory']


def warm_up(run, loop, channel):
    """open the connection through the public API: one untraced unary call"""
    run.enabled = False
    m = UnaryUnaryMethod(channel, '/v.S/U', bytes, bytes)
    t = loop.create_task(m(b'warm', metadata=[('x-call', 'warm')]))
    loop.run_quiet(0)
    run.enabled = True
    o = vloop.outcome(t)
    if o != ('ok', b'probe-reply'):
        raise RuntimeError('connection set-up failed: %r' % (o,))


class Unobservable(Exception):
    """the scenario cannot be observed on this source tree (an object could not be located by role)"""


# ---- instrumentation (logging only) ---------------------------------------------------------------

def wrap_client(run, cproto):
    ch2 = find_h2(cproto)
    if ch2 is None:
        raise Unobservable('client h2 connection')
    proc = cproto.processor
    st = run.st
    o_sh, o_sd, o_rs, o_reg = ch2.send_headers, ch2.send_data, ch2.reset_stream, proc.register
    o_es = ch2.end_stream

    def send_headers(stream_id, headers, end_stream=False, **kw):
        c = call_of_headers(headers)
        try:
            r = o_sh(stream_id, headers, end_stream=end_stream, **kw)
        except TooManyStreamsError:
            if c is not None:
                run.op('o:%d:%d' % (c, int(bool(end_stream))), 'B')
                st[c].blocked = True
            raise
        if c is not None:
            run.op('o:%d:%d' % (c, int(bool(end_stream))), 'O')
            st[c].sid, st[c].opened, st[c].blocked = stream_id, True, False
            st[c].opened_at = asyncio.get_event_loop().time()
            run.sid2c[stream_id] = c
            run.sent('c2s', ('H', c))
        return r

    def send_data(stream_id, data, end_stream=False, **kw):
        c = run.sid2c.get(stream_id)
        if not end_stream or c is None:
            return o_sd(stream_id, data, end_stream=end_stream, **kw)
        try:
            r = o_sd(stream_id, data, end_stream=end_stream, **kw)
        except Exception:
            run.op('e:%d' % c, 'R')
            raise
        run.op('e:%d' % c, '-')
        run.sent('c2s', ('E', c))
        return r

    def end_stream(stream_id):
        c = run.sid2c.get(stream_id)
        if c is None:
            return o_es(stream_id)
        try:
            r = o_es(stream_id)
        except Exception:
            run.op('e:%d' % c, 'R')
            raise
        run.op('e:%d' % c, '-')
        run.sent('c2s', ('E', c))
        return r

    def reset_stream(stream_id, *a, **kw):
        c = run.sid2c.get(stream_id)
        if c is None:
            return o_rs(stream_id, *a, **kw)
        try:
            r = o_rs(stream_id, *a, **kw)
        except Exception:
            if st[c].in_cancel:
                run.op('x:%d' % c, 'R')
            raise
        if st[c].in_cancel:
            run.op('x:%d' % c, '-')
        # an RST written at context exit belongs to the X op (the model emits it there); when writing is
        # paused reset_nowait leaves it in h2's buffer until the next write of any kind
        run.h2_dirty = True
        if st[c].in_cancel:
            run.sent('c2s', ('R', c))
        else:
            flags = {'exit'} | (set() if cproto.connection.write_ready.is_set() else {'held'})
            run.sent('c2s', ('R', c, frozenset(flags)))
        return r

    def register(stream):
        rel = o_reg(stream)

        def release():
            present = stream.id in proc.streams
            c = run.sid2c.get(stream.id)
            if present and c is not None and not st[c].exited:
                # logged before the real release runs: release_stream may itself write (ack) and so
                # flush an RST that reset_nowait had to leave in h2's buffer
                st[c].exited = True
                run.op('X:%d' % c, '-')
                run.delivered('c2s', run.held.pop(c, []))
            rel()
        return release

    o_dts = ch2.data_to_send

    def data_to_send(*a, **kw):
        # h2's public API: whatever the client's API calls queued leaves h2's send buffer here
        run.h2_dirty = False
        return o_dts(*a, **kw)

    ch2.send_headers, ch2.send_data, ch2.reset_stream = send_headers, send_data, reset_stream
    ch2.end_stream = end_stream
    ch2.data_to_send = data_to_send
    proc.register = register


def wrap_server(run, sproto):
    sh2 = find_h2(sproto)
    if sh2 is None:
        raise Unobservable('server h2 connection')
    proc = sproto.processor
    handler = sproto.handler
    st = run.st
    ssid2c = run.ssid2c = {}
    o_sh, o_rs, o_accept = sh2.send_headers, sh2.reset_stream, handler.accept

    def letter(sid):
        s = sh2.streams.get(sid)
        return 'c' if s is None else LETTER[s.state_machine.state]

    def send_headers(stream_id, headers, end_stream=False, **kw):
        c = ssid2c.get(stream_id)
        status = is_trailers(headers)
        if c is None or not end_stream:
            return o_sh(stream_id, headers, end_stream=end_stream, **kw)
        nonok = status != '0'
        explicit = st[c].hphase == 'body'
        try:
            r = o_sh(stream_id, headers, end_stream=end_stream, **kw)
        except Exception:
            if explicit:
                run.op('t:%d:%d' % (c, int(nonok)), 'R')
            raise
        if explicit:
            run.op('t:%d:%d' % (c, int(nonok)), '-')
        else:
            st[c].exit_trailers = 'nonok' if nonok else 'ok'
        st[c].s_end_sent = True
        st[c].nonok_sent = st[c].nonok_sent or nonok
        run.sent('s2c', ('E', c))
        return r

    def reset_stream(stream_id, *a, **kw):
        c = ssid2c.get(stream_id)
        if c is None:
            return o_rs(stream_id, *a, **kw)
        try:
            r = o_rs(stream_id, *a, **kw)
        except Exception:
            if st[c].in_scancel:
                run.op('r:%d' % c, 'R')
            raise
        if st[c].in_scancel:
            run.op('r:%d' % c, '-')
        st[c].s_rst_sent = True
        run.sent('s2c', ('R', c))
        return r

    def accept(stream, headers, release_stream):
        c = call_of_headers(headers)
        if c is None:
            return o_accept(stream, headers, release_stream)
        ssid2c[stream.id] = c
        st[c].accepted = True
        st[c].pstream = stream

        def release():
            present = stream.id in proc.streams
            release_stream()
            if present and not st[c].released:
                st[c].released = True
                s = st[c]
                # request_handler releases in its `finally`: the exception that is leaving it (if any) is
                # visible here.  A BaseException that is not an Exception means that nothing terminal was
                # sent by Stream.__aexit__: it either came out of the handler body (D4) or landed inside
                # __aexit__ while send_trailing_metadata was waiting for write_ready (D48).  No exception
                # context and no recorded end = the task was cancelled before its first step.
                exc = sys.exc_info()[1]
                s.reset_before_exit = s.rst_delivered      # a client RST had reached the server by now
                s.exit_exc = None if exc is None else ('Exception' if isinstance(exc, Exception) else 'BaseException')
                ht = getattr(s, 'htask', None)
                if exc is None and ht is not None and ht.done():
                    # released from a done-callback: the task's own outcome tells how request_handler ended
                    te = None if ht.cancelled() else ht.exception()
                    if ht.cancelled() or (te is not None and not isinstance(te, Exception)):
                        s.exit_exc = 'BaseException'
                if s.exit_exc == 'BaseException' or s.hend is None:
                    kind = 'base'
                elif s.exit_trailers == 'nonok':
                    kind = 'err'
                elif s.exit_trailers == 'ok':
                    kind = 'ok'
                else:
                    kind = 'ok' if s.hend == 'return' else 'err'
                s.kind = kind
                s.sh_at_exit = letter(stream.id)
                run.op('q:%d:%s' % (c, kind), '-')
        # which task serves this stream: the one created through the loop's public create_task while
        # accept runs (asyncio.all_tasks() walks every task of the process and made long runs quadratic)
        loop = asyncio.get_event_loop()
        created, orig_ct = [], loop.create_task

        def create_task(coro, **kw):
            tk = orig_ct(coro, **kw)
            created.append(tk)
            return tk
        loop.create_task = create_task
        try:
            r = o_accept(stream, headers, release)
        finally:
            del loop.create_task
        st[c].htask = created[0] if len(created) == 1 else None
        return r

    sh2.send_headers, sh2.reset_stream = send_headers, reset_stream
    handler.accept = accept


class TLink(wire.Link):
    """harness.wire.Link that carries, with every written chunk, the modelled frames it contains"""

    def __init__(self, loop, a, b, cutter, run):
        super().__init__(loop, a, b, cutter)
        self.run = run

    def _send(self, dst, data):
        self.bytes[id(dst)] += len(data)
        d = 'c2s' if dst is self.tb else 's2c'
        entries = self.run.take(d)
        self.run.written(d, entries)
        self.loop.call_soon(self._deliver2, dst, data, d, entries)

    def _deliver2(self, dst, data, d, entries):
        if dst.lost or dst.closing:
            return
        self.run.delivered(d, entries)
        dst.feed(data, self.cutter(data) if self.cutter else None)


# ---- scripted behaviour ---------------------------------------------------------------------------

async def client_steps(run, c, s, steps):
    st = run.st[c]
    for step in steps:
        if step == 'req':
            await s.send_request()
        elif step == 'reqend':
            await s.send_request(end=True)
        elif step == 'msg':
            await s.send_message(b'm')
        elif step == 'msgend':
            await s.send_message(b'm', end=True)
        elif step == 'end':
            await s.end()
        elif step == 'recv':
            await s.recv_message()
        elif step == 'recvall':
            while (await s.recv_message()) is not None:
                pass
        elif step == 'cancel':
            st.in_cancel = True
            try:
                await s.cancel()
            finally:
                st.in_cancel = False
        elif step.startswith('sleep:'):
            await asyncio.sleep(float(step[6:]))
        elif step == 'raise':
            raise AppError()
        elif step == 'ret':
            return
        else:
            raise ValueError(step)


async def client_call(run, channel, c, spec):
    st = run.st[c]
    cls = UnaryUnaryMethod if spec['card'] == 'UU' else StreamStreamMethod
    m = cls(channel, '/v.S/' + ('U' if spec['card'] == 'UU' else 'S'), bytes, bytes)
    try:
        async with m.open(timeout=spec.get('deadline'), metadata=[('x-call', str(c))]) as s:
            st.cstream = s
            await client_steps(run, c, s, spec['client'])
        st.c_result = 'ok'
    except BaseException as e:
        st.c_result = exc_name(e)
    finally:
        if not st.exited:
            st.exited = True
            run.op('X:%d' % c, '-')        # never registered: nothing to release


async def handler_steps(run, c, stream, steps):
    st = run.st[c]
    for step in steps:
        if step == 'recv':
            await stream.recv_message()
        elif step == 'recvall':
            while (await stream.recv_message()) is not None:
                pass
        elif step == 'initial':
            await stream.send_initial_metadata()
        elif step == 'send':
            await stream.send_message(b'r')
        elif step.startswith('trailers:'):
            await stream.send_trailing_metadata(status=Status(int(step[9:])))
        elif step == 'cancel':
            st.in_scancel = True
            try:
                await stream.cancel()
            finally:
                st.in_scancel = False
        elif step.startswith('sleep:'):
            await asyncio.sleep(float(step[6:]))
        elif step == 'return':
            return
        elif step.startswith('grpc:'):
            raise GRPCError(Status(int(step[5:])), 'scripted')
        elif step == 'exc':
            raise RuntimeError('scripted')
        elif step == 'base':
            raise Abort()
        elif step == 'selfcancel':
            asyncio.current_task().cancel()
            await asyncio.sleep(0)
        else:
            raise ValueError(step)


def make_service(run, specs):
    async def h(stream):
        v = (stream.metadata or {}).get('x-call')
        if v is None or not v.isdigit():         # the probe call
            await stream.recv_message()
            await stream.send_message(b'probe-reply')
            return
        c = int(v)
        st = run.st[c]
        st.hphase = 'body'
        try:
            try:
                await handler_steps(run, c, stream, specs[c]['server'])
            except asyncio.CancelledError:
                if specs[c].get('swallow'):
                    st.hend, st.hend_name = 'return', 'swallowed-cancel'
                    return
                raise
            st.hend, st.hend_name = 'return', 'return'
        except Exception as e:
            st.hend, st.hend_name = 'Exception', exc_name(e)
            raise
        except BaseException as e:
            st.hend, st.hend_name = 'BaseException', type(e).__name__
            raise
        finally:
            st.hphase = 'exiting'
    return Service('v.S', {'U': (h, 'UU'), 'S': (h, 'SS')})


def make_cutter(seed, mode):
    rng = random.Random(seed)

    def cutter(data):
        if mode == 'none' or len(data) < 2:
            return None
        if mode == 'small':
            return list(range(1, len(data), rng.choice([1, 2, 3, 7])))
        return [rng.randint(1, len(data) - 1) for _ in range(rng.choice([0, 1, 2, 5]))]
    return cutter


# ---- snapshots ------------------------------------------------------------------------------------

def h2_letter(h2c, sid):
    if sid is None:
        return 'i'
    s = h2c.streams.get(sid)
    return 'c' if s is None else LETTER[s.state_machine.state]


def snapshot(run, env, final=False):
    ch2, sh2 = env['ch2'], env['sh2']
    st = run.st
    snap = {
        'creg': len(env['cproto'].processor.streams),
        'sreg': len(env['sproto'].processor.streams) if env.get('sproto') is not None else None,
        'out': ch2.open_outbound_streams,
        'in': sh2.open_inbound_streams,
        'waiting': [c for c in range(run.n) if st[c].blocked and not st[c].exited and not st[c].opened],
        'opened': [c for c in range(run.n) if st[c].opened and not st[c].exited],
        'maxc': ch2.remote_settings.max_concurrent_streams,
        'h2': [h2_letter(ch2, st[c].sid) + h2_letter(sh2, st[c].sid if (run.mode == 'client' or st[c].accepted) else None)
               for c in range(run.n)],
        'final': final,
        't': env['loop'].time(),
        'paused': not env['cproto'].connection.write_ready.is_set(),
        # an RST_STREAM queued through h2's public API and not yet taken by data_to_send() (nothing else
        # is ever left there between loop iterations: every other API call is followed by a write)
        'buffered': run.h2_dirty,
        'held': run.held_calls(),
        'pending_tasks': [c for c in range(run.n) if st[c].task is not None and not st[c].task.done()],
        'released': [c for c in range(run.n) if st[c].released],
        'exited': [c for c in range(run.n) if st[c].exited],
    }
    run.op('K', None)
    run.snaps.append((len(run.tokens) - 1, snap))
    return snap


# ---- the two set-ups ------------------------------------------------------------------------------

def settings_payload(n, extra):
    """one SETTINGS frame: MAX_CONCURRENT_STREAMS together with other settings (PRNG choice of the case)"""
    d = {MCS: n}
    for x in (extra or []):
        if x[0] == 'iws':
            d[SettingCodes.INITIAL_WINDOW_SIZE] = int(x[1])
        elif x[0] == 'mfs':
            d[SettingCodes.MAX_FRAME_SIZE] = int(x[1])
        elif x[0] == 'hts':
            d[SettingCodes.HEADER_TABLE_SIZE] = int(x[1])
        elif x[0] == 'unknown':
            d[int(x[1])] = int(x[2])
    # INITIAL_WINDOW_SIZE first / last in the frame does not matter to h2; keep dict order as given
    return d


def client_pause(run, env, on):
    tr = env['ctransport']
    if on and not tr.paused:
        run.op('P', '-')
        tr.pause()
    elif not on and tr.paused:
        run.op('U', '-')
        tr.resume()


def timeline(case):
    acts = []
    for c, spec in enumerate(case['calls']):
        acts.append((float(spec['start']), 0, ('start', c)))
    for ev in case.get('events', []):
        acts.append((float(ev['t']), 1, (ev['ev'], ev)))
    acts.sort(key=lambda a: (a[0], a[1]))
    return acts


def run_link(case):
    calls = case['calls']
    run = Run(len(calls), 'link')
    with vloop.session() as loop:
        server = Server([make_service(run, calls)], codec=RawCodec())
        sfactory = server_factory(loop, server)
        channel = Channel('127.0.0.1', 50051, codec=RawCodec())
        env = {'loop': loop}

        async def create_connection(factory, *a, **kw):
            # asyncio's public loop API is where the Channel asks for a transport
            cp, sp = factory(), sfactory()
            link = TLink(loop, cp, sp, make_cutter(case.get('cut_seed', 0), case.get('cut', 'none')), run)
            sp.connection_made(link.tb)
            cp.connection_made(link.ta)
            env.update(cproto=cp, sproto=sp, link=link, ch2=find_h2(cp), sh2=find_h2(sp))
            wrap_client(run, cp)
            wrap_server(run, sp)
            return link.ta, cp
        loop.create_connection = create_connection
        warm_up(run, loop, channel)
        run.maxc0 = env['ch2'].remote_settings.max_concurrent_streams

        env['ctransport'] = env['link'].ta

        def announce(n, extra=None):
            env['sh2'].update_settings(settings_payload(n, extra))
            run.op('s:%d' % n, '-')
            run.sent('s2c', ('S', n))
            env['sproto'].connection.flush()

        if case.get('limit0'):
            announce(case['limit0'])
            loop.run_quiet(0)
        snapshot(run, env)
        for t, _, act in timeline(case):
            loop.run_until(t)
            if act[0] == 'start':
                c = act[1]
                run.st[c].task = loop.create_task(client_call(run, channel, c, calls[c]))
            elif act[0] == 'settings':
                announce(act[1]['n'], act[1].get('extra'))
            elif act[0] == 'srvclose':
                env['sproto'].handler.close()          # what Server.close() does for every connection
            elif act[0] == 'taskcancel':
                tk = run.st[act[1]['c']].task
                if tk is not None:
                    tk.cancel()
            elif act[0] in ('pause', 'resume'):
                client_pause(run, env, act[0] == 'pause')
            elif act[0] == 'spause':
                env['link'].tb.pause()                 # the server's transport: only delays its writes
            elif act[0] == 'sresume':
                env['link'].tb.resume()
            loop.run_quiet(0)
            check(run, snapshot(run, env))
        loop.run_quiet(FINAL_SPAN / 2)
        # back-pressure ends: both transports writable again, then run to quiescence
        client_pause(run, env, False)
        env['link'].tb.resume()
        r = loop.run_quiet(FINAL_SPAN / 2)
        check(run, snapshot(run, env, final=True))
        run.quiet = r
        run.conn_closed = env['cproto'].connection.is_closing()
        aggregate(run, env['sproto'].handler)
        probe(run, env, channel, lambda: (env['sh2'].update_settings({MCS: 1}),
                                          env['sproto'].connection.flush()))
        try:
            channel.close()
        except Exception:
            pass
        loop.run_quiet(1)
        run.unhandled = len(loop.unhandled)
    return run


def run_client(case):
    calls = case['calls']
    run = Run(len(calls), 'client')
    with vloop.session() as loop:
        channel = Channel('127.0.0.1', 50051, codec=RawCodec())
        env = {'loop': loop, 'sproto': None}
        peer = P.Peer(client_side=False)

        async def create_connection(factory, *a, **kw):
            proto = factory()
            tr = wire.MemTransport(proto, loop, on_write=lambda d: on_write(d))
            peer.attach(tr)
            peer.start()
            proto.connection_made(tr)
            peer.flush()
            env.update(cproto=proto, ch2=find_h2(proto), sh2=peer.h2, peer=peer, ctransport=tr)
            wrap_client(run, proto)
            return tr, proto
        loop.create_connection = create_connection
        psid = {}

        def popen(sid):
            s = peer.h2.streams.get(sid)
            return s is not None and not s.closed

        def flush(entries):
            # peer -> client delivery is synchronous
            peer.flush()
            run.delivered('s2c', entries)

        def peer_act(c, what):
            sid = psid.get(c)
            if sid is None or not popen(sid):
                return
            if what == 'headers':
                peer.headers(sid, P.RESP_HEADERS)
            elif what == 'data':
                peer.data(sid, P.grpc_frame(b'r'))
            elif what.startswith('trailers:') or what.startswith('only:'):
                kind, code, *rest = what.split(':')
                hs = ([] if kind == 'trailers' else list(P.RESP_HEADERS)) + [('grpc-status', code)]
                norst = bool(rest)
                nonok = code != '0' and not norst
                run.op('t:%d:%d' % (c, int(nonok)), '-')
                peer.h2.send_headers(sid, hs, end_stream=True)
                entries = [('E', c)]
                if nonok and popen(sid):
                    peer.h2.reset_stream(sid)
                    entries.append(('R', c))
                flush(entries)
            elif what == 'dataend':
                # the response ends on a DATA frame, no trailers at all: END_STREAM is all h2 sees
                run.op('t:%d:0' % c, '-')
                peer.h2.send_data(sid, P.grpc_frame(b'r'), end_stream=True)
                flush([('E', c)])
            elif what == 'rst':
                run.op('r:%d' % c, '-')
                peer.h2.reset_stream(sid)
                flush([('R', c)])

        def on_write(data):
            # client -> peer delivery is synchronous; the RST of a context exit is written before the
            # release, the model emits it with the X op: report its arrival right after that op
            now = []
            entries = run.take('c2s')
            run.written('c2s', entries)
            for it in entries:
                if len(it) == 3 and not run.st[it[1]].exited:
                    run.held.setdefault(it[1], []).append(it)
                else:
                    now.append(it)
            run.delivered('c2s', now)
            peer.receive(data)
            for ev in peer.take_events():
                if isinstance(ev, RequestReceived):
                    c = call_of_headers(ev.headers)
                    if c is None:                       # the probe call: answer at once
                        sid = ev.stream_id
                        loop.call_soon(lambda sid=sid: (peer.headers(sid, P.RESP_HEADERS, flush=False),
                                                        peer.data(sid, P.grpc_frame(b'probe-reply'), flush=False),
                                                        peer.headers(sid, [('grpc-status', '0')], end_stream=True)))
                        continue
                    psid[c] = ev.stream_id
                    run.st[c].accepted = True
                    for delay, what in calls[c]['server']:
                        loop.call_later(float(delay), peer_act, c, what)
        warm_up(run, loop, channel)
        cproto, tr = env['cproto'], env['ctransport']
        run.maxc0 = env['ch2'].remote_settings.max_concurrent_streams

        def announce(n, extra=None):
            run.op('s:%d' % n, '-')
            peer.h2.update_settings(settings_payload(n, extra))
            flush([('S', n)])

        if case.get('limit0'):
            announce(case['limit0'])
            loop.run_quiet(0)
        snapshot(run, env)
        for t, _, act in timeline(case):
            loop.run_until(t)
            if act[0] == 'start':
                c = act[1]
                run.st[c].task = loop.create_task(client_call(run, channel, c, calls[c]))
            elif act[0] == 'settings':
                announce(act[1]['n'], act[1].get('extra'))
            elif act[0] == 'taskcancel':
                tk = run.st[act[1]['c']].task
                if tk is not None:
                    tk.cancel()
            elif act[0] in ('pause', 'resume'):
                client_pause(run, env, act[0] == 'pause')
            loop.run_quiet(0)
            check(run, snapshot(run, env))
        loop.run_quiet(FINAL_SPAN / 2)
        client_pause(run, env, False)              # back-pressure ends, then run to quiescence
        r = loop.run_quiet(FINAL_SPAN / 2)
        check(run, snapshot(run, env, final=True))
        run.quiet = r
        run.conn_closed = cproto.connection.is_closing()
        aggregate(run, None)
        probe(run, env, channel, lambda: peer.settings({MCS: 1}))
        run.peer_violations = len(peer.violations)
        try:
            channel.close()
        except Exception:
            pass
        loop.run_quiet(1)
        run.unhandled = len(loop.unhandled)
    return run


def aggregate(run, handler):
    """bookkeeping that must not grow with the number of finished calls (read from outside, after the
    history).  Nothing is looked up by name: the server Handler's task table / cancelled collection are
    whatever collection attributes of the handler hold asyncio tasks; the per-call wrappers are the
    grpclib.utils.Wrapper instances hanging off the client Stream / the server's protocol stream, and their
    task sets whatever collection attributes of those hold tasks.  `check_closed()` (public) runs the
    collect step.  What cannot be located is reported as unobservable, never as a failure."""
    a = {'client_wrappers': [], 'server_wrappers': [], 'wrappers_seen': 0}
    for c, s in enumerate(run.st):
        for side, obj, done in (('client_wrappers', s.cstream, s.exited), ('server_wrappers', s.pstream, s.released)):
            if obj is None or not done:
                continue
            for w in find_wrappers(obj):
                a['wrappers_seen'] += 1
                if task_collections(w):
                    a[side].append(c)
    if a['wrappers_seen'] == 0 and any(s.cstream is not None for s in run.st):
        run.unobservable.append('per-call wrapper')
    if handler is not None:
        before = task_collections(handler)
        seen = {id(t): t for ts in before.values() for t in ts}
        a.update(accepted=sum(1 for s in run.st if s.accepted),
                 containers=sorted(before), entries_before=sum(len(ts) for ts in before.values()),
                 finished_before=sum(1 for ts in before.values() for t in ts if t.done()))
        check_closed = getattr(handler, 'check_closed', None)
        if callable(check_closed):
            a['check_closed'] = bool(check_closed())          # one more GC step
        else:
            run.unobservable.append('Handler.check_closed')
        after = task_collections(handler)
        a.update(entries_after=sum(len(ts) for ts in after.values()),
                 finished_after={n: sum(1 for t in ts if t.done()) for n, ts in after.items()
                                 if any(t.done() for t in ts)},
                 unfinished_after=sum(1 for ts in after.values() for t in ts if not t.done()))
        # handler tasks of this run are known from the public side: every accept created exactly one
        run_tasks = [s.htask for s in run.st if getattr(s, 'htask', None) is not None]
        if run_tasks and not before and not all(t.done() for t in run_tasks):
            run.unobservable.append('Handler task containers')   # live handler tasks, yet no container holds them
    run.agg = a


def probe(run, env, channel, set_limit_1):
    """behavioural probe: with the limit set to 1, a fresh unary call on the same connection succeeds"""
    run.enabled = False
    loop = env['loop']
    set_limit_1()
    loop.run_quiet(0)
    m = UnaryUnaryMethod(channel, '/v.S/U', bytes, bytes)
    t = loop.create_task(m(b'probe', metadata=[('x-call', 'probe')]))
    loop.run_quiet(50)
    o = vloop.outcome(t)
    run.probe = 'ok' if o == ('ok', b'probe-reply') else (exc_name(o[1]) if o[0] == 'exc' else o[0])
    if not t.done():
        t.cancel()


# ---- direct oracle: the property statement on what the implementation shows -----------------------

def leak_class(run, c):
    s = run.st[c]
    frame = 'none' if not (s.s_end_sent or s.s_rst_sent) else ('end' if s.s_end_sent else 'rst')
    hend = s.hend or ('BaseException' if s.released else 'running')   # never ran = cancelled before its first step
    # the handler body had ended (returned / raised an Exception) and a BaseException still left
    # request_handler: the cancellation hit Stream.__aexit__ while it was sending the terminal response
    interrupted = s.hend in ('return', 'Exception') and s.exit_exc == 'BaseException'
    return {'handler_end': hend, 'terminal_frame': frame,
            'reset_received': bool(getattr(s, 'reset_before_exit', False)), 'aexit_interrupted': interrupted}


def check(run, snap):
    """collects violations of the property visible in this snapshot (no model involved)"""
    st = run.st
    out = []
    for c in range(run.n):
        ch, sh = snap['h2'][c][0], snap['h2'][c][1]
        if st[c].released and sh in ('o', 'r'):
            out.append(('stream-open-after-handler-exit', c))
        if st[c].released and st[c].nonok_sent and sh == 'l':
            out.append(('stream-half-open-after-error-status', c))
        if st[c].exited and ch not in ('c', 'i'):
            out.append(('client-stream-open-after-exit', c))
        if st[c].exited and sh not in ('c', 'i') and not snap['paused']:
            # (while writing is paused nothing can be told to the server: checked once writable again)
            out.append(('server-stream-open-after-client-exit', c))
    if snap['creg'] != len(snap['opened']):
        out.append(('client-registry-differs-from-running-calls', None))
    if snap['sreg'] is not None:
        running = [c for c in range(run.n) if st[c].accepted and not st[c].released]
        if snap['sreg'] != len(running):
            out.append(('server-registry-differs-from-running-handlers', None))
    if snap['waiting'] and snap['out'] < snap['maxc'] and not snap['paused']:
        # legitimate only while a call whose stream is already closed has not left its context yet
        if not any(snap['h2'][c][0] == 'c' for c in snap['opened']):
            out.append(('waiter-blocked-with-free-slot', snap['waiting'][0]))
    if snap['final']:
        for c in snap['pending_tasks']:
            if c not in snap['waiting']:
                out.append(('client-call-hangs', c))
            elif snap['out'] >= snap['maxc']:
                out.append(('waiter-starved-by-leaked-stream', c))
        if not snap['pending_tasks'] and (snap['creg'] or snap['out'] or snap['in'] or snap['sreg']):
            out.append(('leftover-at-quiescence', None))
    for kind, c in out:
        run.checks.append({'kind': kind, 'call': c, 't': snap['t'], 'final': snap['final'],
                           'snap': {k: snap[k] for k in ('creg', 'sreg', 'out', 'in', 'waiting', 'opened', 'maxc', 'h2',
                                                         'paused', 'buffered', 'held')}})
