"""Receive-credit ledger for C08, taken at the h2 public API boundary WITHOUT touching /repo.

Ledger(proto) wraps, on the INSTANCES that grpclib created (never on classes, never in /repo):

  boundary ledger (what the direct oracle uses)
    H2Connection.receive_data              -> `received[sid]` += flow_controlled_length of every DataReceived
                                              event h2 hands to grpclib
    H2Connection.acknowledge_received_data -> `credited[sid]` += size of every call grpclib makes
                                              (`ack_calls` keeps the individual calls)

  ordered micro-event log (what the model is driven with / compared against), `log`:
    EventsProcessor.process       ('data', sid, len(data), fcl) / ('end', sid)      -- as grpclib processes them
    EventsProcessor.register      ('open', sid); the returned release_stream is wrapped: ('release', sid)
                                  on EVERY call (also the repeated, no-op ones)
    EventsProcessor.close         ('close',)   -- connection.is_closing() is true from here on
    Buffer.read (per instance)    ('read', sid, size) ... ('ret', sid, data|eof|empty|assert|badsize) or
                                  ('cancel', sid) when CancelledError (or any other BaseException) unwinds it
    Buffer._unacked.get           ('block', sid) when the read suspends on the empty queue, ('wake', sid)
                                  when it is resumed with an item
    acknowledge_received_data     ('ack', sid, size)
    (the driver adds ('pause',) / ('resume',) when it pauses / resumes the transport)
The Buffer wrappers stay in place after the stream is released, so reads AFTER release are logged as well.

The wrappers only record and delegate; they change no argument, result or exception.
"""
import asyncio

from h2.events import DataReceived, StreamEnded


class Ledger:
    def __init__(self, proto):
        self.proto = proto
        self.log = []
        self.received = {}          # boundary: sid -> flow-controlled bytes received
        self.credited = {}          # boundary: sid -> bytes acknowledged
        self.ack_calls = []         # boundary: (sid, size) per call
        self.frames = {}            # sid -> [(len(data), fcl)] of the DataReceived events, in order
        self.buffers = {}           # sid -> Buffer (kept after release, to look at what was forfeited)
        self.cancelled_reads = set()
        self.consumed = {}          # sid -> bytes handed to the application by completed reads
        self.requested = {}         # sid -> highest byte position any read has asked for so far
        self.over_events = []       # (sid, log position, received, credited) whenever a call over-credits
        self.conn = proto.connection
        self.h2 = proto.connection._connection
        self.processor = proto.processor
        self._wrap_h2()
        self._wrap_processor()

    # ---- h2 API boundary --------------------------------------------------------------------------
    def _wrap_h2(self):
        h2c = self.h2
        orig_recv = h2c.receive_data
        orig_ack = h2c.acknowledge_received_data

        def receive_data(data):
            events = orig_recv(data)
            for ev in events:
                if isinstance(ev, DataReceived):
                    sid = ev.stream_id
                    self.received[sid] = self.received.get(sid, 0) + ev.flow_controlled_length
                    self.frames.setdefault(sid, []).append((len(ev.data), ev.flow_controlled_length))
            return events

        def acknowledge_received_data(acknowledged_size, stream_id):
            self.credited[stream_id] = self.credited.get(stream_id, 0) + acknowledged_size
            self.ack_calls.append((stream_id, acknowledged_size))
            self.log.append(('ack', stream_id, acknowledged_size))
            if self.credited[stream_id] > self.received.get(stream_id, 0):
                self.over_events.append((stream_id, len(self.log), self.received.get(stream_id, 0),
                                         self.credited[stream_id]))
            return orig_ack(acknowledged_size, stream_id)

        h2c.receive_data = receive_data
        h2c.acknowledge_received_data = acknowledge_received_data

    # ---- grpclib's processing order ---------------------------------------------------------------
    def _wrap_processor(self):
        proc = self.processor
        orig_process = proc.process
        orig_register = proc.register
        orig_close = proc.close

        def process(event):
            if hasattr(proc, 'processors'):          # after close() grpclib drops every event
                if isinstance(event, DataReceived):
                    self.log.append(('data', event.stream_id, len(event.data),
                                     event.flow_controlled_length))
                elif isinstance(event, StreamEnded):
                    self.log.append(('end', event.stream_id))
            return orig_process(event)

        def register(stream):
            release = orig_register(stream)
            sid = stream.id
            self.log.append(('open', sid))
            self.buffers[sid] = stream.buffer
            self._wrap_buffer(sid, stream.buffer)

            def release_stream(*a, **kw):
                self.log.append(('release', sid))
                return release(*a, **kw)
            return release_stream

        def close(*a, **kw):
            if ('close',) not in self.log:
                self.log.append(('close',))
            return orig_close(*a, **kw)

        proc.process = process
        proc.register = register
        proc.close = close

    def _wrap_buffer(self, sid, buf):
        q = buf._unacked
        orig_get = q.get
        orig_read = buf.read

        async def get():
            blocked = q.empty()
            if blocked:
                self.log.append(('block', sid))
            item = await orig_get()
            if blocked:
                self.log.append(('wake', sid))
            return item

        async def read(size):
            self.log.append(('read', sid, size))
            self.requested[sid] = max(self.requested.get(sid, 0), self.consumed.get(sid, 0) + max(size, 0))
            try:
                data = await orig_read(size)
            except AssertionError:
                self.log.append(('ret', sid, 'badsize' if size < 0 else 'assert'))
                raise
            except BaseException:
                self.cancelled_reads.add(sid)
                self.log.append(('cancel', sid))
                raise
            self.log.append(('ret', sid, 'empty' if size == 0 else ('data' if data else 'eof')))
            if data:
                self.consumed[sid] = self.consumed.get(sid, 0) + size
            return data

        q.get = get
        buf.read = read

    # ---- views ------------------------------------------------------------------------------------
    def registered(self):
        return sorted(self.processor.streams)

    def held(self, sid):
        """credit still owed for frames queued in the REGISTERED buffer of sid"""
        st = self.processor.streams.get(sid)
        if st is None:
            return 0
        return sum(it.ack_size for it in list(st.buffer._unacked._queue))

    def forfeited(self, sid):
        """credit of frames left in the buffer of a stream that is no longer registered"""
        if sid in self.processor.streams or sid not in self.buffers:
            return 0
        return sum(it.ack_size for it in list(self.buffers[sid]._unacked._queue))

    def sids(self):
        s = set(self.received) | set(self.credited) | set(self.buffers)
        for e in self.log:
            if len(e) > 1:
                s.add(e[1])
        return sorted(s)

    def totals(self):
        return sum(self.received.values()), sum(self.credited.values())

    def pending_conn(self):
        """bytes h2 has been told about but has not yet announced in a WINDOW_UPDATE (h2 coalesces);
        None when the h2 internals are not where h2 4.3 keeps them"""
        m = getattr(self.h2, '_inbound_flow_control_window_manager', None)
        return getattr(m, '_bytes_processed', None)

    def pending_stream(self, sid):
        s = getattr(self.h2, 'streams', {}).get(sid)
        m = getattr(s, '_inbound_window_manager', None)
        return getattr(m, '_bytes_processed', None)


# ---- log -> model line ------------------------------------------------------------------------------

def model_tokens(log):
    """Split the ordered log into the model's input events and, per input event, the outputs the
    implementation showed.  Returns (event_tokens, [output_token_list per event])."""
    evs, outs = [], []

    def inp(tok):
        evs.append(tok)
        outs.append([])

    for e in log:
        k = e[0]
        if k == 'open':
            inp('O:%d' % e[1])
        elif k == 'data':
            _, sid, n, f = e
            inp('D:%d:%d:%s' % (sid, n, '-' if f == n else str(f - n - 1)))
            outs[-1].append('r%d:%d' % (sid, f))
        elif k == 'end':
            inp('E:%d' % e[1])
        elif k == 'read':
            inp('R:%d:%d' % (e[1], e[2]))
        elif k == 'wake':
            inp('W:%d' % e[1])
        elif k == 'cancel':
            inp('C:%d' % e[1])
        elif k == 'release':
            inp('X:%d' % e[1])
        elif k == 'close':
            inp('Z')
        elif k == 'pause':
            inp('P')
        elif k == 'resume':
            inp('Q')
        elif k == 'ack':
            if not outs:
                raise ValueError('acknowledgement before any event')
            outs[-1].append('a%d:%d' % (e[1], e[2]))
        elif k == 'block':
            outs[-1].append('b%d' % e[1])
        elif k == 'ret':
            outs[-1].append('R%d:%s' % (e[1], e[2]))
        else:
            raise ValueError('unknown log entry %r' % (e,))
    return evs, outs


def parse_model_answer(line):
    """-> (per-event output token lists without the ghost 'd' tokens, {sid: (recv, cred, drop, held, reg)},
    (recv, cred, drop, held, closing, legal))"""
    tr, per, conn = [p.strip() for p in line.split('|')]
    trace = []
    for w in tr.split():
        toks = [] if w == '.' else w.split(',')
        trace.append([t for t in toks if not t.startswith('d')])
    streams = {}
    for w in per.split():
        v = [int(x) for x in w.split(':')]
        streams[v[0]] = tuple(v[1:])
    c = conn.split()
    return trace, streams, (int(c[0]), int(c[1]), int(c[2]), int(c[3]), c[4] == '1', c[5] == '1')
