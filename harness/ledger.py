"""Receive-credit ledger (C08; also usable by C11), taken at the h2 PUBLIC API boundary, WITHOUT touching /repo
and without relying on the spelling of grpclib's private attributes.

Ledger(proto[, transport]) finds what it needs BY ROLE and wraps INSTANCES only (never classes, never /repo):

  boundary ledger (what the direct oracle uses) -- needs only the h2.connection.H2Connection object that grpclib
  created for this connection (found by type in the object graph below `proto`):
    H2Connection.receive_data              -> `received[sid]` += flow_controlled_length of every DataReceived
                                              event h2 hands to grpclib; `frames[sid]`
    H2Connection.acknowledge_received_data -> `credited[sid]` += size of every call grpclib makes (`ack_calls`)

  ordered micro-event log `log` (what the model is driven with / compared against):
    ('data', sid, len(data), fcl) / ('end', sid)   logged when grpclib takes the event out of the list that
                                  receive_data returned (the list is returned as a list subclass that logs on
                                  iteration / indexing): exactly grpclib's processing order, still the h2 boundary
    ('ack', sid, size)            acknowledge_received_data
    ('open', sid)                 the connection's events processor registers a stream (`register`, found on the
                                  object below `proto` that offers it); the release function it returns is wrapped:
    ('release', sid)              on EVERY call (also the repeated, no-op ones)
    ('read', sid, size) ... ('ret', sid, data|eof|empty|assert|badsize|error) or ('cancel', sid)
                                  the stream's public coroutine `recv_data(size)` (wrapped on the instance); its
                                  suspensions are seen by stepping the coroutine, not through Buffer's queue:
    ('block', sid) / ('wake', sid)   recv_data suspended / was resumed (a resumption that suspends again without
                                  having produced anything is dropped: nothing observable happened)
    ('close',)                    the transport given to Ledger starts closing (`on_close` of harness.wire.MemTransport;
                                  the driver logs it itself when it makes the connection drop)
    (the driver adds ('pause',) / ('resume',) when it pauses / resumes the transport)

  state views (None when the component cannot be found -- the caller masks it on both sides):
    held(sid) / forfeited(sid)    credit of the frames still queued in the buffer of a registered / released stream:
                                  the buffer is the object below the stream that offers read()+add(); its queue is
                                  the asyncio.Queue / deque / list below it whose items carry the credit

`unobservable` names the components that could not be located ('h2', 'register', 'recv_data', 'queue'); nothing
here raises because of a missing or renamed attribute.  The wrappers only record and delegate; they change no
argument, result or exception.  The recv_data wrapper stays in place after the stream is released, so reads AFTER
release are logged as well.
"""
import asyncio
import collections
import types

from h2.connection import H2Connection
from h2.events import DataReceived, StreamEnded


# ---- locating things by role ----------------------------------------------------------------------------

def _attrs(obj):
    """(name, value) of the instance attributes of obj (incl. slots), never raising"""
    out = []
    d = getattr(obj, '__dict__', None)
    if isinstance(d, dict):
        out += list(d.items())
    for cls in type(obj).__mro__:
        for n in getattr(cls, '__slots__', ()) or ():
            try:
                out.append((n, getattr(obj, n)))
            except Exception:
                pass
    return out


def _is_plain(v):
    return v is None or isinstance(v, (int, float, str, bytes, bool, type, types.FunctionType, types.MethodType,
                                       asyncio.AbstractEventLoop, asyncio.Future))


def find_below(root, pred, depth=3, skip=()):
    """breadth-first search of the object graph below `root` (instance attributes only) for the first object
    satisfying pred; -> (object, parent) or (None, None)"""
    seen = {id(root)}
    level = [(root, None)]
    for _ in range(depth + 1):
        nxt = []
        for obj, parent in level:
            try:
                if obj is not root and pred(obj):
                    return obj, parent
            except Exception:
                pass
            for _, v in _attrs(obj):
                if _is_plain(v) or id(v) in seen or isinstance(v, skip):
                    continue
                if isinstance(v, (dict, list, tuple, set, frozenset, collections.deque)):
                    continue
                seen.add(id(v))
                nxt.append((v, obj))
        level = nxt
    return None, None


def find_h2(proto):
    """the H2Connection grpclib created for this connection"""
    obj, _ = find_below(proto, lambda o: isinstance(o, H2Connection))
    return obj


def find_offering(root, names, depth=2):
    """the first object below root (or root) on which all `names` are callable"""
    def ok(o):
        return all(callable(getattr(o, n, None)) for n in names)
    if ok(root):
        return root
    obj, _ = find_below(root, ok, depth=depth, skip=(H2Connection,))
    return obj


def find_register(proto):
    """(object, method name) with which the connection's events processor registers a stream and hands out the
    release function: `register`, else the one bound method below proto whose name says so"""
    obj = find_offering(proto, ('register',))
    if obj is not None:
        return obj, 'register'

    def names(o):
        return [n for n in dir(type(o)) if 'regist' in n.lower() and not n.startswith('__')
                and callable(getattr(o, n, None))]
    cand, _ = find_below(proto, lambda o: len(names(o)) == 1, depth=2, skip=(H2Connection,))
    if cand is not None:
        return cand, names(cand)[0]
    return None, None


def find_buffer(stream):
    """the receive buffer of a protocol stream: the object below it that offers read() and add()"""
    return find_offering(stream, ('read', 'add'), depth=1)


def queue_items(buf):
    """the items queued in a receive buffer (oldest first), or None when no queue-like container is found"""
    if buf is None:
        return None
    cands = []
    for n, v in _attrs(buf):
        if isinstance(v, asyncio.Queue):
            inner = getattr(v, '_queue', None)          # asyncio's own attribute (stdlib), guarded
            if inner is None:
                return None
            cands.append((0, n, list(inner)))
        elif isinstance(v, (collections.deque, list)):
            cands.append((1, n, list(v)))
    # the queue of frames whose credit is still owed holds (data, size, credit) items; prefer an asyncio.Queue,
    # then the container whose items have a `ack_size` / three fields
    def score(c):
        kind, name, items = c
        s = kind * 10
        if items and not all(_credit_of(i) is not None for i in items):
            s += 100
        if 'unack' not in name.lower():
            s += 1
        if items and all(isinstance(i, tuple) and len(i) == 2 for i in items):
            s += 50                                   # (memoryview, size): already acknowledged data
        return s
    cands = [c for c in cands if score(c) < 100]
    if not cands:
        return None
    cands.sort(key=score)
    if len(cands) > 1 and score(cands[0]) == score(cands[1]) and cands[0][2] != cands[1][2]:
        return None                                   # ambiguous: do not guess
    return cands[0][2]


def _credit_of(item):
    v = getattr(item, 'ack_size', None)
    if isinstance(v, int):
        return v
    if isinstance(item, tuple) and len(item) == 3 and isinstance(item[2], int):
        return item[2]
    return None


class _LoggedEvents(list):
    """what receive_data returned, logging each DataReceived / StreamEnded at the moment grpclib takes it out"""

    def _bind(self, ledger):
        self._ledger = ledger
        self._seen = set()
        return self

    def _note(self, i, ev):
        if i in self._seen:
            return
        self._seen.add(i)
        self._ledger._processing(ev)

    def __iter__(self):
        for i in range(len(self)):
            ev = list.__getitem__(self, i)
            self._note(i, ev)
            yield ev

    def __getitem__(self, i):
        ev = list.__getitem__(self, i)
        if isinstance(i, int):
            self._note(i % len(self) if len(self) else i, ev)
        return ev

    def pop(self, i=-1):
        k = i % len(self) if len(self) else i
        ev = list.pop(self, i)
        self._ledger._processing(ev)
        self._seen = {j - 1 if j > k else j for j in self._seen if j != k}
        return ev


class Ledger:
    def __init__(self, proto, transport=None):
        self.proto = proto
        self.transport = transport
        self.log = []
        self.received = {}          # boundary: sid -> flow-controlled bytes received
        self.credited = {}          # boundary: sid -> bytes acknowledged
        self.ack_calls = []         # boundary: (sid, size) per call
        self.frames = {}            # sid -> [(len(data), fcl)] of the DataReceived events, in order
        self.streams = {}           # sid -> protocol stream object (kept after release)
        self.buffers = {}           # sid -> receive buffer object or None (kept after release)
        self.cancelled_reads = set()
        self.consumed = {}          # sid -> bytes handed to the application by completed reads
        self.requested = {}         # sid -> highest byte position any read has asked for so far
        self.over_events = []       # (sid, log position, received, credited) whenever a call over-credits
        self.unobservable = set()
        self.h2 = find_h2(proto)
        if self.h2 is None:
            self.unobservable.add('h2')
        else:
            self._wrap_h2()
        self.processor, self._register_name = find_register(proto)
        if self.processor is None:
            self.unobservable.add('register')
        else:
            self._wrap_register()
        if transport is not None and hasattr(transport, 'on_close'):
            prev = transport.on_close

            def on_close():
                self.note_close()
                if prev is not None:
                    prev()
            transport.on_close = on_close

    # ---- is the order of events / reads / releases observable at all?
    @property
    def ordered(self):
        return not (self.unobservable & {'h2', 'register', 'recv_data'})

    def note_close(self):
        if ('close',) not in self.log:
            self.log.append(('close',))

    def closing(self):
        t = self.transport
        return bool(t is not None and (getattr(t, 'closing', False) or getattr(t, 'lost', False)))

    # ---- h2 API boundary --------------------------------------------------------------------------
    def _wrap_h2(self):
        h2c = self.h2
        orig_recv = h2c.receive_data
        orig_ack = h2c.acknowledge_received_data

        def receive_data(data):
            events = orig_recv(data)
            for ev in events:
                if isinstance(ev, DataReceived):
                    sid = ev.stream_id
                    self.received[sid] = self.received.get(sid, 0) + ev.flow_controlled_length
                    self.frames.setdefault(sid, []).append((len(ev.data), ev.flow_controlled_length))
            if type(events) is list:
                return _LoggedEvents(events)._bind(self)
            for ev in events:                          # not a plain list: log in arrival order
                self._processing(ev)
            return events

        def acknowledge_received_data(acknowledged_size, stream_id):
            self.credited[stream_id] = self.credited.get(stream_id, 0) + acknowledged_size
            self.ack_calls.append((stream_id, acknowledged_size))
            self.log.append(('ack', stream_id, acknowledged_size))
            if self.credited[stream_id] > self.received.get(stream_id, 0):
                self.over_events.append((stream_id, len(self.log), self.received.get(stream_id, 0),
                                         self.credited[stream_id]))
            return orig_ack(acknowledged_size, stream_id)

        h2c.receive_data = receive_data
        h2c.acknowledge_received_data = acknowledge_received_data

    def _processing(self, event):
        if self.closing():                           # after the connection was closed grpclib drops every event
            return
        if isinstance(event, DataReceived):
            self.log.append(('data', event.stream_id, len(event.data), event.flow_controlled_length))
        elif isinstance(event, StreamEnded):
            self.log.append(('end', event.stream_id))

    # ---- registration / release -------------------------------------------------------------------
    def _wrap_register(self):
        proc = self.processor
        name = self._register_name
        orig_register = getattr(proc, name)

        def register(stream, *a, **kw):
            release = orig_register(stream, *a, **kw)
            sid = _stream_id(stream)
            if sid is None:
                self.unobservable.add('register')
                return release
            self.log.append(('open', sid))
            self.streams[sid] = stream
            self.buffers[sid] = find_buffer(stream)
            self._wrap_reads(sid, stream)
            if not callable(release):
                self.unobservable.add('register')
                return release

            def release_stream(*a, **kw):
                self.log.append(('release', sid))
                return release(*a, **kw)
            return release_stream

        try:
            setattr(proc, name, register)
        except Exception:
            self.unobservable.add('register')

    def _wrap_reads(self, sid, stream):
        target, name = stream, 'recv_data'
        orig = getattr(stream, 'recv_data', None)
        if not callable(orig) or not asyncio.iscoroutinefunction(orig):
            # no public recv_data coroutine on the stream: observe the buffer's read(size) coroutine instead
            target, name = self.buffers.get(sid), 'read'
            orig = getattr(target, 'read', None)
            if not callable(orig) or not asyncio.iscoroutinefunction(orig):
                self.unobservable.add('recv_data')
                return
        led = self

        @types.coroutine
        def stepped(coro):
            """run `coro` to completion, re-yielding whatever it yields, and log its suspensions"""
            try:
                y = coro.send(None)
            except StopIteration as e:
                return e.value
            while True:
                led.log.append(('block', sid))
                try:
                    v = yield y
                except BaseException as ex:
                    try:
                        y = coro.throw(ex)
                    except StopIteration as e:
                        return e.value
                    continue
                led.log.append(('wake', sid))
                try:
                    y = coro.send(v)
                except StopIteration as e:
                    return e.value

        async def recv_data(size):
            self.log.append(('read', sid, size))
            self.requested[sid] = max(self.requested.get(sid, 0), self.consumed.get(sid, 0) + max(size, 0))
            try:
                data = await stepped(orig(size))
            except AssertionError:
                self.log.append(('ret', sid, 'badsize' if size < 0 else 'assert'))
                raise
            except asyncio.CancelledError:
                self.cancelled_reads.add(sid)
                self.log.append(('cancel', sid))
                raise
            except BaseException:
                self.cancelled_reads.add(sid)
                self.log.append(('ret', sid, 'error'))
                raise
            self.log.append(('ret', sid, 'empty' if size == 0 else ('data' if data else 'eof')))
            if data:
                self.consumed[sid] = self.consumed.get(sid, 0) + size
            return data

        try:
            setattr(target, name, recv_data)
        except Exception:
            self.unobservable.add('recv_data')

    # ---- views ------------------------------------------------------------------------------------
    def is_registered(self, sid):
        """registered and release_stream not yet called, as far as the log tells"""
        st = None
        for e in self.log:
            if len(e) > 1 and e[1] == sid:
                if e[0] == 'open':
                    st = True
                elif e[0] == 'release':
                    st = False
        return bool(st)

    def registered(self):
        return sorted(s for s in self.streams if self.is_registered(s))

    def _queued(self, sid):
        items = queue_items(self.buffers.get(sid))
        if items is None:
            self.unobservable.add('queue')
            return None
        tot = 0
        for it in items:
            c = _credit_of(it)
            if c is None:
                self.unobservable.add('queue')
                return None
            tot += c
        return tot

    def held(self, sid):
        """credit still owed for frames queued in the buffer of the REGISTERED stream sid (None: not observable)"""
        if sid not in self.streams or not self.is_registered(sid):
            return 0
        return self._queued(sid)

    def forfeited(self, sid):
        """credit of frames left in the buffer of a stream that is no longer registered (None: not observable)"""
        if sid not in self.streams or self.is_registered(sid):
            return 0
        return self._queued(sid)

    def sids(self):
        s = set(self.received) | set(self.credited) | set(self.streams)
        for e in self.log:
            if len(e) > 1:
                s.add(e[1])
        return sorted(s)

    def totals(self):
        return sum(self.received.values()), sum(self.credited.values())

    def pending_conn(self):
        """bytes h2 has been told about but has not yet announced in a WINDOW_UPDATE (h2 coalesces);
        None when the h2 internals are not where h2 4.3 keeps them"""
        m = getattr(self.h2, '_inbound_flow_control_window_manager', None)
        return getattr(m, '_bytes_processed', None)

    def pending_stream(self, sid):
        s = getattr(self.h2, 'streams', {}).get(sid)
        m = getattr(s, '_inbound_window_manager', None)
        return getattr(m, '_bytes_processed', None)


def _stream_id(stream):
    v = getattr(stream, 'id', None)
    if isinstance(v, int):
        return v
    ints = [(n, x) for n, x in _attrs(stream) if isinstance(x, int) and not isinstance(x, bool) and 'id' in n.lower()]
    return ints[0][1] if len(ints) == 1 else None


# ---- log -> model line ------------------------------------------------------------------------------

def canonical_log(log):
    """drop resumptions that had no observable effect: ('wake', sid) directly followed -- as far as sid is
    concerned -- by ('block', sid) (the waiter was woken but found nothing, e.g. the item was drained by a release)"""
    out = []
    i = 0
    n = len(log)
    while i < n:
        e = log[i]
        if e[0] == 'wake':
            j = i + 1
            while j < n and not (len(log[j]) > 1 and log[j][1] == e[1]) and log[j][0] != 'close':
                j += 1
            if j < n and log[j] == ('block', e[1]):
                out.extend(log[i + 1:j])
                i = j + 1
                continue
        out.append(e)
        i += 1
    return out


def model_tokens(log):
    """Split the ordered log into the model's input events and, per input event, the outputs the
    implementation showed.  Returns (event_tokens, [output_token_list per event])."""
    evs, outs = [], []

    def inp(tok):
        evs.append(tok)
        outs.append([])

    for e in log:
        k = e[0]
        if k == 'open':
            inp('O:%d' % e[1])
        elif k == 'data':
            _, sid, n, f = e
            inp('D:%d:%d:%s' % (sid, n, '-' if f == n else str(f - n - 1)))
            outs[-1].append('r%d:%d' % (sid, f))
        elif k == 'end':
            inp('E:%d' % e[1])
        elif k == 'read':
            inp('R:%d:%d' % (e[1], e[2]))
        elif k == 'wake':
            inp('W:%d' % e[1])
        elif k == 'cancel':
            inp('C:%d' % e[1])
        elif k == 'release':
            inp('X:%d' % e[1])
        elif k == 'close':
            inp('Z')
        elif k == 'pause':
            inp('P')
        elif k == 'resume':
            inp('Q')
        elif k == 'ack':
            if not outs:
                raise ValueError('acknowledgement before any event')
            outs[-1].append('a%d:%d' % (e[1], e[2]))
        elif k == 'block':
            outs[-1].append('b%d' % e[1])
        elif k == 'ret':
            outs[-1].append('R%d:%s' % (e[1], e[2]))
        else:
            raise ValueError('unknown log entry %r' % (e,))
    return evs, outs


def parse_model_answer(line):
    """-> (per-event output token lists without the ghost 'd' tokens, {sid: (recv, cred, forfeited, held, reg)},
    (recv, cred, forfeited, held, closing, legal))"""
    tr, per, conn = [p.strip() for p in line.split('|')]
    trace = []
    for w in tr.split():
        toks = [] if w == '.' else w.split(',')
        trace.append([t for t in toks if not t.startswith('d')])
    streams = {}
    for w in per.split():
        v = [int(x) for x in w.split(':')]
        streams[v[0]] = tuple(v[1:])
    c = conn.split()
    return trace, streams, (int(c[0]), int(c[1]), int(c[2]), int(c[3]), c[4] == '1', c[5] == '1')
