"""C16 -- a channel keeps one live connection, reconnects after loss, reports failures.

Correspondence of Model/Channel.v with the real grpclib Channel on the virtual-time loop (command driven
schedules: attempts resolve on command, stimuli applied back to back inside one loop iteration or one per
iteration), plus the direct oracle (the property statement on the implementation's observables) and an
oracle-only family with timed attempts (asyncio.sleep delays, PRNG instants)."""
import logging

from harness import vloop
from harness.core import Result
from harness.c16_util import Runner

PROPERTY = 'C16'
THEOREM_FILES = ['Props/C16.v']
ALLOWED_AXIOMS = []
LABEL = ('full on the model for the single-attempt / single-live-connection invariants, failure routing and '
         'reconnection; partial (with refutation witnesses replayed on the code) for "close() terminates every '
         'call in flight" (D6, and calls still connecting) and for "no call starts on a dead connection" '
         '(connection dies between completion of the attempt and resumption of the connecting task)')
TRUSTED = ['tools/facts_C16.py + tools/pynorm.py (control paths of Channel.__connect__ after helper inlining / NNF / '
           'early-exit normalisation; probes of real grpclib objects over a fake transport -> Gen/FactsC16.v; theorem '
           'C16_source_as_transcribed compares them with what the model assumes)',
           'modelled, not verified: asyncio.Lock (CPython 3.12.1 acquire/release/_wake_up_first), Task.cancel, '
           'Event.set wake order, call_soon FIFO; loop.create_connection replaced by a scripted connector that '
           'builds the in-memory transport, calls connection_made and closes the transport when the waiting '
           'task is cancelled (as asyncio does); h2 refusing send_headers after GOAWAY']
ASSUMPTIONS = ['transport closing happens only through Connection.close() or connection_lost (the in-memory '
               'transport never enters closing on its own, e.g. by a write error)',
               'asyncio delivers no data and no resume_writing once the transport is closing',
               'unary calls small enough never to block on flow control; no event listeners on the channel',
               'keepalive close is produced by the real keepalive timer with a silent peer '
               '(_keepalive_time=10, _keepalive_timeout=5, permit_without_calls)']

STATE_NAMES = {1: 'IDLE', 2: 'CONNECTING', 3: 'READY', 4: 'TRANSIENT_FAILURE'}


# ---- case -> model line ---------------------------------------------------------------------------

def stim_word(st):
    op = st[0]
    if op == 'start':
        return 's'
    if op == 'resolve':
        return 'r'
    if op == 'kaclose':
        return 'k'
    if op == 'close':
        return 'x'
    return {'cancel': 'c', 'lose': 'l', 'goaway': 'g', 'pause': 'p', 'resume': 'u', 'answer': 'a',
            'hold': 'h'}[op] + str(st[1])


def model_line(case):
    sc = [('o' if o == 'ok' else 'f') + m for o, m in case.get('script', [])]
    toks = []
    for b in case['batches']:
        for st in b:
            if st[0] == 'kaclose' and not case.get('ka'):
                continue
            toks.append(stim_word(st))
        toks.append('/')
    return ' '.join(['case', str(len(sc))] + sc + toks)


def show_obs(o):
    q = lambda v: '?' if v is None else str(v)          # '?': not observable (left out of the comparison)
    conns = ','.join('%s%s%s:%s' % tuple(q(x) for x in c) for c in o['conns'])
    live = sum(1 for c in o['conns'] if not c[0] and not c[1])
    return 'C%d F%d P%s L%s W%s S%s V%d [%s] {%s}' % (
        o['creates'], o['inflight'], '-' if o['protocol'] is None else o['protocol'], q(o['locked']),
        q(o['waiters']), q(o['state']), live, conns, ','.join(o['callers']))


def same_obs(model_line, impl_line):
    """equality of two observation lines; a '?' field of the implementation's line matches anything"""
    if '?' not in impl_line:
        return model_line == impl_line
    import re
    rx = re.escape(impl_line).replace(re.escape('?'), r'[^ ,:\]]*')
    return re.fullmatch(rx, model_line) is not None


# ---- implementation side --------------------------------------------------------------------------

def run_impl(case):
    logging.disable(logging.CRITICAL)
    with vloop.session() as loop:
        r = Runner(loop, case)
        for bi, b in enumerate(case['batches']):
            r.run_batch([list(st) for st in b], bi)
        final_stages = r.stages()
        out = {
            'obs': r.obs,
            'lines': [show_obs(o) for o in r.obs],
            'case': r.case,
            'instrumented': bool(r.instrumented),
            'handed': list(r.handed),
            'handed_at': list(r.handed_at),
            'goaway_at': dict(r.goaway_at),
            'was_unregistered': sorted(r.was_unregistered),
            'max_in_flight': r.ce.max_in_flight,
            'failed_owners': list(r.ce.failed_owners),
            'made_by': list(r.ce.made_by),
            'live_at_make': list(r.ce.live_at_make),
            'inflight_at_close': r.inflight_at_close,
            'final_stages': final_stages,
            'req_conn': {k: v[0] for k, v in r.req.items()},
            'unhandled': [str(c.get('message'))[:80] for c in loop.unhandled],
            'anomalies': list(r.anomalies),
        }
    return out


# ---- direct oracle: the property statement on the implementation alone ----------------------------

def oracle(case, imp):
    """returns a list of (what, signature)"""
    bad = []
    obs = imp['obs']
    # (1) never more than one connection attempt in progress
    if imp['max_in_flight'] > 1 or any(o['inflight'] > 1 for o in obs):
        bad.append(('more than one connection attempt in progress', {'kind': 'two-attempts'}))
    # (2) never more than one live connection (after every batch and at every connection_made)
    for i, o in enumerate(obs):
        live = sum(1 for c in o['conns'] if not c[0] and not c[1])
        if live > 1:
            bad.append(('%d live connections after batch %d' % (live, i), {'kind': 'two-live-connections'}))
            break
    if any(n > 1 for n in imp['live_at_make']):
        bad.append(('a connection was made while another one was live', {'kind': 'two-live-connections'}))
    # (3) a failed attempt is raised to exactly the caller that made it
    final = obs[-1]['callers'] if obs else []
    owners = [k for k in imp['failed_owners'] if k is not None]
    for k, c in enumerate(final):
        if c == 'x:OSError' and k not in owners:
            bad.append(('caller %d got OSError of an attempt it did not make' % k,
                        {'kind': 'failure-misrouted'}))
    for k in owners:
        if k < len(final) and final[k] not in ('x:OSError', 'x:Cancelled'):
            bad.append(('caller %d made a failed attempt but ended %s' % (k, final[k]),
                        {'kind': 'failure-lost'}))
    # (4) no call is started on a connection already known to be dead
    for k, c, dead in imp['handed']:
        if dead:
            path = 'other'
            if c is not None and c < len(imp['made_by']) and imp['made_by'][c] == k:
                path = 'owner-after-attempt'
            bad.append(('__connect__ handed a dead connection %s to caller %s' % (c, k),
                        {'kind': 'dead-protocol', 'path': path}))
    #     a connection that received GOAWAY (any error code / last_stream_id / debug data) is known dead from that
    #     moment: no call may be handed it in a later loop iteration
    for (k, c, dead), at in zip(imp['handed'], imp['handed_at']):
        if c is not None and c in imp['goaway_at'] and at > imp['goaway_at'][c] and not dead:
            bad.append(('__connect__ handed connection %s, which had received GOAWAY, to caller %s' % (c, k),
                        {'kind': 'dead-protocol', 'path': 'after-goaway'}))
    #     every call ends in one of: reply, OSError of its own attempt, Cancelled, StreamTerminatedError;
    #     anything else is an internal error
    allowed = ('p', 'x:OSError', 'x:Cancelled', 'x:StreamTerminated')
    # a call whose (non-OK) response had already arrived ends with that status when it is terminated
    replied = {st[1] for b in case['batches'] for st in b if st[0] == 'trailers'}
    final = [('x:StreamTerminated' if (c.startswith('x:GRPCError:') and k in replied) else c)
             for k, c in enumerate(final)]
    for k, c in enumerate(final):
        if not (c in allowed or c.startswith('ok:')) and not any(h[0] == k and h[2] for h in imp['handed']) \
                and k not in imp['was_unregistered']:
            bad.append(('caller %d ended with %s' % (k, c), {'kind': 'internal-error', 'stage': 'started'}))
    for k, c in enumerate(final):
        if not (c in allowed or c.startswith('ok:')) and k in imp['was_unregistered'] \
                and not any(h[0] == k and h[2] for h in imp['handed']):
            # an internal error of a call that was woken on a connection closed meanwhile (same class as D6:
            # the call sits unregistered in protocol.Stream.send_request when the connection goes away)
            bad.append(('caller %d ended with %s' % (k, c), {'kind': 'internal-error', 'stage': 'unregistered'}))
    # (5) Channel.close() terminates calls still in flight
    #     close() acts on the connection the channel holds (`_protocol`).  A call registered on an EARLIER
    #     connection -- one that keepalive / GOAWAY already closed and that the channel has replaced, but whose
    #     connection_lost the transport still withholds -- is terminated by that connection's own close path
    #     (connection_lost); that is judged by clause (6) after every withheld connection_lost was delivered.
    conn_of = {k: c for k, c, _ in imp['handed'] if k is not None}
    for bi, unfinished, stages, snap in imp['inflight_at_close']:
        after = obs[bi]['callers']
        for k in unfinished:
            if not imp['instrumented'] and stages.get(k) != 'registered':
                continue                 # where the call is cannot be observed: not judged
            if after[k] == 'p' and stages.get(k) == 'registered' and conn_of.get(k) != snap.get('protocol'):
                continue
            if after[k] == 'p':
                bad.append(('call %d (%s) survived Channel.close() in batch %d' % (k, stages.get(k), bi),
                            {'kind': 'close-missed-call', 'stage': stages.get(k, '?')}))
    # (6) no call hangs: pending at the end only if it is registered on a live connection and was never
    #     answered, or it is connecting while an attempt is still in flight
    if obs:
        o = obs[-1]
        for k, c in enumerate(o['callers']):
            if c != 'p':
                continue
            st = imp['final_stages'].get(k)
            if st == 'unknown':
                continue
            if st == 'registered' and not imp['instrumented']:
                # which connection serves it: the one whose peer saw the request
                conn = imp.get('req_conn', {}).get(k)
                if conn is not None and not o['conns'][conn][0] and not o['conns'][conn][1]:
                    continue
            if st == 'registered':
                conn = next((cc for kk, cc, _ in imp['handed'] if kk == k), None)
                if conn is not None and not o['conns'][conn][0] and not o['conns'][conn][1]:
                    continue
            if st == 'connecting' and (o['inflight'] > 0 or case.get('timed')):
                continue
            bad.append(('call %d (%s) is blocked forever' % (k, st), {'kind': 'hang', 'stage': st or '?'}))
    # (7) after loss / close the next call opens exactly one new connection; the channel stays usable
    ep = case.get('epilogue')
    snap = next((x for x in imp['inflight_at_close'] if x[0] == (ep or {}).get('at')), None)
    if ep is not None and snap is not None and len(obs) == len(case['batches']):
        last = obs[-1]
        fresh = list(range(ep['first'], ep['first'] + ep['rounds']))
        if fresh[-1] < len(last['callers']):
            for k in fresh:
                c = last['callers'][k]
                if not (c.startswith('ok:') or (c == 'x:OSError' and k in owners and k != fresh[-1])):
                    bad.append(('fresh call %d after close() ended %s' % (k, c), {'kind': 'unusable-after-close'}))
            made = last['creates'] - snap[3]['creates']
            fails_after = len(imp['failed_owners']) - snap[3]['fails']
            if made != 1 + fails_after:
                bad.append(('%d connection attempts after close(), expected exactly 1 + %d scripted failures'
                            % (made, fails_after), {'kind': 'reconnect-count'}))
            live = sum(1 for c in last['conns'] if not c[0] and not c[1])
            if live != 1:
                bad.append(('%d live connections after reconnecting' % live, {'kind': 'reconnect-live'}))
    return bad


# ---- generators -----------------------------------------------------------------------------------

S, R = ['start'], ['resolve']


def gen_case(rng, ka=None):
    ka = (rng.random() < 0.3) if ka is None else ka
    nfail = rng.choice([0, 0, 1, 1, 2, 3])
    slen = rng.choice([0, 1, 2, 3, 4, 6])
    script = []
    for _ in range(slen):
        script.append(['fail' if rng.random() < 0.35 else 'ok', 'i' if rng.random() < 0.15 else 'd'])
    batches = []
    ncallers = 0
    nres = 0
    n0 = rng.choice([1, 1, 2, 3, 4, 6])
    first = [S[:] for _ in range(n0)]
    ncallers += n0
    if rng.random() < 0.5:
        batches.append(first)
    else:
        batches += [[s] for s in first]
    nsteps = rng.choice([2, 4, 6, 9, 14])

    def conn_pick():
        hi = max(1, nres)
        return rng.choice([hi - 1, hi - 1, hi - 1, rng.randrange(hi), hi])

    def caller_pick():
        return rng.choice([ncallers - 1, rng.randrange(max(1, ncallers)), rng.randrange(max(1, ncallers)), ncallers])

    for _ in range(nsteps):
        b = []
        for _ in range(rng.choice([1, 1, 1, 2, 2, 3])):
            r = rng.random()
            if r < 0.22:
                b.append(R[:])
                nres += 1
            elif r < 0.40:
                b.append(S[:])
                ncallers += 1
            elif r < 0.50:
                b.append(['answer', caller_pick()])
            elif r < 0.58:
                b.append(['cancel', caller_pick()])
            elif r < 0.66:
                b.append(['lose', conn_pick()])
            elif r < 0.73:
                b.append(gen_goaway(rng, conn_pick()))
            elif r < 0.80:
                b.append(['close'])
            elif r < 0.83:
                b.append(['hold', conn_pick()])
            elif r < 0.86:
                b.append(['pause', conn_pick()])
            elif r < 0.91:
                b.append(['resume', conn_pick()])
            elif ka and not any(st[0] in ('kaclose', 'resolve') for st in b):
                b.append(['kaclose'])
            else:
                b.append(R[:])
                nres += 1
        batches.append(b)
    case = {'script': script, 'ka': ka, 'batches': batches}
    add_epilogue(case, ncallers)
    return case


def gen_goaway(rng, c):
    """GOAWAY as a class: error code x last_stream_id {0, highest seen, 2**31-1} x debug data"""
    return ['goaway', c, rng.choice([0, 0, 0, 1, 2, 7, 11, 13]), rng.choice(['zero', 'seen', 'max', 'max']),
            rng.choice([0, 0, 1, 5])]


def gen_after_goaway(rng):
    """directed family: a connection with calls in flight (some answered) receives a GOAWAY of any kind; calls
    started afterwards (same iteration or later, one or several) must reconnect -- exactly one new
    create_connection -- and succeed"""
    n = rng.choice([1, 2, 3])
    batches = [[S[:] for _ in range(n)], [R[:]]]
    ncallers = n
    for k in range(n):
        if rng.random() < 0.5:
            batches.append([['answer', k]])
    g = gen_goaway(rng, 0)
    m = rng.choice([1, 1, 2, 3])
    new = list(range(ncallers, ncallers + m))
    ncallers += m
    if rng.random() < 0.3:
        batches.append([g] + [S[:] for _ in new])
    else:
        batches.append([g])
        if rng.random() < 0.5:
            batches.append([S[:] for _ in new])
        else:
            batches += [[S[:]] for _ in new]
    batches.append([R[:]])
    batches.append([['answer', k] for k in new])
    if rng.random() < 0.4:
        batches.append([gen_goaway(rng, 1)])
        batches += [[S[:]], [R[:]], [['answer', ncallers]]]
        ncallers += 1
    case = {'script': [], 'ka': False, 'batches': batches}
    add_epilogue(case, ncallers)
    return case


def gen_blocked_sender(rng):
    """oracle-only family: client-streaming calls whose sender is blocked on the exhausted flow-control window
    (silent peer: no WINDOW_UPDATE), some of which have ALREADY received their complete response (trailers-only,
    END_STREAM, no RST_STREAM), next to unary calls waiting for a reply; then the connection ends in each way
    (Channel.close(), connection_lost, GOAWAY of any kind, keepalive close with connection_lost delivered or
    withheld followed by close()).  Every such call must be finished by the teardown."""
    ka = rng.random() < 0.4
    kinds = [rng.choice(['startstream', 'startstream', 'start']) for _ in range(rng.choice([1, 2, 3]))]
    if 'startstream' not in kinds:
        kinds[0] = 'startstream'
    batches = [[[k] for k in kinds], [R[:]]]
    ncallers = len(kinds)
    streams = [i for i, k in enumerate(kinds) if k == 'startstream']
    early = [i for i in streams if rng.random() < 0.7] or [streams[0]]
    if rng.random() < 0.5:
        batches.append([['trailers', i] for i in early])
    else:
        batches += [[['trailers', i]] for i in early]
    end = rng.choice(['close', 'lose', 'goaway', 'kaclose', 'hold-kaclose-close'] if ka else
                     ['close', 'close', 'lose', 'goaway'])
    if end == 'close':
        batches.append([['close']])
    elif end == 'lose':
        batches.append([['lose', 0]])
    elif end == 'goaway':
        batches.append([gen_goaway(rng, 0)])
    elif end == 'kaclose':
        batches.append([['kaclose']])
    else:
        batches += [[['hold', 0]], [['kaclose']], [['close']]]
    case = {'script': [], 'ka': ka, 'nomodel_stream': True, 'batches': batches}
    add_epilogue(case, ncallers)
    return case


def gen_close_window(rng):
    """directed family: registered calls in flight on a connection whose transport withholds (or merely
    delays) connection_lost; the connection is closed from one side (keepalive Connection.close(), GOAWAY,
    Channel.close()) and THEN Channel.close() runs -- in the same loop iteration, a later one, or with
    connection_lost never delivered before it.  Every in-flight registered call must be finished when
    close() has run."""
    ka = rng.random() < 0.6
    n = rng.choice([1, 2, 3])
    batches = [[S[:] for _ in range(n)], [R[:]]]
    ncallers = n
    if rng.random() < 0.3:
        batches.append([['answer', rng.randrange(n)]])
    withhold = rng.random() < 0.7
    if withhold:
        batches.append([['hold', 0]])
    first = rng.choice(['kaclose', 'kaclose', 'goaway', 'close'] if ka else ['goaway', 'close'])
    st1 = [first] if first != 'goaway' else gen_goaway(rng, 0)
    extra = []
    if rng.random() < 0.3:
        extra = [S[:]]
        ncallers += 1
    shape = rng.random()
    if shape < 0.4:
        batches.append([st1] + extra + [['close']])          # same loop iteration
    elif shape < 0.8:
        batches.append([st1] + extra)
        if rng.random() < 0.3:
            batches.append([S[:]])
            ncallers += 1
        batches.append([['close']])                           # a later iteration
    else:
        batches.append([st1])
        batches.append([['close'], ['close']])                # close -> close
    if rng.random() < 0.5:
        batches.append([['lose', 0]])
    case = {'script': [], 'ka': ka, 'batches': batches}
    add_epilogue(case, ncallers)
    return case


def add_epilogue(case, ncallers):
    """settle (resolve everything in flight), Channel.close(), then fresh calls: the channel must reconnect
    exactly once and serve them.  One more round per scripted failure that may still be unconsumed."""
    script = case['script']
    nf = sum(1 for o, _ in script if o == 'fail')
    batches = case['batches']
    for _ in range(len(script) + 2):
        batches.append([R[:]])
    # a withheld connection_lost is finally delivered (the harness must not hold it for ever)
    nres = sum(1 for b in batches for st in b if st[0] in ('resolve', 'start'))
    batches.append([['lose', c] for c in range(min(nres, 24))])
    at = len(batches)
    batches.append([['close']])
    rounds = nf + 1
    for i in range(rounds):
        batches.append([S[:]])
        batches.append([R[:]])
        batches.append([['answer', ncallers + i]])
    case['epilogue'] = {'at': at, 'first': ncallers, 'rounds': rounds}


def gen_timed(rng):
    """oracle-only family: attempts take `delay` virtual seconds (asyncio.sleep), callers and faults at PRNG
    instants (quarter seconds)"""
    n = rng.choice([1, 2, 3, 5])
    script, delays = [], []
    for _ in range(rng.choice([1, 2, 3, 4])):
        script.append(['fail' if rng.random() < 0.35 else 'ok', 't'])
        delays.append(rng.choice([0.25, 0.5, 1.0, 1.75, 3.0]))
    batches = []
    ncallers = 0
    nconn = 0
    for _ in range(rng.choice([3, 5, 8, 12])):
        r = rng.random()
        if r < 0.4:
            k = rng.choice([1, 1, 2, 3])
            batches.append([S[:] for _ in range(k)])
            ncallers += k
        elif r < 0.5:
            batches.append([['lose', max(0, nconn - 1)]])
        elif r < 0.6:
            batches.append([['goaway', max(0, nconn - 1)]])
        elif r < 0.7:
            batches.append([['close']])
        elif r < 0.8 and ncallers:
            batches.append([['answer', rng.randrange(ncallers)]])
        batches.append([['advance', rng.choice([0.25, 0.5, 0.75, 1.0, 2.0, 4.0])]])
        nconn += 1
    batches.append([['advance', 20.0]])
    at = len(batches)
    batches.append([['close']])
    nf = sum(1 for o, _ in script if o == 'fail')
    for i in range(nf + 1):
        batches += [[S[:]], [['advance', 5.0]], [['answer', ncallers + i]]]
    return {'script': script, 'delays': delays + [0.5] * 8, 'ka': False, 'timed': True, 'batches': batches,
            'epilogue': {'at': at, 'first': ncallers, 'rounds': nf + 1}}


# ---- one batch of cases through the three legs ---------------------------------------------------

def check_cases(ctx, res, cases):
    imps = []
    kept = []
    for case in cases:
        try:
            imps.append(run_impl(case))
            kept.append(case)
        except Exception as e:      # the implementation did something the harness cannot drive: the tie is broken
            import traceback
            res.evaluations += 1
            res.disagreements.append({'case': case, 'model': None,
                                      'impl': 'harness could not drive the case: %s: %s | %s' % (
                                          type(e).__name__, str(e)[:120], traceback.format_exc()[-300:])})
    cases = kept
    modelled = [i for i, c in enumerate(cases) if not c.get('timed') and not c.get('nomodel_stream')]
    model = None
    if ctx.model_ok and modelled:
        model = dict(zip(modelled, ctx.model([model_line(imps[i]['case']) for i in modelled])))
    for i, (case, imp) in enumerate(zip(cases, imps)):
        res.evaluations += 1
        fam = 'timed' if case.get('timed') else 'blocked-sender' if case.get('nomodel_stream') else \
            ('keepalive' if case.get('ka') else 'plain')
        res.count('family:' + fam)
        for b in case['batches']:
            res.count('batch-size:%d' % min(len(b), 4))
            for st in b:
                res.count('stim:' + st[0])
                if st[0] == 'goaway' and len(st) > 3:
                    res.count('goaway:code=%s:last=%s:debug=%s' % (st[2], st[3], int(bool(st[4]))))
        for o, m in case.get('script', []):
            res.count('attempt:%s:%s' % (o, m))
        final = imp['obs'][-1] if imp['obs'] else {'callers': [], 'conns': []}
        for c in final['callers']:
            res.count('call-outcome:' + (c if not c.startswith('ok:') else 'ok'))
        res.count('callers:%d' % min(len(final['callers']), 12))
        res.count('connections:%d' % min(len(final['conns']), 8))
        res.signatures.add(hash(tuple(imp['lines'])))
        res.sample({'case': case, 'observed': imp['lines'][-1] if imp['lines'] else ''}, limit=4)
        if model is not None and i in model:
            res.traces += 1
            mlines = model[i].split(' | ') if model[i] else []
            if len(mlines) != len(imp['lines']) or not all(same_obs(a, b) for a, b in zip(mlines, imp['lines'])):
                first = next((j for j, (a, b) in enumerate(zip(mlines, imp['lines'])) if not same_obs(a, b)),
                             min(len(mlines), len(imp['lines'])))
                res.disagreements.append({'case': case, 'first_differing_batch': first,
                                          'model': mlines[first:first + 2], 'impl': imp['lines'][first:first + 2]})
        for what, sig in oracle(imp['case'], imp):
            res.oracle_failures.append({'case': case, 'what': what, 'signature': sig,
                                        'observed': imp['lines'][-3:]})
        for a in imp['anomalies']:
            res.notes.append(a) if len(res.notes) < 10 else None
        if imp['unhandled']:
            res.count('loop-exception-handler-calls', len(imp['unhandled']))


RULE = ('command-driven schedules on the real Channel: 1-6 initial callers (one batch or one per loop iteration), '
        'PRNG connect scripts (ok/fail x deferred/inline), then 2-14 batches of 1-3 stimuli applied back to back '
        'inside one loop iteration {start, resolve, answer k, cancel k, lose c, goaway c, close, pause c, resume c, '
        'kaclose (real keepalive timer, 30% of cases), hold c (the transport withholds connection_lost after close())} with indices biased to the newest connection/caller and '
        'sometimes out of range; GOAWAY is a class (error code x last_stream_id {0, highest seen, 2**31-1} x debug '
        'data) with a directed family of calls started after it; a directed family {keepalive close | GOAWAY | close} -> Channel.close() with '
        'connection_lost withheld or delayed and registered calls in flight; epilogue: resolve all, deliver withheld '
        'connection_lost, Channel.close(), fresh calls; an oracle-only family of client-streaming calls blocked in '
        'send_message() on the exhausted window, some with their trailers-only response already received, '
        'followed by each way of ending the connection; plus a timed oracle-only '
        'family (asyncio.sleep attempts, quarter-second instants). distinct = distinct sequences of observation '
        'vectors (creates, in flight, _protocol, lock, waiters, _state, per-connection flags, per-call outcome)')


def run(ctx):
    res = Result()
    res.rule = RULE
    rng = ctx.rng
    cases = [c['case'] if 'case' in c and 'batches' not in c else c for c in ctx.corpus()]
    for _ in range(ctx.n(2500, 40000)):
        cases.append(gen_case(rng))
    for _ in range(ctx.n(400, 6000)):
        cases.append(gen_close_window(rng))
    for _ in range(ctx.n(400, 6000)):
        cases.append(gen_after_goaway(rng))
    for _ in range(ctx.n(120, 2000)):
        cases.append(gen_blocked_sender(rng))
    for _ in range(ctx.n(300, 5000)):
        cases.append(gen_timed(rng))
    check_cases(ctx, res, cases)
    return res


def replay(ctx, case):
    res = Result()
    res.rule = RULE
    check_cases(ctx, res, [case])
    return res
