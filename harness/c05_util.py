"""C05 helpers: running ONE client call / ONE server request of the real grpclib on the virtual loop
with every instant scripted, and observing completion instants, exception classes, the frames on
the wire (with their instants) and the deadline timer.

All client-side instants are integers of TICK = 2^-30 s (only even ones are generated: asyncio fires
timers that are less than its clock resolution of 1 ns ahead, so distinct instants are kept at least
2^-29 s apart); as floats they are exact (<= 47 significant bits), see Model/Deadline.v."""
import asyncio
import struct
import sys
from fractions import Fraction

from h2.events import RequestReceived
from h2.settings import SettingCodes

from grpclib.const import Status
from grpclib.exceptions import GRPCError
from grpclib.metadata import Deadline

from harness import vloop, wire, peer as P
from harness.frames import tap_transport
from harness.svc import Service, CARDS, exc_name

TICK = Fraction(1, 2 ** 30)
S = 2 ** 30                      # ticks per second
FAR = 2 ** 18 * S                # horizon of the client runs (ticks)

CFLAGS = ['_send_request_done', '_send_message_done', '_end_done', '_recv_initial_metadata_done',
          '_recv_trailing_metadata_done', '_cancel_done', '_trailers_only']
KIND = {'connect': 0, 'send_request': 1, 'send_headers': 2, 'send_data': 3, 'end': 4, 'reset': 5,
        'recv_headers': 6, 'recv_message': 7, 'recv_trailers': 8}
UNITS = {'H': Fraction(3600), 'M': Fraction(60), 'S': Fraction(1),
         'm': Fraction(1, 10 ** 3), 'u': Fraction(1, 10 ** 6), 'n': Fraction(1, 10 ** 9)}


def secs(ticks):
    """ticks -> float seconds, checked exact"""
    f = ticks / S
    assert Fraction(f) == Fraction(ticks, S), ticks
    return f


def ticks_of(x):
    """float instant -> ticks (must be exact)"""
    fr = Fraction(x) * S
    if fr.denominator != 1:
        raise ValueError('instant %r is not a whole number of ticks' % (x,))
    return int(fr)


def f2bits(x):
    return struct.pack('>d', x).hex()


def bits2f(h):
    return struct.unpack('>d', bytes.fromhex(h.rjust(16, '0')))[0]


_MISSING = object()


def flags_str(stream, derived=None):
    """the 7 client state flags handed to the model (which path of the generated operation the call
    takes).  They are private attributes: read defensively, and when one is not there under that name
    fall back to the value DERIVED from public observations (frames on the wire, results of the calls
    made so far)."""
    out = []
    for i, n in enumerate(CFLAGS):
        v = getattr(stream, n, _MISSING)
        if v is _MISSING or not isinstance(v, (bool, type(None))):
            v = bool(derived[i]) if derived is not None else False
        out.append('1' if v else '0')
    return ''.join(out) + '00'


def res_class(e):
    """canonical result class of one awaited operation"""
    if e is None:
        return 'ret'
    n = exc_name(e)
    if n == 'Timeout':
        return 'timeout'
    if n == 'Cancelled':
        return 'cancelled'
    if n == 'ProtocolError':
        return 'refused'
    if n == 'StreamTerminated':
        return 'ext'
    return 'error'


def pending_timers(loop, own=()):
    """timers that are armed (scheduled and not cancelled) and were not scheduled by the harness itself.
    Observed at the event loop, by behaviour: whatever grpclib arms for a call shows up here, however
    the callback is spelled (closure, bound method, partial).  A client call has no other timer than
    its deadline's (client keepalive is off by default)."""
    own = {id(h) for h in own if h is not None}
    return [h for h in getattr(loop, '_scheduled', []) if not h.cancelled() and id(h) not in own]


class CEnd(wire.ClientEnd):
    """ClientEnd whose peer announces scripted initial SETTINGS and whose transport may start paused;
    `conditions(now)` is asked when the connection is made."""

    def __init__(self, loop, delay=0, conditions=None):
        super().__init__(loop, connect_script=[('ok', delay)] if delay else None, tap=True)
        self.conditions = conditions or (lambda: {})

    async def attempt(self, factory):
        # one connection attempt, entered from the asyncio boundary (wire.hook_loop_connections) or from the
        # channel's own connect coroutine; `factory` makes the protocol object (role-based: wire.protocol_factory_of)
        self.connects += 1
        kind, delay = self.connect_script.pop(0) if self.connect_script else ('ok', 0)
        if delay:
            await asyncio.sleep(delay)
        cond = self.conditions()
        proto = factory()
        peer = P.Peer(client_side=False, settings=cond.get('settings'))
        tr = wire.MemTransport(proto, self.loop, on_write=peer.receive)
        self.taps.append(tap_transport(tr, self.loop.time))
        peer.attach(tr)
        peer.start()
        proto.connection_made(tr)
        peer.flush()
        if cond.get('paused'):
            tr.pause()
        self.conns.append((proto, tr, peer))
        return proto


# -------------------------------------------------------------------------------------------------
# client: one call

PROGRAMS = {
    # target op -> calls made inside the context (the last one is the target); 'X' = leave the context
    'sr': ['sr'], 'sm': ['sr', 'sm'], 'sm*': ['sm'], 'en': ['sr', 'en'], 'ri': ['sr', 'ri'],
    'rm': ['sr', 'rm'], 'rt': ['sr', 'sm1', 'ri', 'rt'], 'ca': ['sr', 'ca'], 'ex': ['sr', 'sm1'],
    'si': ['sm'],            # send_message with the IMPLICIT send_request (first call of the stream)
}


def client_program(op, reason):
    if op == 'sm' and reason == 'slot':
        return PROGRAMS['sm*']
    return PROGRAMS[op]


def blocking_kinds(op, reason):
    """which await kinds the scripted condition keeps from completing until it is lifted"""
    if reason == 'paused':
        return {'sr': ['send_request'], 'si': ['send_request'], 'sm': ['send_data'], 'en': ['end'],
                'ca': ['reset']}.get(op, [])
    if reason == 'slot':
        return ['send_request']
    if reason == 'credit':
        return ['send_data']
    if reason == 'silent':
        return ['recv_message', 'recv_trailers'] if op == 'rt' else \
            ['recv_headers', 'recv_message', 'recv_trailers']
    return []


def run_client(case):
    """case: t0, timeout (ticks|None), explicit (ticks|None, absolute), delay (ticks), op, reason,
    lift (ticks absolute | None = never).  Returns the observation dict."""
    t0, timeout, explicit = case['t0'], case.get('timeout'), case.get('explicit')
    delay, op, reason, lift = case.get('delay', 0), case['op'], case['reason'], case.get('lift')
    prog = client_program(op, reason)
    target_index = len(prog) - 1 if op != 'ex' else None
    obs = {'ops': [], 'enter': None, 'exit': None, 'frames': [], 'armed_end': None}
    with vloop.session() as loop:
        loop._vtime = secs(t0)

        def lifted():
            return lift is not None and ticks_of(loop.time()) >= lift

        def conditions():
            c = {}
            if lifted():
                return c
            if reason == 'paused' and op in ('sr', 'si'):
                c['paused'] = True
            if reason == 'slot':
                c['settings'] = {SettingCodes.MAX_CONCURRENT_STREAMS: 0}
            if reason == 'credit':
                c['settings'] = {SettingCodes.INITIAL_WINDOW_SIZE: 0}
            return c

        ce = CEnd(loop, delay=secs(delay), conditions=conditions)
        own_timers = []
        st = {'answered': 0}

        def answer(stage):
            """stage 1: initial metadata; stage 2: message + trailers"""
            if not ce.conns:
                return
            sids = [e.stream_id for e in ce.peer.events if isinstance(e, RequestReceived)]
            if not sids:
                return
            sid = sids[0]
            try:
                if st['answered'] < 1 <= stage:
                    ce.peer.headers(sid, P.RESP_HEADERS)
                    st['answered'] = 1
                    st['t1'] = loop.time()
                if st['answered'] < 2 <= stage:
                    ce.peer.data(sid, P.grpc_frame(b'r'))
                    ce.peer.headers(sid, [('grpc-status', '0')], end_stream=True)
                    st['answered'] = 2
            except Exception as e:      # the client reset the stream meanwhile
                obs.setdefault('peer_errors', []).append(type(e).__name__)

        def auto_answer():
            # the peer answers as soon as the request is there, except for what is being withheld
            if reason != 'silent':
                answer(2)
            elif op == 'rt':
                answer(1)
            if reason == 'silent' and lifted():
                answer(2)

        def lift_now():
            if not ce.conns:
                return
            if reason == 'paused':
                ce.transport.resume()
            elif reason == 'slot':
                ce.peer.settings({SettingCodes.MAX_CONCURRENT_STREAMS: 100})
            elif reason == 'credit':
                ce.peer.settings({SettingCodes.INITIAL_WINDOW_SIZE: 65535})
            elif reason == 'silent':
                answer(2)

        kw = {}
        if timeout is not None:
            kw['timeout'] = secs(timeout) if timeout >= 0 else -secs(-timeout)
        if explicit is not None:
            # public constructor: the clock stands at t0 here, the sum is exact
            kw['deadline'] = Deadline.from_timeout(secs(explicit - t0) if explicit >= t0
                                                   else -secs(t0 - explicit))
        stream = ce.channel.request('/v.S/M', CARDS['SS'], bytes, bytes, **kw)

        def call(c):
            return {'sr': lambda: stream.send_request(), 'sm': lambda: stream.send_message(b'm'),
                    'sm1': lambda: stream.send_message(b'm', end=True), 'en': stream.end,
                    'ri': stream.recv_initial_metadata, 'rm': stream.recv_message,
                    'rt': stream.recv_trailing_metadata, 'ca': stream.cancel}[c]()

        derived = [False] * 7       # flags as implied by what is publicly observable

        def observe(c=None, ok=False):
            frames = [fr for tap in ce.taps for fr in tap.frames if fr.stream_id % 2 == 1]
            derived[0] = any(fr.type == 'HEADERS' for fr in frames)                 # request sent
            if c in ('sm', 'sm1') and ok:
                derived[1] = True
            if (c in ('sm1', 'en') and ok):
                derived[2] = True
            if c == 'ri' and ok or c == 'rt' and ok or \
                    c == 'rm' and (ok or (st.get('t1') is not None and st['t1'] < loop.time())):
                derived[3] = True
            if c == 'rt' and ok:
                derived[4] = True
            if c == 'ca' and ok:
                derived[5] = True

        async def app():
            try:
                await stream.__aenter__()
                obs['enter'] = ('ret', ticks_of(loop.time()))
            except BaseException as e:
                obs['enter'] = (res_class(e), ticks_of(loop.time()))
                return
            body_exc = None
            for i, c in enumerate(prog):
                if i == target_index and reason == 'paused' and op not in ('sr', 'si') and not lifted() \
                        and ce.conns:
                    ce.transport.pause()
                observe()
                rec = {'call': c, 'flags': flags_str(stream, derived), 'start': ticks_of(loop.time()),
                       'res': 'pending', 'at': None, 'msg': False}
                obs['ops'].append(rec)
                try:
                    r = await call(c)
                    rec['res'], rec['at'] = 'ret', ticks_of(loop.time())
                    rec['msg'] = r is not None
                    observe(c, True)
                except BaseException as e:
                    rec['res'], rec['at'] = res_class(e), ticks_of(loop.time())
                    body_exc = e
                    observe(c, False)
                    break
                if c in ('sr', 'sm', 'sm1'):
                    loop.call_soon(auto_answer)
                    await asyncio.sleep(0)          # let the peer's immediate answer arrive
                    await asyncio.sleep(0)
            rec = {'call': 'X', 'flags': flags_str(stream, derived), 'start': ticks_of(loop.time()),
                   'res': 'pending', 'at': None, 'exc': body_exc is not None,
                   'closing': bool(ce.conns) and ce.transport.is_closing()}
            obs['exit'] = rec
            try:
                if body_exc is None:
                    await stream.__aexit__(None, None, None)
                else:
                    await stream.__aexit__(type(body_exc), body_exc, body_exc.__traceback__)
                rec['res'], rec['at'] = 'ret', ticks_of(loop.time())
            except BaseException as e:
                rec['res'], rec['at'] = res_class(e), ticks_of(loop.time())
            obs['armed_after_exit'] = len(pending_timers(loop, own_timers))

        # a BYSTANDER: an unrelated call without timeout (its own channel), blocked in recv_message for
        # the whole run -- no timer of anybody may ever interrupt it
        by = {'res': 'pending'}
        task2 = None
        if case.get('bystander', True):
            ce2 = wire.ClientEnd(loop)
            stream2 = ce2.channel.request('/v.S/B', CARDS['SS'], bytes, bytes)

            async def bystander():
                try:
                    async with stream2:
                        await stream2.send_request()
                        await stream2.recv_message()
                    by['res'] = 'ret'
                except BaseException as e:
                    by['res'] = res_class(e)
                    by['at'] = loop.time()
                    raise
            task2 = loop.create_task(bystander())
        task = loop.create_task(app())
        if lift is not None:
            own_timers.append(loop.call_at(secs(lift), lift_now))
        r = loop.run_until(secs(FAR))
        obs['stop'] = r
        obs['app_done'] = task.done()

        obs['unhandled'] = len(loop.unhandled)
        obs['armed_end'] = len(pending_timers(loop, own_timers))
        obs['clock'] = loop.time()
        for tap in ce.taps:
            for fr in tap.frames:
                if fr.type == 'HEADERS' and fr.stream_id % 2 == 1:
                    obs['frames'].append((ticks_of(fr.time), dict(fr.headers).get('grpc-timeout'),
                                          sum(1 for k, _ in fr.headers if k == 'grpc-timeout')))
                    break
        obs['bystander'] = dict(by)
        import copy
        final = copy.deepcopy(obs)          # snapshot: the teardown below cancels what is still pending
        task.cancel()
        if task2 is not None:
            task2.cancel()
    return final


# -------------------------------------------------------------------------------------------------
# server: one request

def run_server(case):
    """case: a (float instant), values (list of grpc-timeout header values), dur (float), fin,
    cancel ('h' | ('s', extra, fin)), trailers_first, card ('UU'|'US'|'SU'|'SS'), reply ('direct' |
    'listener': a SendTrailingMetadata listener that really awaits | 'paused': the transport is paused
    when the request arrives and resumed `resume` seconds later, so that the reply's send_headers waits
    for write_ready).  Returns the observation dict."""
    from grpclib.events import listen, SendTrailingMetadata
    a, values, dur = case['a'], case['values'], case['dur']
    fin, cancel, tf = case['fin'], case['cancel'], case.get('trailers_first', False)
    card, reply = case.get('card', 'SS'), case.get('reply', 'direct')
    span = case.get('span', 7000.0)
    obs = {'started': None, 'cancel_at': None, 'cancels': 0, 'status': None, 'status_at': None,
           'second_cancel': False, 'listener_calls': 0, 'bystander_cancelled': None}
    with vloop.session() as loop:
        loop._vtime = a

        async def finish(stream, kind):
            if kind == 'ret' and card[1] == 'U' and not tf:
                await stream.send_message(b'r')
            if kind == 'other':
                raise ValueError('handler failed')
            if kind == 'grpc':
                raise GRPCError(Status.NOT_FOUND, 'own')
            if kind == 'timeout':
                raise asyncio.TimeoutError('own timeout')

        async def handler(stream):
            obs['started'] = loop.time()
            if a >= 2.0 ** 23:
                return      # asyncio cannot fire timers up there (time() + 1e-9 == time()): never sleep
            if tf:
                if card[1] == 'U':
                    await stream.send_message(b'r')     # a unary reply needs its message before OK trailers
                await stream.send_trailing_metadata()
            try:
                await asyncio.sleep(dur)
            except asyncio.CancelledError:
                obs['cancel_at'] = loop.time()
                obs['cancels'] += 1
                if cancel == 'h':
                    raise
                try:
                    await asyncio.sleep(cancel[1])
                except asyncio.CancelledError:
                    obs['second_cancel'] = True
                    raise
                await finish(stream, cancel[2])
                return
            await finish(stream, fin)

        async def bystander(stream):
            # an unrelated request WITHOUT grpc-timeout, waiting for the whole run: never interrupted
            obs['bystander_started'] = True
            try:
                await asyncio.Event().wait()
            except asyncio.CancelledError:
                obs['bystander_cancelled'] = loop.time()
                raise

        se = wire.ServerEnd(loop, [Service('v.S', {'M': (handler, card), 'B': (bystander, 'SS')})],
                            tap=True)
        if reply == 'listener':
            async def on_trailers(event):
                obs['listener_calls'] += 1
                await asyncio.sleep(0)          # a listener that really suspends
            listen(se.server, SendTrailingMetadata, on_trailers)
        loop.run_quiet(0)
        if case.get('bystander', True):
            se.peer.request([(k, '/v.S/B' if k == ':path' else v) for k, v in P.REQ_HEADERS])
            loop.run_quiet(0)
        sid = se.peer.request(P.REQ_HEADERS + [('grpc-timeout', v) for v in values])
        if reply == 'paused':
            se.transport.pause()
            obs['stop1'] = loop.run_quiet(case.get('resume', 1.0))
            se.transport.resume()
            span = max(span - case.get('resume', 1.0), 64.0)   # stay clear of the 7200 s server keepalive
        obs['stop'] = loop.run_quiet(span)
        for fr in se.taps[-1].frames:
            if fr.type == 'HEADERS' and fr.stream_id == sid:
                hs = dict(fr.headers)
                if 'grpc-status' in hs and obs['status'] is None:
                    obs['status'] = hs['grpc-status']
                    obs['status_at'] = fr.time
                    obs['http_status'] = hs.get(':status')
                    obs['message'] = hs.get('grpc-message')
        obs['unhandled'] = len(loop.unhandled)
        final = dict(obs)           # snapshot: the teardown cancels the bystander
    return final
