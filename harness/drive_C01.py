"""C01 -- messages arrive intact and in order for every size, window and fragmentation.

Correspondence of Model/Framing.v + Model/RecvBuffer.v + Model/SendChunk.v with the real grpclib:
  buf    real grpclib.protocol.Buffer driven op by op (add / eof / read started / reader resumed)
  recv   real grpclib.stream.recv_message over a real protocol.Stream(+Buffer), op by op
  psend  real Stream.send_data (through client/server send_message) against a real h2 connection
         whose windows / max frame size are scripted by the peer; the (window, max_frame) pairs the
         loop observes are recorded at the h2 API boundary and given to the model
  precv  scripted peer -> real client / real server: the byte stream re-cut into DATA frames
         (zero-length, padded, zero-length padded) and into TCP read chunks; the frames seen by
         Buffer.add are recorded and given to the model
  link   real client <-> real server over harness.wire.Link with a PRNG cutter, both directions
and the direct oracle: received == sent, in order, then end-of-stream; an error iff truncated.
"""
import asyncio
import logging
import struct
import sys
import zlib

from harness import vloop, wire, peer as P
from harness.core import Result
from harness.svc import RawCodec, Service, exc_name

PROPERTY = 'C01'
THEOREM_FILES = ['Props/C01.v']
ALLOWED_AXIOMS = []
LABEL = ('full for the model (framing, Buffer, recv_message, send_data chunk loop; every size, cut, '
         'padding and schedule); the codec is outside (messages are opaque byte strings); one boundary '
         'recorded as finding D41 (recv_message called again after it raised on a truncated stream)')
TRUSTED = ['modelled, not verified: asyncio.Queue.get/put_nowait wake-up (a blocked get returns the head '
           'item once one exists), BytesIO.read, struct.pack/unpack of "?" and ">I", hyper-h2 turning '
           'DATA frames into DataReceived(data, flow_controlled_length = len + padding + 1)',
           'ocaml/dC01.ml re-executes itself once under `ulimit -s unlimited` (extracted list functions '
           'are not tail recursive); payload bytes are generated on both sides from (seed, index, size) '
           'and compared as length + adler32',
           'observation of (window, max_frame_size) at the h2 API boundary (instance wrapper around '
           'H2Connection.local_flow_control_window); Buffer.add/eof calls recorded by a class wrapper']
ASSUMPTIONS = ['one task at a time calls recv_message on a stream (no concurrent readers of one Buffer)',
               'the consumer stops calling recv_message after end-of-stream or the first exception '
               '(see finding D41 for what happens otherwise)',
               'no cancellation of recv_message between its two reads (outside the quantifier of C01: a '
               'cancelled call loses the 5-byte prefix it already consumed)',
               'flow_controlled_length >= len(data) for every DATA event (h2 guarantees it)',
               'messages shorter than 4 GiB (struct.error otherwise, theorem C01_send_frame_domain)']

logging.getLogger('grpclib').setLevel(logging.CRITICAL)

MODEL_BYTES_LIMIT = 300 * 1024     # larger streams go through the oracle (and the size model) only


# ---- payload generator shared with ocaml/dC01.ml ---------------------------------------------------

def gen_msg(seed, i, n):
    a = seed * 7 + i * 29 + 11
    pat = bytes((a + j * 13) & 255 for j in range(251))
    return (pat * (n // 251 + 1))[:n]


def digest(b):
    return '%d.%d' % (len(b), zlib.adler32(b) & 0xffffffff)


def grpc_frame(m):
    return b'\0' + struct.pack('>I', len(m)) + m


def credits(cr):
    return ','.join(str(c) for c in cr) if cr else '-'


def buf_summary(buf):
    return '|%d,%d,%d,%d' % (buf._acked_size, buf._unacked.qsize(), 1 if buf._eof else 0, len(buf._acked))


def err_token(e):
    if isinstance(e, AssertionError):
        return 'Xassert'
    if isinstance(e, IndexError):
        return 'Xindex'
    if isinstance(e, struct.error):
        return 'Xstruct'
    if isinstance(e, NotImplementedError):
        return 'Xnotimpl'
    return 'X' + type(e).__name__


def parse_add(tok):
    a, b = tok[1:].split('.')
    return int(a), int(b)


# ---- (a) Buffer level ------------------------------------------------------------------------------

def buf_line(c):
    return 'buf %d %s' % (c['seed'], ' '.join(c['ops']))


def impl_buf(loop, c):
    from grpclib.protocol import Buffer
    acks = []
    buf = Buffer(acks.append)
    total = sum(parse_add(o)[0] for o in c['ops'] if o[0] == 'a')
    stream = gen_msg(c['seed'], 0, total)
    pos = 0
    task = None
    out = []

    def step():
        nonlocal task
        loop.run_quiet(1)
        cr = credits(acks)
        del acks[:]
        if task.done():
            e = task.exception()
            out.append((err_token(e) if e is not None else 'D' + digest(task.result())) + ':' + cr)
            task = None
        else:
            out.append('B:' + cr)
    for o in c['ops']:
        if o[0] == 'a':
            n, a = parse_add(o)
            buf.add(stream[pos:pos + n], a)
            pos += n
        elif o == 'e':
            buf.eof()
        elif o[0] == 'r':
            if task is None:
                task = loop.create_task(buf.read(int(o[1:])))
            step()
        elif o == 's':
            if task is None:
                out.append('N:-')
            else:
                step()
    if task is not None:
        task.cancel()
        loop.run_quiet(1)
    out.append(buf_summary(buf))
    return ' '.join(out)


def gen_buf_case(rng):
    """mostly legal histories; ~15% with add-after-eof / double eof / zero or negative read sizes.
    r<n> while a read is pending counts as a resume on both sides."""
    ops = []
    closed = False
    wild = rng.random() < 0.15
    for _ in range(rng.choice([3, 6, 10, 16, 24])):
        r = rng.random()
        if r < 0.45 and (not closed or wild):
            n = rng.choice([0, 0, 1, 1, 2, 3, 4, 5, 6, 9, 17, 100])
            pad = rng.choice([0, 0, 0, 1, 2, 256]) if n or rng.random() < 0.5 else 0
            ops.append('a%d.%d' % (n, n + pad))
        elif r < 0.52 and (not closed or wild):
            ops.append('e')
            closed = True
        elif r < 0.85:
            n = rng.choice([1, 1, 2, 4, 5, 5, 5, 6, 7, 11, 50]) if not wild else rng.choice([-1, 0, 0, 3, 5])
            ops.append('r%d' % n)
        else:
            ops.append('s')
    return {'kind': 'buf', 'seed': rng.randrange(1, 1000), 'ops': ops}


# ---- (b) recv_message level --------------------------------------------------------------------------

def recv_line(c):
    return 'recv %d %d %s %d %s %s' % (c['seed'], c['keep'], c['tail'] or '-', len(c['sizes']),
                                       ' '.join(str(s) for s in c['sizes']), ' '.join(c['ops']))


def recv_stream(c):
    s = b''.join(grpc_frame(gen_msg(c['seed'], i, n)) for i, n in enumerate(c['sizes']))
    s += bytes.fromhex(c['tail']) if c['tail'] else b''
    return s if c['keep'] < 0 else s[:c['keep']]


class _FakeConn:
    """what protocol.Stream needs from its Connection in order to receive"""
    streams_started = 0
    last_stream_created = None

    def __init__(self):
        self.acks = []

    def ack(self, stream_id, size):
        self.acks.append(size)


def impl_recv(loop, c):
    from grpclib.protocol import Stream
    from grpclib.stream import recv_message
    conn = _FakeConn()
    st = Stream(conn, None, None, stream_id=1)
    stream = recv_stream(c)
    pos = 0
    task = None
    out = []
    codec = RawCodec()
    for o in c['ops']:
        if o[0] == 'a':
            n, a = parse_add(o)
            assert pos + n <= len(stream), 'case delivers more than the stream holds'
            st.buffer.add(stream[pos:pos + n], a)
            pos += n
        elif o == 'e':
            st.buffer.eof()
        elif o == 'r':
            if task is None:
                task = loop.create_task(recv_message(st, codec, bytes))
            loop.run_quiet(1)
            cr = credits(conn.acks)
            del conn.acks[:]
            if task.done():
                e = task.exception()
                if e is not None:
                    tok = err_token(e)
                else:
                    v = task.result()
                    tok = 'EOS' if v is None else 'M' + digest(v)
                task = None
            else:
                tok = '-'
            out.append(tok + ':' + cr)
    if task is not None:
        task.cancel()
        loop.run_quiet(1)
    out.append(buf_summary(st.buffer))
    return ' '.join(out)


def py_parse(stream):
    """independent reference: (complete messages, 'clean' | 'truncated' | 'compressed')"""
    msgs, pos = [], 0
    while pos < len(stream):
        if len(stream) - pos < 5:
            return msgs, 'truncated'
        if stream[pos] != 0:
            return msgs, 'compressed'
        n = int.from_bytes(stream[pos + 1:pos + 5], 'big')
        if len(stream) - pos - 5 < n:
            return msgs, 'truncated'
        msgs.append(stream[pos + 5:pos + 5 + n])
        pos += 5 + n
    return msgs, 'clean'


def oracle_results(results, stream, delivered_all, ended, enough_reads, what):
    """The property on one receiver.  results = tokens ('M<digest>' | 'EOS' | 'X..' ) in the order
    returned, for a consumer that may go on after a terminal result (raw).  Returns a list of
    (text, kind)."""
    bad = []
    msgs, status = py_parse(stream)
    exp = ['M' + digest(m) for m in msgs]
    term = {'clean': 'EOS', 'truncated': 'Xassert', 'compressed': 'Xnotimpl'}[status]
    # consumer view: up to and including the first terminal result
    view = []
    for r in results:
        view.append(r)
        if not r.startswith('M'):
            break
    after = results[len(view):]
    got_msgs = [r for r in view if r.startswith('M')]
    if got_msgs != exp[:len(got_msgs)]:
        i = next(k for k in range(len(got_msgs)) if k >= len(exp) or got_msgs[k] != exp[k])
        kind = 'fabricated'
        if got_msgs[i] in exp:
            kind = 'duplicated-or-reordered'
        elif any(e.split('.')[0] != got_msgs[i].split('.')[0] for e in exp[i:i + 1]):
            kind = 'truncated-message'
        bad.append(('%s: message %d differs from what was sent (%s)' % (what, i, kind), kind))
    if view and not view[-1].startswith('M'):
        t = view[-1]
        if t == 'EOS' and not (ended and delivered_all and status == 'clean' and len(got_msgs) == len(exp)):
            bad.append(('%s: end-of-stream reported although %s' % (
                what, 'the stream was cut inside a message' if status != 'clean' else
                'not everything was returned / the sender has not ended'), 'eos-early'))
        if t.startswith('X') and status == 'clean':
            bad.append(('%s: %s on a clean stream' % (what, t), 'error-on-clean'))
        if t.startswith('X') and status != 'clean' and not (t == term and len(got_msgs) == len(exp)):
            bad.append(('%s: %s instead of the complete messages followed by %s' % (what, t, term),
                        'wrong-error'))
    if delivered_all and ended and enough_reads:
        if view != exp + [term]:
            if status == 'truncated' and view[-1:] == ['EOS']:
                bad.append(('%s: truncated stream ended without an error' % what, 'no-error-on-truncated'))
            elif not bad:
                bad.append(('%s: everything delivered and the stream ended, but the receiver got %d of '
                            '%d results' % (what, len(view), len(exp) + 1), 'incomplete'))
    elif delivered_all and enough_reads and not bad and got_msgs != exp and \
            (not view or view[-1].startswith('M')):
        # the sender has not ended: every message whose bytes have all arrived must still come out
        bad.append(('%s: all bytes of %d messages delivered and the receiver scheduled, but only %d '
                    'returned (a message is held back until more data or END_STREAM arrives)'
                    % (what, len(exp), len(got_msgs)), 'held-back'))
    # calls made after the terminal result (not part of the consumer contract of C01, but a message
    # returned there is fabricated all the same)
    if any(r.startswith('M') for r in after) and view[-1].startswith('X'):
        bad.append(('%s: recv_message called again after %s returned a message that was never sent'
                    % (what, view[-1]), 'read-after-error'))
    if view[-1:] == ['EOS'] and any(r != 'EOS' for r in after):
        bad.append(('%s: end-of-stream not sticky' % what, 'eos-not-sticky'))
    return bad


def oracle_recv(c, impl):
    toks = impl.split(' ')[:-1]
    results = [t.split(':')[0] for t in toks if t.split(':')[0] != '-']
    stream = recv_stream(c)
    delivered = sum(parse_add(o)[0] for o in c['ops'] if o[0] == 'a')
    ended = 'e' in c['ops']
    # reads made after everything (and END_STREAM) was delivered
    last = max([i for i, o in enumerate(c['ops']) if o[0] in 'ae'] + [-1])
    tail_reads = sum(1 for o in c['ops'][last + 1:] if o == 'r')
    msgs, _ = py_parse(stream)
    return oracle_results(results, stream, delivered == len(stream), ended,
                          tail_reads >= len(msgs) + 1, 'recv_message')


SIZES_SMALL = [0, 0, 1, 1, 4, 5, 6, 7, 16, 40, 255, 256, 257, 1000]


def cut_ops(rng, total, with_reads=True, empties=True):
    """PRNG partition of `total` bytes into add tokens with paddings, empty frames and reads"""
    ops = []
    pos = 0
    style = rng.choice(['one', 'bytes', 'small', 'mixed', 'mixed'])
    while pos < total:
        if style == 'one':
            n = total - pos
        elif style == 'bytes':
            n = 1
        elif style == 'small':
            n = rng.choice([1, 2, 3, 4, 5, 6])
        else:
            n = rng.choice([1, 2, 3, 5, 8, 64, 1000, total])
        n = min(n, total - pos)
        pad = rng.choice([0, 0, 0, 1, 3, 256])
        ops.append('a%d.%d' % (n, n + pad))
        pos += n
        if empties and rng.random() < 0.25:
            ops.append(rng.choice(['a0.0', 'a0.0', 'a0.1', 'a0.4', 'a0.256']))
        if with_reads and rng.random() < 0.4:
            ops += ['r'] * rng.choice([1, 1, 2])
    return ops


def gen_recv_case(rng):
    sizes = [rng.choice(SIZES_SMALL) for _ in range(rng.choice([0, 1, 1, 2, 3, 5]))]
    seed = rng.randrange(1, 1000)
    c = {'kind': 'recv', 'seed': seed, 'keep': -1, 'tail': '', 'sizes': sizes, 'ops': []}
    kind = rng.choice(['clean'] * 5 + ['trunc'] * 3 + ['open', 'compressed', 'after'])
    full = recv_stream(c)
    if kind == 'trunc' and full:
        c['keep'] = rng.randrange(0, len(full) + 1)
        if rng.random() < 0.5 and sizes:        # cut near a boundary of the last frame
            start = len(full) - (5 + sizes[-1])
            c['keep'] = min(len(full), start + rng.choice([0, 1, 4, 5, 6, 5 + sizes[-1] - 1]))
    elif kind == 'compressed':
        c['tail'] = rng.choice(['0100000001aa', '01', 'ff00000000', '0200000002aabb'])
    stream = recv_stream(c)
    ops = (['r'] if rng.random() < 0.5 else []) + cut_ops(rng, len(stream))
    if kind != 'open':
        ops.append('e')
    nm = len(py_parse(stream)[0])
    ops += ['r'] * (nm + 1 if rng.random() < 0.8 else rng.randrange(0, nm + 2))
    if kind == 'after' or rng.random() < 0.1:
        ops += ['r'] * rng.choice([1, 2, 3])                     # calls after the terminal result
    c['ops'] = ops
    return c


# ---- (c) sender: Stream.send_data against scripted windows ---------------------------------------------

def send_line(length, obs):
    return 'send %d %s' % (length, ' '.join('%d.%d' % o for o in obs))


WINDOWS = [65535, 65536, 1 << 20]
MAXFRAMES = [16384, 16385, (1 << 24) - 1]


def size_menu(frame, window):
    return [0, 1, 4, 5, 6, frame - 1, frame, frame + 1, window - 1, window, window + 1, 3 * window]


def run_psend(loop, c, rng_factory):
    """c: side, iw (peer INITIAL_WINDOW_SIZE), cw (connection window), mf, sizes, seed, script seed"""
    from grpclib.client import StreamStreamMethod
    from h2.events import DataReceived, RequestReceived, StreamEnded
    from h2.settings import SettingCodes
    rng = rng_factory(c['script'])
    msgs = [gen_msg(c['seed'], i, n) for i, n in enumerate(c['sizes'])]
    obs, marks = [], []
    gate = asyncio.Event()
    state = {}

    def spy_on(proto):
        h2c = proto.connection._connection
        orig = h2c.local_flow_control_window

        def spy(sid):
            w = orig(sid)
            # h2's own send_data asks too; only the reads made by grpclib's loop are observations
            if sys._getframe(1).f_code.co_filename.endswith('grpclib/protocol.py'):
                obs.append((w, h2c.max_outbound_frame_size))
            return w
        h2c.local_flow_control_window = spy

    async def send_all(st):
        await gate.wait()
        for m in msgs:
            marks.append(len(obs))
            await st.send_message(m)
        marks.append(len(obs))

    if c['side'] == 'client':
        end = wire.ClientEnd(loop)
        method = StreamStreamMethod(end.channel, '/v.S/M', bytes, bytes)

        async def call():
            async with method.open() as st:
                await st.send_request()
                await send_all(st)
                await st.end()
                state['last'] = await st.recv_message()
        task = loop.create_task(call())
        loop.run_quiet(1)
        peer = end.peer
        sid = [e for e in peer.take_events() if isinstance(e, RequestReceived)][0].stream_id
    else:
        async def handler(st):
            await send_all(st)
        end = wire.ServerEnd(loop, [Service('v.S', {'M': (handler, 'SS')})])
        loop.run_quiet(1)
        peer = end.peer
        peer.take_events()
        sid = peer.request(P.REQ_HEADERS)
        loop.run_quiet(1)
        task = None
    peer.auto_ack = False
    spy_on(end.proto)
    peer.settings({SettingCodes.INITIAL_WINDOW_SIZE: c['iw'], SettingCodes.MAX_FRAME_SIZE: c['mf']})
    if c['cw'] > 65535:
        peer.window_update(0, c['cw'] - 65535)
    loop.run_quiet(1)
    gate.set()
    total = sum(5 + len(m) for m in msgs)
    frames = []          # payload sizes of DATA frames in order
    wire_bytes = bytearray()
    ended = False

    def drain():
        nonlocal ended
        for e in peer.take_events():
            if isinstance(e, DataReceived) and e.stream_id == sid:
                if not e.data and e.stream_ended is not None and len(wire_bytes) >= total:
                    continue                 # the empty END_STREAM frame of Stream.end()
                frames.append(len(e.data))
                wire_bytes.extend(e.data)
            elif isinstance(e, StreamEnded) and e.stream_id == sid:
                ended = True
    rounds = 0
    while True:
        loop.run_quiet(1)
        drain()
        if len(wire_bytes) >= total or rounds > 400:
            break
        rounds += 1
        # the sender is out of credit (or done): the peer acts
        r = rng.random()
        left = total - len(wire_bytes)
        if r < 0.1:
            peer.settings({SettingCodes.MAX_FRAME_SIZE: rng.choice(MAXFRAMES + [20000])})
        elif r < 0.2:
            peer.settings({SettingCodes.INITIAL_WINDOW_SIZE: rng.choice([0, 1, 100, 65535, 70000, c['iw']])})
        else:
            inc = rng.choice([1, 2, 5, 1000, 16384, 16385, 65535, left, left, 2 * left])
            inc = max(1, min(inc, (1 << 30)))
            which = rng.choice(['s', 'c', 'both', 'both'])
            try:
                if which in ('s', 'both'):
                    peer.window_update(sid, inc)
                if which in ('c', 'both'):
                    peer.window_update(0, inc)
            except Exception:
                pass
        if rounds > 300:         # make sure the case ends: open both windows wide
            try:
                peer.settings({SettingCodes.INITIAL_WINDOW_SIZE: 1 << 30})
                peer.window_update(0, 1 << 29)
            except Exception:
                pass
    if c['side'] == 'client':
        loop.run_quiet(1)
        drain()
        peer.headers(sid, P.RESP_HEADERS)
        peer.headers(sid, [('grpc-status', '0')], end_stream=True)
        loop.run_quiet(1)
    else:
        loop.run_quiet(1)
        drain()
    return {'frames': frames, 'wire': bytes(wire_bytes), 'obs': obs, 'marks': marks, 'msgs': msgs,
            'violations': [type(v).__name__ for v in peer.violations], 'rounds': rounds,
            'ended': ended, 'task': vloop.outcome(task)[0] if task is not None else None}


def check_psend(ctx, res, cases, rng_factory):
    runs = []
    lines = []
    for c in cases:
        with vloop.session() as loop:
            try:
                o = run_psend(loop, c, rng_factory)
            except Exception as e:        # harness trouble is a broken tie, not a pass
                o = {'error': repr(e)}
        runs.append(o)
        if 'error' not in o and len(o['marks']) == len(o['msgs']) + 1:
            for i, m in enumerate(o['msgs']):
                lines.append(send_line(5 + len(m), o['obs'][o['marks'][i]:o['marks'][i + 1]]))
    model = ctx.model(lines) if ctx.model_ok and lines else None
    k = 0
    for c, o in zip(cases, runs):
        res.evaluations += 1
        res.count('psend:%s' % c['side'])
        res.signatures.add(('psend', c['side'], c['iw'], c['cw'], c['mf'], tuple(c['sizes'])))
        if 'error' in o:
            res.disagreements.append({'case': c, 'model': None, 'impl': o['error']})
            continue
        res.sample({'kind': 'psend', 'case': c, 'data_frames': o['frames'][:12], 'observations': o['obs'][:8]},
                   limit=8)
        for f in o['frames']:
            res.count('psend:frame<=%d' % (1 << max(0, (f - 1)).bit_length()))
        complete = len(o['marks']) == len(o['msgs']) + 1
        if model is not None and complete:
            res.traces += 1
            sizes = []
            ok = True
            for _ in o['msgs']:
                body, st = model[k].split(';')
                k += 1
                sizes += [int(x) for x in body.split(',')] if body != '-' else []
                ok = ok and st == 'done'
            if sizes != o['frames'] or not ok:
                res.disagreements.append({'case': c, 'model': {'frames': sizes, 'all_done': ok},
                                          'impl': {'frames': o['frames']}})
        # direct oracle: the bytes on the wire are the frames of the messages, in order; every DATA
        # frame fitted the window and frame size the peer had granted (strict h2 raised otherwise)
        exp = b''.join(grpc_frame(m) for m in o['msgs'])
        sig = None
        if o['wire'] != exp:
            sig, what = 'wire-bytes', 'bytes sent differ from the frames of the messages (%d vs %d bytes)' % (
                len(o['wire']), len(exp))
        elif o['violations']:
            sig, what = 'flow-control', 'peer h2 rejected what grpclib sent: %s' % o['violations'][:2]
        elif not complete or o['rounds'] > 400:
            sig, what = 'sender-stalled', 'sender did not finish although credit kept coming'
        if sig:
            res.oracle_failures.append({'case': c, 'what': what, 'signature': {'kind': 'psend', 'fail': sig},
                                        'observed': {'frames': o['frames'][:40], 'obs': o['obs'][:40]}})


def gen_psend_cases(ctx, rng):
    cases = []
    combos = [(iw, cw, mf) for iw in WINDOWS for cw in WINDOWS for mf in MAXFRAMES]
    rng.shuffle(combos)
    n = ctx.n(27, 27 * 4)
    for j in range(n):
        iw, cw, mf = combos[j % len(combos)]
        window = min(iw, cw)
        menu = size_menu(min(mf, 16385), window)
        big = window >= (1 << 20)
        k = rng.choice([1, 2, 3]) if not big else 1
        sizes = [rng.choice(menu) for _ in range(k)]
        if big and j % 3:
            sizes = [rng.choice(menu[:9])]          # keep most 1 MiB cases light
        cases.append({'kind': 'psend', 'side': rng.choice(['client', 'server']), 'iw': iw, 'cw': cw,
                      'mf': mf, 'sizes': sizes, 'seed': rng.randrange(1, 1000),
                      'script': rng.randrange(1 << 30)})
    return cases


# ---- recording what reaches the buffers -----------------------------------------------------------------

class BufferTap:
    """records Buffer.add / Buffer.eof calls per buffer (class-level wrapper, removed on exit)"""

    def __enter__(self):
        from grpclib import protocol
        self.cls = protocol.Buffer
        self.orig_add, self.orig_eof = self.cls.add, self.cls.eof
        self.log = {}
        tap = self

        def add(b, data, ack_size):
            tap.keep.append(b)           # keep the object alive: ids must not be reused within a case
            tap.log.setdefault(id(b), []).append(('a', len(data), ack_size))
            return tap.orig_add(b, data, ack_size)

        def eof(b):
            tap.keep.append(b)
            tap.log.setdefault(id(b), []).append(('e',))
            return tap.orig_eof(b)
        self.cls.add, self.cls.eof = add, eof
        self.keep = []
        return self

    def reset(self):
        self.log = {}
        self.keep = []

    def __exit__(self, *a):
        self.cls.add, self.cls.eof = self.orig_add, self.orig_eof

    def ops(self, buf):
        return ['a%d.%d' % (x[1], x[2]) if x[0] == 'a' else 'e' for x in self.log.get(id(buf), [])]


def tokens_of(got):
    out = []
    for g in got:
        if isinstance(g, bytes):
            out.append('M' + digest(g))
        elif g is None:
            out.append('EOS')
        else:
            out.append(err_token(g))
    return out


# ---- (d) scripted peer -> real receiver ------------------------------------------------------------------

def plan_frames(rng, stream, max_frame):
    """cut the byte stream into DATA frames: (data, pad or None); zero-length and padded ones included"""
    frames = []
    pos = 0
    style = rng.choice(['max', 'mixed', 'mixed', 'tiny'])
    while pos < len(stream):
        left = len(stream) - pos
        if style == 'max':
            n = max_frame
        elif style == 'tiny' and len(stream) < 4000:
            n = rng.choice([1, 1, 2, 3])
        else:
            n = rng.choice([1, 2, 3, 5, 100, 1000, 16383, max_frame, max_frame])
        n = min(n, left, max_frame)
        pad = None
        if rng.random() < 0.2:
            pad = rng.choice([0, 1, 3, 255])
            n = max(1, min(n, max_frame - pad - 1))
        frames.append((stream[pos:pos + n], pad))
        pos += n
        r = rng.random()
        if r < 0.12:
            frames.append((b'', None))                       # the frame of defect D1
        elif r < 0.2:
            frames.append((b'', rng.choice([0, 3, 255])))    # empty but padded: carries credit
    if not frames or rng.random() < 0.3:
        frames.insert(rng.randrange(0, len(frames) + 1), (b'', None))
    return frames


def run_precv(loop, c, rng_factory, tap):
    from grpclib.client import StreamStreamMethod
    from grpclib.config import Configuration
    from h2.events import RequestReceived
    rng = rng_factory(c['script'])
    stream = recv_stream(c)
    cfg = Configuration(http2_connection_window_size=c['cw'], http2_stream_window_size=c['sw'])
    got = []
    state = {'buf': None}
    delays = c.get('delays', False)

    async def consume(st):
        state['buf'] = st._stream.buffer
        try:
            while True:
                m = await st.recv_message()
                got.append(m)
                if m is None:
                    break
                if delays and rng.random() < 0.3:
                    await asyncio.sleep(rng.choice([0.001, 0.5, 3]))
        except Exception as e:
            got.append(e)
            raise

    if c['side'] == 'client':
        end = wire.ClientEnd(loop, config=cfg)
        method = StreamStreamMethod(end.channel, '/v.S/M', bytes, bytes)

        async def call():
            async with method.open() as st:
                await st.send_request()
                await st.end()
                await consume(st)
        task = loop.create_task(call())
        loop.run_quiet(1)
        peer = end.peer
        sid = [e for e in peer.take_events() if isinstance(e, RequestReceived)][0].stream_id
        peer.headers(sid, P.RESP_HEADERS)
    else:
        async def handler(st):
            await consume(st)
        end = wire.ServerEnd(loop, [Service('v.S', {'M': (handler, 'SS')})], config=cfg)
        loop.run_quiet(1)
        peer = end.peer
        peer.take_events()
        sid = peer.request(P.REQ_HEADERS)
        task = None
    loop.run_quiet(1)
    max_frame = min(peer.h2.max_outbound_frame_size, c.get('max_frame', 16384))
    if c.get('frames') is not None:          # explicit cut (corpus cases): [[length, pad or None], ...]
        frames, pos = [], 0
        for n, pad in c['frames']:
            frames.append((stream[pos:pos + n], pad))
            pos += n
        assert pos == len(stream), 'explicit frames must cover the stream'
    else:
        frames = plan_frames(rng, stream, max_frame)
    sent = []
    stalled = False
    for data, pad in frames:
        need = len(data) + (0 if pad is None else pad + 1)
        tries = 0
        while need and peer.h2.local_flow_control_window(sid) < need:
            r = loop.run_quiet(50)          # let the receiver read and return credit
            tries += 1
            if tries > 50:
                stalled = True
                break
        if stalled:
            break
        if not data and pad is None and rng.random() < 0.5:
            peer.h2.data_to_send()
            peer.raw(P.data_frame(sid, b''))
        else:
            peer.h2.send_data(sid, data, pad_length=pad)
            raw = peer.h2.data_to_send()
            cuts = None
            if raw and rng.random() < 0.5:
                k = rng.choice([1, 2, 5]) if len(raw) > 64 else len(raw)
                cuts = sorted(rng.randrange(0, len(raw) + 1) for _ in range(k))
                if len(raw) <= 64 and rng.random() < 0.5:
                    cuts = list(range(1, len(raw)))             # one-byte socket reads
            peer.transport.feed(raw, cuts)
        sent.append('a%d.%d' % (len(data), need))
        if c.get('run_after_each') or rng.random() < 0.35:
            loop.run_quiet(rng.choice([0.0001, 1, 10]))
    if not stalled and c.get('end', True):
        if c['side'] == 'client':
            peer.headers(sid, [('grpc-status', '0')], end_stream=True)
        else:
            peer.end(sid)
            sent.append('a0.0')          # h2 ends a stream with an empty DATA frame carrying END_STREAM
        sent.append('e')
    loop.run_quiet(200)
    buf = state['buf']
    return {'got': tokens_of(got), 'sent': sent, 'seen': tap.ops(buf) if buf is not None else None,
            'stalled': stalled, 'stream': stream}


def check_recv_e2e(ctx, res, cases, rng_factory, runner, label):
    runs = []
    lines, idx = [], []
    with BufferTap() as tap:
        for c in cases:
            tap.reset()
            with vloop.session() as loop:
                try:
                    o = runner(loop, c, rng_factory, tap)
                except Exception as e:
                    import traceback
                    o = {'error': repr(e) + traceback.format_exc()[-400:]}
            runs.append(o)
    for j, (c, o) in enumerate(zip(cases, runs)):
        if 'error' in o:
            continue
        for d in o['dirs']:
            if d['seen'] is not None and len(d['stream']) <= MODEL_BYTES_LIMIT:
                nm = len(py_parse(d['stream'])[0])
                mc = dict(d['mcase'], ops=d['seen'] + ['r'] * (nm + 1))
                lines.append(recv_line(mc))
                idx.append((j, d['name']))
    model = dict(zip(idx, ctx.model(lines))) if ctx.model_ok and lines else {}
    for j, (c, o) in enumerate(zip(cases, runs)):
        res.evaluations += 1
        res.count(label + ':cases')
        if 'error' in o:
            res.disagreements.append({'case': c, 'model': None, 'impl': o['error']})
            continue
        for d in o['dirs']:
            res.signatures.add((label, d['name'], c.get('cw'), c.get('sw'), tuple(d['mcase']['sizes']),
                                d['mcase']['keep'], len(d['seen'] or [])))
            res.count('%s:%s:%s' % (label, d['name'], py_parse(d['stream'])[1]))
            res.sample({'kind': label, 'case': c, 'dir': d['name'], 'frames_seen': (d['seen'] or [])[:10],
                        'received': d['got'][:6]}, limit=10)
            for t in d['seen'] or []:
                if t[0] == 'a':
                    n, a = parse_add(t)
                    res.count('%s:frame:%s' % (label, 'empty-unpadded' if a == 0 else 'empty-padded'
                                               if n == 0 else 'padded' if a > n else 'plain'))
            # correspondence 1: what reached Buffer.add is what the peer sent (h2 + process_data_received)
            if d.get('sent') is not None and d['seen'] is not None and d['sent'] != d['seen']:
                res.disagreements.append({'case': c, 'model': {'frames_sent': d['sent'][:50]},
                                          'impl': {'frames_seen_by_buffer': d['seen'][:50]}})
            # correspondence 2: the model run on the recorded frames returns what the receiver got
            if (j, d['name']) in model:
                res.traces += 1
                toks = [t.split(':')[0] for t in model[(j, d['name'])].split(' ')[:-1]]
                mview = []
                for t in toks:
                    if t == '-':
                        continue
                    mview.append(t)
                    if not t.startswith('M'):
                        break
                if mview != d['got']:
                    res.disagreements.append({'case': c, 'model': mview[:20], 'impl': d['got'][:20],
                                              'dir': d['name']})
            # direct oracle
            ended = d['ended']
            for text, kind in oracle_results(d['got'], d['stream'], not d['stalled'], ended, True,
                                             '%s %s' % (label, d['name'])):
                res.oracle_failures.append({'case': c, 'what': text,
                                            'signature': {'kind': label, 'fail': kind},
                                            'observed': {'received': d['got'][:10],
                                                         'frames': (d['seen'] or [])[:30]}})
            if d['stalled']:
                res.oracle_failures.append({'case': c, 'what': '%s %s: the receiver stopped returning '
                                            'flow-control credit; the sender can never finish' % (label, d['name']),
                                            'signature': {'kind': label, 'fail': 'stalled'},
                                            'observed': {'received': d['got'][:10]}})


def precv_runner(loop, c, rng_factory, tap):
    o = run_precv(loop, c, rng_factory, tap)
    return {'dirs': [{'name': c['side'], 'got': o['got'], 'sent': o['sent'], 'seen': o['seen'],
                      'stalled': o['stalled'], 'stream': o['stream'], 'ended': c.get('end', True),
                      'mcase': {'seed': c['seed'], 'keep': c['keep'], 'tail': c['tail'], 'sizes': c['sizes']}}]}


def gen_precv_cases(ctx, rng):
    cases = []
    n = ctx.n(64, 600)
    for j in range(n):
        sw, cw = rng.choice(WINDOWS), rng.choice(WINDOWS)
        window = min(sw, cw)
        menu = size_menu(16384, window)
        big = window >= (1 << 20)
        if big and j % 4:
            sizes = [rng.choice(menu[:9]) for _ in range(rng.choice([1, 2, 3]))]
        elif big:
            sizes = [rng.choice(menu)]
        else:
            sizes = [rng.choice(menu) for _ in range(rng.choice([0, 1, 2, 3, 4]))]
        c = {'kind': 'precv', 'side': rng.choice(['client', 'server']), 'sw': sw, 'cw': cw,
             'sizes': sizes, 'seed': rng.randrange(1, 1000), 'keep': -1, 'tail': '',
             'script': rng.randrange(1 << 30), 'delays': rng.random() < 0.4, 'end': True}
        if rng.random() < 0.25 and sizes:
            full = len(recv_stream(c))
            start = full - (5 + sizes[-1])
            c['keep'] = min(full - 1, start + rng.choice([1, 4, 5, 6, max(1, 5 + sizes[-1] - 1)]))
        cases.append(c)
    return cases


# ---- (e) real client <-> real server over a re-cutting link ------------------------------------------------

def run_link(loop, c, rng_factory, tap):
    from grpclib.client import Channel, StreamStreamMethod
    from grpclib.config import Configuration
    from grpclib.server import Server
    rng = rng_factory(c['script'])
    A = [gen_msg(c['seed'], i, n) for i, n in enumerate(c['sizes_up'])]
    B = [gen_msg(c['seed'] + 1, i, n) for i, n in enumerate(c['sizes_down'])]
    got_srv, got_cli = [], []
    bufs = {}
    delays = c.get('delays', False)

    async def pump(st, got, name):
        bufs[name] = st._stream.buffer
        try:
            while True:
                m = await st.recv_message()
                got.append(m)
                if m is None:
                    return
                if delays and rng.random() < 0.3:
                    await asyncio.sleep(rng.choice([0.001, 0.2, 2]))
        except Exception as e:
            got.append(e)
            raise

    async def push(st, msgs):
        for m in msgs:
            await st.send_message(m)
            if delays and rng.random() < 0.2:
                await asyncio.sleep(rng.choice([0.001, 0.3]))

    async def handler(st):
        await asyncio.gather(pump(st, got_srv, 'up'), push(st, B))

    ccfg = Configuration(http2_connection_window_size=c['ccw'], http2_stream_window_size=c['csw'])
    scfg = Configuration(http2_connection_window_size=c['scw'], http2_stream_window_size=c['ssw'])
    ch = Channel(codec=RawCodec(), config=ccfg)
    srv = Server([Service('v.S', {'M': (handler, 'SS')})], codec=RawCodec(), config=scfg)
    small = sum(c['sizes_up']) + sum(c['sizes_down']) < 3000
    mode = c['cut']

    def cutter(data):
        n = len(data)
        if mode == 'none' or n < 2:
            return None
        if mode == 'bytes' and (small or n <= 64):
            return list(range(1, n))                              # one-byte socket reads
        k = rng.choice([1, 2, 3, 8])
        return sorted(rng.randrange(0, n + 1) for _ in range(k))

    async def create_conn():
        cp, sp = ch._protocol_factory(), srv._protocol_factory()
        link = wire.Link(loop, cp, sp, cutter)
        cp.connection_made(link.ta)
        sp.connection_made(link.tb)
        if c.get('mf'):
            from h2.settings import SettingCodes
            for pr in (cp, sp):
                pr.connection._connection.update_settings({SettingCodes.MAX_FRAME_SIZE: c['mf']})
                pr.connection.flush()
        return cp
    ch._create_connection = create_conn
    method = StreamStreamMethod(ch, '/v.S/M', bytes, bytes)

    async def call():
        async with method.open() as st:
            await st.send_request()

            async def tx():
                await push(st, A)
                await st.end()
            await asyncio.gather(tx(), pump(st, got_cli, 'down'))
    task = loop.create_task(call())
    r = loop.run_quiet(2000)
    out = vloop.outcome(task)
    dirs = []
    for name, got, msgs, seed, sizes in (('up', got_srv, A, c['seed'], c['sizes_up']),
                                         ('down', got_cli, B, c['seed'] + 1, c['sizes_down'])):
        stream = b''.join(grpc_frame(m) for m in msgs)
        buf = bufs.get(name)
        dirs.append({'name': name, 'got': tokens_of(got), 'sent': None,
                     'seen': tap.ops(buf) if buf is not None else None,
                     'stalled': out[0] == 'pending', 'stream': stream, 'ended': True,
                     'mcase': {'seed': seed, 'keep': -1, 'tail': '', 'sizes': sizes}})
    return {'dirs': dirs, 'task': out[0]}


def gen_link_cases(ctx, rng):
    cases = []
    n = ctx.n(44, 500)
    for j in range(n):
        ws = [rng.choice(WINDOWS) for _ in range(4)]
        wup, wdown = min(ws[2], ws[3]), min(ws[0], ws[1])       # server receives up, client receives down
        big = max(wup, wdown) >= (1 << 20)

        def pick(window):
            menu = size_menu(16384, window)
            if window >= (1 << 20):
                return [rng.choice(menu if j % 5 == 0 else menu[:9])]
            return [rng.choice(menu) for _ in range(rng.choice([0, 1, 2, 3]))]
        cases.append({'kind': 'link', 'ccw': ws[0], 'csw': ws[1], 'scw': ws[2], 'ssw': ws[3],
                      'sizes_up': pick(wup), 'sizes_down': pick(wdown), 'seed': rng.randrange(1, 1000),
                      'script': rng.randrange(1 << 30), 'delays': rng.random() < 0.4,
                      'cut': rng.choice(['none', 'bytes', 'rand', 'rand']),
                      'mf': rng.choice([None, None, 16385, (1 << 24) - 1])})
    return cases


# ---- batches ---------------------------------------------------------------------------------------------

def check_buf(ctx, res, cases):
    model = ctx.model([buf_line(c) for c in cases]) if ctx.model_ok and cases else None
    with vloop.session() as loop:
        for i, c in enumerate(cases):
            try:
                impl = impl_buf(loop, c)
            except Exception as e:
                impl = 'HARNESS ' + repr(e)
            res.evaluations += 1
            res.count('buf:cases')
            for t in impl.split(' ')[:-1]:
                res.count('buf:outcome:' + t.split(':')[0][0])
            res.signatures.add(('buf', tuple(c['ops'])))
            res.sample({'kind': 'buf', 'ops': c['ops'], 'impl': impl}, limit=3)
            if model is not None:
                res.traces += 1
                if model[i] != impl:
                    res.disagreements.append({'case': c, 'model': model[i], 'impl': impl})
            if 'Xindex' in impl or 'HARNESS' in impl:
                res.oracle_failures.append({'case': c, 'what': 'Buffer.read raised an internal error: ' + impl[:80],
                                            'signature': {'kind': 'buf', 'fail': 'internal-error'},
                                            'observed': impl})


def check_recv(ctx, res, cases):
    model = ctx.model([recv_line(c) for c in cases]) if ctx.model_ok and cases else None
    with vloop.session() as loop:
        for i, c in enumerate(cases):
            try:
                impl = impl_recv(loop, c)
            except Exception as e:
                impl = 'HARNESS ' + repr(e)
            res.evaluations += 1
            res.count('recv:cases')
            res.count('recv:stream:' + py_parse(recv_stream(c))[1])
            for t in impl.split(' ')[:-1]:
                k = t.split(':')[0]
                res.count('recv:result:' + ('M' if k.startswith('M') else k))
            for o in c['ops']:
                if o[0] == 'a':
                    n, a = parse_add(o)
                    res.count('recv:frame:%s' % ('empty-unpadded' if a == 0 else 'empty-padded' if n == 0
                                                 else 'padded' if a > n else 'plain'))
            res.signatures.add(('recv', tuple(c['sizes']), c['keep'], c['tail'], tuple(c['ops'])))
            res.sample({'kind': 'recv', 'case': c, 'impl': impl}, limit=5)
            if model is not None:
                res.traces += 1
                if model[i] != impl:
                    res.disagreements.append({'case': c, 'model': model[i], 'impl': impl})
            if impl.startswith('HARNESS'):
                res.disagreements.append({'case': c, 'model': None, 'impl': impl})
                continue
            for text, kind in oracle_recv(c, impl):
                res.oracle_failures.append({'case': c, 'what': text,
                                            'signature': {'kind': 'recv', 'fail': kind}, 'observed': impl})


def check_framing(ctx, res, rng, only=None):
    from grpclib.stream import send_message

    class Sink:
        def __init__(self):
            self.data = None

        async def send_data(self, data, end_stream=False):
            self.data = data
    msgs = only if only is not None else \
        [b'', b'\0', b'a', bytes(range(256)), b'x' * 255, b'y' * 256, b'z' * 65536] + \
        [bytes(rng.randrange(256) for _ in range(rng.choice([1, 2, 5, 300]))) for _ in range(ctx.n(20, 200))]
    lines = ['frame ' + (m.hex() or '-') for m in msgs]
    model = ctx.model(lines) if ctx.model_ok else None
    with vloop.session() as loop:
        for i, m in enumerate(msgs):
            s = Sink()
            t = loop.create_task(send_message(s, RawCodec(), m, bytes))
            loop.run_quiet(1)
            res.evaluations += 1
            res.count('framing')
            res.signatures.add(('frame', len(m)))
            if model is not None:
                res.traces += 1
                if model[i] != (s.data.hex() if s.data is not None else 'err'):
                    res.disagreements.append({'case': {'kind': 'frame', 'm': m}, 'model': model[i][:60],
                                              'impl': s.data})
            if s.data is None or py_parse(s.data) != ([m], 'clean'):
                res.oracle_failures.append({'case': {'kind': 'frame', 'm': m}, 'what': 'send_message does not '
                                            'produce one well-formed frame', 'signature': {'kind': 'frame'},
                                            'observed': s.data})


def rng_factory_of(ctx):
    import random
    return lambda s: random.Random(s)


def undo_json(x):
    if isinstance(x, dict) and set(x) == {'hex'}:
        return bytes.fromhex(x['hex'])
    if isinstance(x, dict):
        return {k: undo_json(v) for k, v in x.items()}
    if isinstance(x, list):
        return [undo_json(v) for v in x]
    return x


def dispatch(ctx, res, cases):
    rf = rng_factory_of(ctx)
    by = {}
    for c in cases:
        by.setdefault(c.get('kind'), []).append(c)
    if by.get('buf'):
        check_buf(ctx, res, by['buf'])
    if by.get('recv'):
        check_recv(ctx, res, by['recv'])
    if by.get('psend'):
        check_psend(ctx, res, by['psend'], rf)
    if by.get('precv'):
        check_recv_e2e(ctx, res, by['precv'], rf, precv_runner, 'precv')
    if by.get('link'):
        check_recv_e2e(ctx, res, by['link'], rf, run_link, 'link')


def run(ctx):
    res = Result()
    rng = ctx.rng
    res.rule = ('corpus first; then PRNG cases of five kinds: buf (Buffer op sequences add/eof/read/resume, '
                '~15% illegal histories), recv (message lists with sizes from {0,1,4,5,6,7,16,40,255..257,1000}, '
                'stream clean / cut at any byte / compressed flag / left open, PRNG cut into frames with '
                'padding, empty un-padded and empty padded frames, reads interleaved anywhere, extra calls '
                'after the terminal result), psend (send_message of sizes from {0,1,4,5,6,frame-1,frame,'
                'frame+1,window-1,window,window+1,3*window} against peer windows {65535,65536,1MiB}^2 x '
                'max-frame {16384,16385,2^24-1}, PRNG WINDOW_UPDATE / SETTINGS script), precv (scripted peer '
                '-> client/server with receive windows from the same set, PRNG DATA frames incl. zero-length '
                'and padded, PRNG socket reads incl. 1-byte, truncation), link (real client <-> real server, '
                'PRNG re-cut of every write, both directions, delays); distinct = distinct '
                '(kind, configuration, sizes, op/frame sequence)')
    corpus = [undo_json(c) for c in ctx.corpus()]
    dispatch(ctx, res, corpus)
    for c in corpus:
        res.count('corpus')
    check_framing(ctx, res, rng)
    cases = [gen_buf_case(rng) for _ in range(ctx.n(400, 8000))]
    cases += [gen_recv_case(rng) for _ in range(ctx.n(500, 10000))]
    cases += gen_psend_cases(ctx, rng)
    cases += gen_precv_cases(ctx, rng)
    cases += gen_link_cases(ctx, rng)
    dispatch(ctx, res, cases)
    return res


def replay(ctx, case):
    res = Result()
    case = undo_json(case)
    if case.get('kind') == 'frame':
        check_framing(ctx, res, ctx.rng, only=[case['m']])
        return res
    dispatch(ctx, res, [case])
    return res
