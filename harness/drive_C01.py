"""C01 -- messages arrive intact and in order for every size, window and fragmentation.

Correspondence of Model/Framing.v + Model/RecvBuffer.v + Model/SendChunk.v with the real grpclib:
  buf    real grpclib.protocol.Buffer driven op by op (add / eof / read started / reader resumed)
  recv   real grpclib.stream.recv_message over a real protocol.Stream(+Buffer), op by op
  psend  real Stream.send_data (through client/server send_message) against a real h2 connection
         whose windows / max frame size are scripted by the peer; the (window, max_frame) pairs the
         loop observes are recorded at the h2 API boundary and given to the model
  precv  scripted peer -> real client / real server: the byte stream re-cut into DATA frames
         (zero-length, padded, zero-length padded) and into TCP read chunks; the frames seen by
         Buffer.add are recorded and given to the model
  link   real client <-> real server over harness.wire.Link with a PRNG cutter, both directions, several
         concurrent calls on one connection, transport back-pressure (pause_writing / resume_writing)
precv and link consume by recv_message loops or by `async for`, with the raw-bytes codec or a codec whose
empty message decodes to a falsy value;
and the direct oracle: received == sent, in order, then end-of-stream; an error iff truncated.
"""
import asyncio
import logging
import struct
import zlib

from harness import vloop, wire, peer as P
from harness.c01_util import BufferTap, BufferView, H2Watch, list_codec, mask_summary, recv_endpoint
from harness.core import Result
from harness.svc import RawCodec, Service, exc_name

PROPERTY = 'C01'
THEOREM_FILES = ['Props/C01.v']
ALLOWED_AXIOMS = []
LABEL = ('full for the model (framing, Buffer, recv_message, send_data chunk loop; every size, cut, '
         'padding and schedule); the codec is outside (messages are opaque byte strings); one boundary '
         'recorded as finding D41 (recv_message called again after it raised on a truncated stream)')
TRUSTED = ['modelled, not verified: asyncio.Queue.get/put_nowait wake-up (a blocked get returns the head '
           'item once one exists), BytesIO.read, struct.pack/unpack of "?" and ">I", hyper-h2 turning '
           'DATA frames into DataReceived(data, flow_controlled_length = len + padding + 1)',
           'ocaml/dC01.ml re-executes itself once under `ulimit -s unlimited` (extracted list functions '
           'are not tail recursive); payload bytes are generated on both sides from (seed, index, size) '
           'and compared as length + adler32',
           'observation of (window, max_frame_size) at the public h2 API (class wrappers around '
           'H2Connection.__init__ / local_flow_control_window / send_data; the read h2 makes inside its own '
           'send_data is not an observation); Buffer.add/eof calls recorded by a class wrapper, a buffer is '
           'recognised by the bytes that went through it',
           'grpclib internals are located by role (harness/c01_util.py): the counters of a Buffer by the type '
           'of the attribute holding them; what cannot be located is masked on both sides and counted under '
           '"unobservable:*" in the distribution']
ASSUMPTIONS = ['one task at a time calls recv_message on a stream (no concurrent readers of one Buffer)',
               'the consumer stops calling recv_message after end-of-stream or the first exception '
               '(see finding D41 for what happens otherwise)',
               'no cancellation of recv_message between its two reads (outside the quantifier of C01: a '
               'cancelled call loses the 5-byte prefix it already consumed)',
               'flow_controlled_length >= len(data) for every DATA event (h2 guarantees it)',
               'messages shorter than 4 GiB (struct.error otherwise, theorem C01_send_frame_domain)']

logging.getLogger('grpclib').setLevel(logging.CRITICAL)

MODEL_BYTES_LIMIT = 300 * 1024     # larger streams go through the oracle (and the size model) only


# ---- payload generator shared with ocaml/dC01.ml ---------------------------------------------------

def gen_msg(seed, i, n):
    a = seed * 7 + i * 29 + 11
    pat = bytes((a + j * 13) & 255 for j in range(251))
    return (pat * (n // 251 + 1))[:n]


def digest(b):
    return '%d.%d' % (len(b), zlib.adler32(b) & 0xffffffff)


def grpc_frame(m):
    return b'\0' + struct.pack('>I', len(m)) + m


def credits(cr):
    return ','.join(str(c) for c in cr) if cr else '-'


def buf_summary(buf):
    return BufferView(buf).summary()


def err_token(e):
    if isinstance(e, AssertionError):
        return 'Xassert'
    if isinstance(e, IndexError):
        return 'Xindex'
    if isinstance(e, struct.error):
        return 'Xstruct'
    if isinstance(e, NotImplementedError):
        return 'Xnotimpl'
    return 'X' + type(e).__name__


def parse_add(tok):
    a, b = tok[1:].split('.')
    return int(a), int(b)


# ---- (a) Buffer level ------------------------------------------------------------------------------

def buf_line(c):
    return 'buf %d %s' % (c['seed'], ' '.join(c['ops']))


def impl_buf(loop, c):
    from grpclib.protocol import Buffer
    acks = []
    buf = Buffer(acks.append)
    total = sum(parse_add(o)[0] for o in c['ops'] if o[0] == 'a')
    stream = gen_msg(c['seed'], 0, total)
    pos = 0
    task = None
    out = []

    def step():
        nonlocal task
        loop.run_quiet(1)
        cr = credits(acks)
        del acks[:]
        if task.done():
            e = task.exception()
            out.append((err_token(e) if e is not None else 'D' + digest(task.result())) + ':' + cr)
            task = None
        else:
            out.append('B:' + cr)
    for o in c['ops']:
        if o[0] == 'a':
            n, a = parse_add(o)
            buf.add(stream[pos:pos + n], a)
            pos += n
        elif o == 'e':
            buf.eof()
        elif o[0] == 'r':
            if task is None:
                task = loop.create_task(buf.read(int(o[1:])))
            step()
        elif o == 's':
            if task is None:
                out.append('N:-')
            else:
                step()
    if task is not None:
        task.cancel()
        loop.run_quiet(1)
    out.append(buf_summary(buf))
    return ' '.join(out)


def gen_buf_case(rng):
    """mostly legal histories; ~15% with add-after-eof / double eof / zero or negative read sizes.
    r<n> while a read is pending counts as a resume on both sides."""
    ops = []
    closed = False
    wild = rng.random() < 0.15
    for _ in range(rng.choice([3, 6, 10, 16, 24])):
        r = rng.random()
        if r < 0.45 and (not closed or wild):
            n = rng.choice([0, 0, 1, 1, 2, 3, 4, 5, 6, 9, 17, 100])
            pad = rng.choice([0, 0, 0, 1, 2, 256]) if n or rng.random() < 0.5 else 0
            ops.append('a%d.%d' % (n, n + pad))
        elif r < 0.52 and (not closed or wild):
            ops.append('e')
            closed = True
        elif r < 0.85:
            n = rng.choice([1, 1, 2, 4, 5, 5, 5, 6, 7, 11, 50]) if not wild else rng.choice([-1, 0, 0, 3, 5])
            ops.append('r%d' % n)
        else:
            ops.append('s')
    return {'kind': 'buf', 'seed': rng.randrange(1, 1000), 'ops': ops}


# ---- (b) recv_message level --------------------------------------------------------------------------

def recv_line(c):
    return 'recv %d %d %s %d %s %s' % (c['seed'], c['keep'], c['tail'] or '-', len(c['sizes']),
                                       ' '.join(str(s) for s in c['sizes']), ' '.join(c['ops']))


def recv_stream(c):
    s = b''.join(grpc_frame(gen_msg(c['seed'], i, n)) for i, n in enumerate(c['sizes']))
    s += bytes.fromhex(c['tail']) if c['tail'] else b''
    return s if c['keep'] < 0 else s[:c['keep']]


def impl_recv(loop, c):
    from grpclib.stream import recv_message
    acks = []
    st, _how = recv_endpoint(acks)
    stream = recv_stream(c)
    pos = 0
    task = None
    out = []
    codec = RawCodec()
    for o in c['ops']:
        if o[0] == 'a':
            n, a = parse_add(o)
            assert pos + n <= len(stream), 'case delivers more than the stream holds'
            st.buffer.add(stream[pos:pos + n], a)
            pos += n
        elif o == 'e':
            st.buffer.eof()
        elif o == 'r':
            if task is None:
                task = loop.create_task(recv_message(st, codec, bytes))
            loop.run_quiet(1)
            cr = credits(acks)
            del acks[:]
            if task.done():
                e = task.exception()
                if e is not None:
                    tok = err_token(e)
                else:
                    v = task.result()
                    tok = 'EOS' if v is None else 'M' + digest(v)
                task = None
            else:
                tok = '-'
            out.append(tok + ':' + cr)
    if task is not None:
        task.cancel()
        loop.run_quiet(1)
    out.append(buf_summary(st.buffer))
    return ' '.join(out)


def py_parse(stream):
    """independent reference: (complete messages, 'clean' | 'truncated' | 'compressed')"""
    msgs, pos = [], 0
    while pos < len(stream):
        if len(stream) - pos < 5:
            return msgs, 'truncated'
        if stream[pos] != 0:
            return msgs, 'compressed'
        n = int.from_bytes(stream[pos + 1:pos + 5], 'big')
        if len(stream) - pos - 5 < n:
            return msgs, 'truncated'
        msgs.append(stream[pos + 5:pos + 5 + n])
        pos += 5 + n
    return msgs, 'clean'


def oracle_results(results, stream, delivered_all, ended, enough_reads, what):
    """The property on one receiver.  results = tokens ('M<digest>' | 'EOS' | 'X..' ) in the order
    returned, for a consumer that may go on after a terminal result (raw).  Returns a list of
    (text, kind)."""
    bad = []
    msgs, status = py_parse(stream)
    exp = ['M' + digest(m) for m in msgs]
    term = {'clean': 'EOS', 'truncated': 'Xassert', 'compressed': 'Xnotimpl'}[status]
    # consumer view: up to and including the first terminal result
    view = []
    for r in results:
        view.append(r)
        if not r.startswith('M'):
            break
    after = results[len(view):]
    got_msgs = [r for r in view if r.startswith('M')]
    if got_msgs != exp[:len(got_msgs)]:
        i = next(k for k in range(len(got_msgs)) if k >= len(exp) or got_msgs[k] != exp[k])
        kind = 'fabricated'
        if got_msgs[i] in exp:
            kind = 'duplicated-or-reordered'
        elif any(e.split('.')[0] != got_msgs[i].split('.')[0] for e in exp[i:i + 1]):
            kind = 'truncated-message'
        bad.append(('%s: message %d differs from what was sent (%s)' % (what, i, kind), kind))
    if view and not view[-1].startswith('M'):
        t = view[-1]
        if t == 'EOS' and not (ended and delivered_all and status == 'clean' and len(got_msgs) == len(exp)):
            bad.append(('%s: end-of-stream reported although %s' % (
                what, 'the stream was cut inside a message' if status != 'clean' else
                'not everything was returned / the sender has not ended'), 'eos-early'))
        if t.startswith('X') and status == 'clean':
            bad.append(('%s: %s on a clean stream' % (what, t), 'error-on-clean'))
        if t.startswith('X') and status != 'clean' and not (t == term and len(got_msgs) == len(exp)):
            bad.append(('%s: %s instead of the complete messages followed by %s' % (what, t, term),
                        'wrong-error'))
    if delivered_all and ended and enough_reads:
        if view != exp + [term]:
            if status == 'truncated' and view[-1:] == ['EOS']:
                bad.append(('%s: truncated stream ended without an error' % what, 'no-error-on-truncated'))
            elif not bad:
                bad.append(('%s: everything delivered and the stream ended, but the receiver got %d of '
                            '%d results' % (what, len(view), len(exp) + 1), 'incomplete'))
    elif delivered_all and enough_reads and not bad and got_msgs != exp and \
            (not view or view[-1].startswith('M')):
        # the sender has not ended: every message whose bytes have all arrived must still come out
        bad.append(('%s: all bytes of %d messages delivered and the receiver scheduled, but only %d '
                    'returned (a message is held back until more data or END_STREAM arrives)'
                    % (what, len(exp), len(got_msgs)), 'held-back'))
    # calls made after the terminal result (not part of the consumer contract of C01, but a message
    # returned there is fabricated all the same)
    if any(r.startswith('M') for r in after) and view[-1].startswith('X'):
        bad.append(('%s: recv_message called again after %s returned a message that was never sent'
                    % (what, view[-1]), 'read-after-error'))
    if view[-1:] == ['EOS'] and any(r != 'EOS' for r in after):
        bad.append(('%s: end-of-stream not sticky' % what, 'eos-not-sticky'))
    return bad


def oracle_recv(c, impl):
    toks = impl.split(' ')[:-1]
    results = [t.split(':')[0] for t in toks if t.split(':')[0] != '-']
    stream = recv_stream(c)
    delivered = sum(parse_add(o)[0] for o in c['ops'] if o[0] == 'a')
    ended = 'e' in c['ops']
    # reads made after everything (and END_STREAM) was delivered
    last = max([i for i, o in enumerate(c['ops']) if o[0] in 'ae'] + [-1])
    tail_reads = sum(1 for o in c['ops'][last + 1:] if o == 'r')
    msgs, _ = py_parse(stream)
    return oracle_results(results, stream, delivered == len(stream), ended,
                          tail_reads >= len(msgs) + 1, 'recv_message')


SIZES_SMALL = [0, 0, 1, 1, 4, 5, 6, 7, 16, 40, 255, 256, 257, 1000]


def cut_ops(rng, total, with_reads=True, empties=True):
    """PRNG partition of `total` bytes into add tokens with paddings, empty frames and reads"""
    ops = []
    pos = 0
    style = rng.choice(['one', 'bytes', 'small', 'mixed', 'mixed'])
    while pos < total:
        if style == 'one':
            n = total - pos
        elif style == 'bytes':
            n = 1
        elif style == 'small':
            n = rng.choice([1, 2, 3, 4, 5, 6])
        else:
            n = rng.choice([1, 2, 3, 5, 8, 64, 1000, total])
        n = min(n, total - pos)
        pad = rng.choice([0, 0, 0, 1, 3, 256])
        ops.append('a%d.%d' % (n, n + pad))
        pos += n
        if empties and rng.random() < 0.25:
            ops.append(rng.choice(['a0.0', 'a0.0', 'a0.1', 'a0.4', 'a0.256']))
        if with_reads and rng.random() < 0.4:
            ops += ['r'] * rng.choice([1, 1, 2])
    return ops


def gen_recv_case(rng):
    sizes = [rng.choice(SIZES_SMALL) for _ in range(rng.choice([0, 1, 1, 2, 3, 5]))]
    seed = rng.randrange(1, 1000)
    c = {'kind': 'recv', 'seed': seed, 'keep': -1, 'tail': '', 'sizes': sizes, 'ops': []}
    kind = rng.choice(['clean'] * 5 + ['trunc'] * 3 + ['open', 'compressed', 'after'])
    full = recv_stream(c)
    if kind == 'trunc' and full:
        c['keep'] = rng.randrange(0, len(full) + 1)
        if rng.random() < 0.5 and sizes:        # cut near a boundary of the last frame
            start = len(full) - (5 + sizes[-1])
            c['keep'] = min(len(full), start + rng.choice([0, 1, 4, 5, 6, 5 + sizes[-1] - 1]))
    elif kind == 'compressed':
        c['tail'] = rng.choice(['0100000001aa', '01', 'ff00000000', '0200000002aabb'])
    stream = recv_stream(c)
    ops = (['r'] if rng.random() < 0.5 else []) + cut_ops(rng, len(stream))
    if kind != 'open':
        ops.append('e')
    nm = len(py_parse(stream)[0])
    ops += ['r'] * (nm + 1 if rng.random() < 0.8 else rng.randrange(0, nm + 2))
    if kind == 'after' or rng.random() < 0.1:
        ops += ['r'] * rng.choice([1, 2, 3])                     # calls after the terminal result
    c['ops'] = ops
    return c


# ---- (c) sender: Stream.send_data against scripted windows ---------------------------------------------

def send_line(length, obs):
    return 'send %d %s' % (length, ' '.join('%d.%d' % o for o in obs))


WINDOWS = [65535, 65536, 1 << 20]
MAXFRAMES = [16384, 16385, (1 << 24) - 1]


def size_menu(frame, window):
    return [0, 1, 4, 5, 6, frame - 1, frame, frame + 1, window - 1, window, window + 1, 3 * window]


def run_psend(loop, c, rng_factory, hw):
    """c: side, iw (peer INITIAL_WINDOW_SIZE), cw (connection window), mf, sizes, seed, script seed;
    hw: the active H2Watch"""
    from grpclib.client import StreamStreamMethod
    from h2.events import DataReceived, RequestReceived, StreamEnded
    from h2.settings import SettingCodes
    rng = rng_factory(c['script'])
    msgs = [gen_msg(c['seed'], i, n) for i, n in enumerate(c['sizes'])]
    marks = []
    gate = asyncio.Event()
    state = {'obs': None}
    mark0 = hw.mark()

    def nobs():
        return len(state['obs']) if state['obs'] is not None else 0

    async def send_all(st):
        await gate.wait()
        for m in msgs:
            marks.append(nobs())
            await st.send_message(m)
        marks.append(nobs())

    if c['side'] == 'client':
        end = wire.ClientEnd(loop)
        method = StreamStreamMethod(end.channel, '/v.S/M', bytes, bytes)

        async def call():
            async with method.open() as st:
                await st.send_request()
                await send_all(st)
                await st.end()
                state['last'] = await st.recv_message()
        task = loop.create_task(call())
        loop.run_quiet(1)
        peer = end.peer
        sid = [e for e in peer.take_events() if isinstance(e, RequestReceived)][0].stream_id
    else:
        async def handler(st):
            await send_all(st)
        end = wire.ServerEnd(loop, [Service('v.S', {'M': (handler, 'SS')})])
        loop.run_quiet(1)
        peer = end.peer
        peer.take_events()
        sid = peer.request(P.REQ_HEADERS)
        loop.run_quiet(1)
        task = None
    peer.auto_ack = False
    # grpclib's side of this connection: the one H2Connection made for this case that is not the peer's
    mine = hw.since(mark0, exclude=[peer.h2])
    if len(mine) == 1:
        state['obs'] = hw.observe(mine[0])
    peer.settings({SettingCodes.INITIAL_WINDOW_SIZE: c['iw'], SettingCodes.MAX_FRAME_SIZE: c['mf']})
    if c['cw'] > 65535:
        peer.window_update(0, c['cw'] - 65535)
    loop.run_quiet(1)
    gate.set()
    total = sum(5 + len(m) for m in msgs)
    frames = []          # payload sizes of DATA frames in order
    wire_bytes = bytearray()
    ended = False

    def drain():
        nonlocal ended
        for e in peer.take_events():
            if isinstance(e, DataReceived) and e.stream_id == sid:
                if not e.data and e.stream_ended is not None and len(wire_bytes) >= total:
                    continue                 # the empty END_STREAM frame of Stream.end()
                frames.append(len(e.data))
                wire_bytes.extend(e.data)
            elif isinstance(e, StreamEnded) and e.stream_id == sid:
                ended = True
    rounds = 0
    script = []          # what the peer did, in order (for the failing-input report)
    idle_credit = None
    # (HEADER_TABLE_SIZE is left alone: repeated changes of it before the next header block trip hpack
    # itself -- "Encoder did not shrink table size" -- which is not grpclib's doing)
    other = {SettingCodes.MAX_CONCURRENT_STREAMS: [1, 10, 100, 1000],
             SettingCodes.MAX_HEADER_LIST_SIZE: [16384, 65536]}
    while True:
        loop.run_quiet(1)
        drain()
        if len(wire_bytes) >= total or rounds > 400:
            break
        # the loop is quiescent and the sender still has bytes to send: it must have used up every byte
        # of credit the peer has granted -- however that credit was granted (WINDOW_UPDATE on the stream,
        # on the connection, or a SETTINGS frame changing INITIAL_WINDOW_SIZE alone or with other settings)
        try:
            credit = peer.h2.remote_flow_control_window(sid)
        except Exception:
            credit = None
        if credit is not None and credit > 0 and not peer.violations:
            idle_credit = credit
            break
        rounds += 1
        # the sender is out of credit: the peer acts
        r = rng.random()
        left = total - len(wire_bytes)
        if c.get('actions') and rounds <= len(c['actions']):
            # explicit script (corpus cases): ['settings', {code: value}] | ['window_update', stream?, n]
            act = c['actions'][rounds - 1]
            if act[0] == 'settings':
                peer.settings({SettingCodes(int(k)): v for k, v in act[1].items()})
            else:
                peer.window_update(sid if act[1] else 0, act[2])
            script.append('%s:%s' % (act[0], act[1:]))
            continue
        if r < 0.1:
            peer.settings({SettingCodes.MAX_FRAME_SIZE: rng.choice(MAXFRAMES + [20000])})
            script.append('settings:max_frame')
        elif r < 0.35:
            # re-open (or shrink) the stream through SETTINGS, alone or together with unrelated settings
            change = {SettingCodes.INITIAL_WINDOW_SIZE:
                      rng.choice([0, 1, 100, 65535, 70000, c['iw'], c['iw'] + left, 1 << 20])}
            for code in rng.sample(sorted(other), rng.choice([0, 0, 1, 2])):
                change[code] = rng.choice(other[code])
            if rng.random() < 0.2:
                change[SettingCodes.MAX_FRAME_SIZE] = rng.choice(MAXFRAMES)
            try:
                peer.settings(change)
                script.append('settings:' + '+'.join(sorted(str(int(k)) for k in change)))
            except Exception:
                pass
        else:
            inc = rng.choice([1, 2, 5, 1000, 16384, 16385, 65535, left, left, 2 * left])
            inc = max(1, min(inc, (1 << 30)))
            which = rng.choice(['s', 'c', 'both', 'both'])
            try:
                if which in ('s', 'both'):
                    peer.window_update(sid, inc)
                if which in ('c', 'both'):
                    peer.window_update(0, inc)
                script.append('window_update:%s:%d' % (which, inc))
            except Exception:
                pass
        if rounds > 300:         # make sure the case ends: open both windows wide
            try:
                peer.settings({SettingCodes.INITIAL_WINDOW_SIZE: 1 << 30})
                peer.window_update(0, 1 << 29)
            except Exception:
                pass
    if c['side'] == 'client':
        loop.run_quiet(1)
        drain()
        peer.headers(sid, P.RESP_HEADERS)
        peer.headers(sid, [('grpc-status', '0')], end_stream=True)
        loop.run_quiet(1)
    else:
        loop.run_quiet(1)
        drain()
    return {'frames': frames, 'wire': bytes(wire_bytes), 'obs': state['obs'], 'marks': marks, 'msgs': msgs,
            'violations': [type(v).__name__ for v in peer.violations], 'rounds': rounds,
            'idle_credit': idle_credit, 'script': script[-12:],
            'ended': ended, 'task': vloop.outcome(task)[0] if task is not None else None}


def check_psend(ctx, res, cases, rng_factory):
    runs = []
    lines = []
    with H2Watch() as hw:
        for c in cases:
            with vloop.session() as loop:
                try:
                    o = run_psend(loop, c, rng_factory, hw)
                except Exception as e:        # harness trouble is a broken tie, not a pass
                    import traceback
                    o = {'error': repr(e) + traceback.format_exc()[-300:]}
            runs.append(o)
    for o in runs:
        if 'error' not in o and o['obs'] is not None and len(o['marks']) == len(o['msgs']) + 1:
            for i, m in enumerate(o['msgs']):
                lines.append(send_line(5 + len(m), o['obs'][o['marks'][i]:o['marks'][i + 1]]))
    model = ctx.model(lines) if ctx.model_ok and lines else None
    k = 0
    for c, o in zip(cases, runs):
        res.evaluations += 1
        res.count('psend:%s' % c['side'])
        res.signatures.add(('psend', c['side'], c['iw'], c['cw'], c['mf'], tuple(c['sizes'])))
        if 'error' in o:
            res.disagreements.append({'case': c, 'model': None, 'impl': o['error']})
            continue
        res.sample({'kind': 'psend', 'case': c, 'data_frames': o['frames'][:12],
                    'observations': (o['obs'] or [])[:8]}, limit=8)
        for f in o['frames']:
            res.count('psend:frame<=%d' % (1 << max(0, (f - 1)).bit_length()))
        complete = len(o['marks']) == len(o['msgs']) + 1
        if o['obs'] is None:
            res.count('unobservable:psend-window-observations')
        if model is not None and complete and o['obs'] is not None:
            res.traces += 1
            sizes = []
            ok = True
            for _ in o['msgs']:
                body, st = model[k].split(';')
                k += 1
                sizes += [int(x) for x in body.split(',')] if body != '-' else []
                ok = ok and st == 'done'
            if sizes != o['frames'] or not ok:
                res.disagreements.append({'case': c, 'model': {'frames': sizes, 'all_done': ok},
                                          'impl': {'frames': o['frames']}})
        # direct oracle: the bytes on the wire are the frames of the messages, in order; every DATA
        # frame fitted the window and frame size the peer had granted (strict h2 raised otherwise)
        exp = b''.join(grpc_frame(m) for m in o['msgs'])
        sig = None
        if not exp.startswith(o['wire']):
            sig, what = 'wire-bytes', 'bytes sent differ from the frames of the messages (%d vs %d bytes)' % (
                len(o['wire']), len(exp))
        elif o['violations']:
            sig, what = 'flow-control', 'peer h2 rejected what grpclib sent: %s' % o['violations'][:2]
        elif o.get('idle_credit'):
            sig, what = 'sender-stalled', ('the sender sits idle with %d bytes of flow-control credit and %d bytes '
                                           'unsent (last peer actions: %s): the message never arrives' % (
                                               o['idle_credit'], len(exp) - len(o['wire']), o['script'][-3:]))
        elif o['wire'] != exp or not complete or o['rounds'] > 400:
            sig, what = 'sender-stalled', 'sender did not finish although credit kept coming'
        if sig:
            res.oracle_failures.append({'case': c, 'what': what, 'signature': {'kind': 'psend', 'fail': sig},
                                        'observed': {'frames': o['frames'][:40], 'obs': (o['obs'] or [])[:40]}})


def gen_psend_cases(ctx, rng):
    cases = []
    combos = [(iw, cw, mf) for iw in WINDOWS for cw in WINDOWS for mf in MAXFRAMES]
    rng.shuffle(combos)
    n = ctx.n(27 * 8, 27 * 40)
    for j in range(n):
        iw, cw, mf = combos[j % len(combos)]
        if rng.random() < 0.25:
            iw = rng.choice([0, 1000, 20000])        # a peer may advertise any stream window, also none at all
        window = max(min(iw, cw), 1000)
        menu = size_menu(min(mf, 16385), window)
        big = window >= (1 << 20)
        k = rng.choice([1, 2, 3]) if not big else 1
        sizes = [rng.choice(menu) for _ in range(k)]
        if big and j % 3:
            sizes = [rng.choice(menu[:9])]          # keep most 1 MiB cases light
        cases.append({'kind': 'psend', 'side': rng.choice(['client', 'server']), 'iw': iw, 'cw': cw,
                      'mf': mf, 'sizes': sizes, 'seed': rng.randrange(1, 1000),
                      'script': rng.randrange(1 << 30)})
    return cases


# ---- recording what reaches the buffers -----------------------------------------------------------------

def codec_of(c):
    """'raw': messages are bytes (b'' is falsy); 'list': messages are lists of byte values ([] is falsy)"""
    return list_codec() if c.get('codec') == 'list' else RawCodec()


def peer_headers(c, headers):
    """the scripted peer names the codec in content-type, as a real peer with that codec would"""
    if c.get('codec') != 'list':
        return headers
    return [(k, v + '+bytelist' if k == 'content-type' else v) for k, v in headers]


def as_message(c, m):
    return list(m) if c.get('codec') == 'list' else m


async def consume_stream(st, got, how, rng, delays, pauses):
    """the application side of the property: a recv_message loop until None, or `async for` (the stream's
    own iteration protocol); what it saw goes to `got` (None = end-of-stream, an exception = what was raised)"""
    try:
        if how == 'iter':
            async for m in st:
                got.append(m)
                if delays and rng.random() < 0.3:
                    await asyncio.sleep(rng.choice(pauses))
            got.append(None)
            return
        while True:
            m = await st.recv_message()
            got.append(m)
            if m is None:
                return
            if delays and rng.random() < 0.3:
                await asyncio.sleep(rng.choice(pauses))
    except Exception as e:
        got.append(e)
        raise


def tokens_of(got):
    out = []
    for g in got:
        if isinstance(g, (bytes, list)):
            out.append('M' + digest(bytes(g)))
        elif g is None:
            out.append('EOS')
        else:
            out.append(err_token(g))
    return out


# ---- (d) scripted peer -> real receiver ------------------------------------------------------------------

def plan_frames(rng, stream, max_frame):
    """cut the byte stream into DATA frames: (data, pad or None); zero-length and padded ones included"""
    frames = []
    pos = 0
    style = rng.choice(['max', 'mixed', 'mixed', 'tiny'])
    while pos < len(stream):
        left = len(stream) - pos
        if style == 'max':
            n = max_frame
        elif style == 'tiny' and len(stream) < 4000:
            n = rng.choice([1, 1, 2, 3])
        else:
            n = rng.choice([1, 2, 3, 5, 100, 1000, 16383, max_frame, max_frame])
        n = min(n, left, max_frame)
        pad = None
        if rng.random() < 0.2:
            pad = rng.choice([0, 1, 3, 255])
            n = max(1, min(n, max_frame - pad - 1))
        frames.append((stream[pos:pos + n], pad))
        pos += n
        r = rng.random()
        if r < 0.12:
            frames.append((b'', None))                       # the frame of defect D1
        elif r < 0.2:
            frames.append((b'', rng.choice([0, 3, 255])))    # empty but padded: carries credit
    if not frames or rng.random() < 0.3:
        frames.insert(rng.randrange(0, len(frames) + 1), (b'', None))
    return frames


def run_precv(loop, c, rng_factory, tap):
    from grpclib.client import StreamStreamMethod
    from grpclib.config import Configuration
    from h2.events import RequestReceived
    rng = rng_factory(c['script'])
    stream = recv_stream(c)
    cfg = Configuration(http2_connection_window_size=c['cw'], http2_stream_window_size=c['sw'])
    got = []
    delays = c.get('delays', False)

    async def consume(st):
        await consume_stream(st, got, c.get('consume', 'recv'), rng, delays, [0.001, 0.5, 3])

    if c['side'] == 'client':
        end = wire.ClientEnd(loop, config=cfg, codec=codec_of(c))
        method = StreamStreamMethod(end.channel, '/v.S/M', bytes, bytes)

        async def call():
            async with method.open() as st:
                await st.send_request()
                await st.end()
                await consume(st)
        task = loop.create_task(call())
        loop.run_quiet(1)
        peer = end.peer
        sid = [e for e in peer.take_events() if isinstance(e, RequestReceived)][0].stream_id
        peer.headers(sid, peer_headers(c, P.RESP_HEADERS))
    else:
        async def handler(st):
            await consume(st)
        end = wire.ServerEnd(loop, [Service('v.S', {'M': (handler, 'SS')})], config=cfg, codec=codec_of(c))
        loop.run_quiet(1)
        peer = end.peer
        peer.take_events()
        sid = peer.request(peer_headers(c, P.REQ_HEADERS))
        task = None
    loop.run_quiet(1)
    max_frame = min(peer.h2.max_outbound_frame_size, c.get('max_frame', 16384))
    if c.get('frames') is not None:          # explicit cut (corpus cases): [[length, pad or None], ...]
        frames, pos = [], 0
        for n, pad in c['frames']:
            frames.append((stream[pos:pos + n], pad))
            pos += n
        assert pos == len(stream), 'explicit frames must cover the stream'
    else:
        frames = plan_frames(rng, stream, max_frame)
    sent = []
    stalled = False
    delivered = 0
    for data, pad in frames:
        need = len(data) + (0 if pad is None else pad + 1)
        tries = 0
        while need and peer.h2.local_flow_control_window(sid) < need:
            r = loop.run_quiet(50)          # let the receiver read and return credit
            tries += 1
            if tries > 50:
                stalled = True
                break
        if stalled:
            break
        if not data and pad is None and rng.random() < 0.5:
            peer.h2.data_to_send()
            peer.raw(P.data_frame(sid, b''))
        else:
            peer.h2.send_data(sid, data, pad_length=pad)
            raw = peer.h2.data_to_send()
            cuts = None
            if raw and rng.random() < 0.5:
                k = rng.choice([1, 2, 5]) if len(raw) > 64 else len(raw)
                cuts = sorted(rng.randrange(0, len(raw) + 1) for _ in range(k))
                if len(raw) <= 64 and rng.random() < 0.5:
                    cuts = list(range(1, len(raw)))             # one-byte socket reads
            peer.transport.feed(raw, cuts)
        sent.append('a%d.%d' % (len(data), need))
        delivered += len(data)
        if c.get('run_after_each') or rng.random() < 0.35:
            loop.run_quiet(rng.choice([0.0001, 1, 10]))
    if not stalled and c.get('end', True):
        if c['side'] == 'client':
            peer.headers(sid, [('grpc-status', '0')], end_stream=True)
        else:
            peer.end(sid)
            sent.append('a0.0')          # h2 ends a stream with an empty DATA frame carrying END_STREAM
        sent.append('e')
    loop.run_quiet(200)
    # the buffer of this stream: the one the bytes of the stream went through
    return {'got': tokens_of(got), 'sent': sent, 'seen': tap.assign({'x': stream[:delivered]})['x'],
            'stalled': stalled, 'stream': stream}


def check_recv_e2e(ctx, res, cases, rng_factory, runner, label):
    runs = []
    lines, idx = [], []
    with BufferTap() as tap, H2Watch() as hw:
        tap.h2 = hw
        for c in cases:
            tap.reset()
            with vloop.session() as loop:
                try:
                    o = runner(loop, c, rng_factory, tap)
                except Exception as e:
                    import traceback
                    o = {'error': repr(e) + traceback.format_exc()[-400:]}
            runs.append(o)
    for j, (c, o) in enumerate(zip(cases, runs)):
        if 'error' in o:
            continue
        for d in o['dirs']:
            if d['seen'] is not None and len(d['stream']) <= MODEL_BYTES_LIMIT:
                nm = len(py_parse(d['stream'])[0])
                mc = dict(d['mcase'], ops=d['seen'] + ['r'] * (nm + 1))
                lines.append(recv_line(mc))
                idx.append((j, d['name']))
    model = dict(zip(idx, ctx.model(lines))) if ctx.model_ok and lines else {}
    for j, (c, o) in enumerate(zip(cases, runs)):
        res.evaluations += 1
        res.count(label + ':cases')
        if 'error' in o:
            res.disagreements.append({'case': c, 'model': None, 'impl': o['error']})
            continue
        if o.get('mf_applied') is False:
            res.count('unobservable:link-max-frame-not-applied')
        for d in o['dirs']:
            if d['seen'] is None:
                res.count('unobservable:%s-frames-seen-by-buffer' % label)
            res.signatures.add((label, d['name'], c.get('cw'), c.get('sw'), tuple(d['mcase']['sizes']),
                                d['mcase']['keep'], len(d['seen'] or [])))
            res.count('%s:%s:%s' % (label, d['name'], py_parse(d['stream'])[1]))
            res.sample({'kind': label, 'case': c, 'dir': d['name'], 'frames_seen': (d['seen'] or [])[:10],
                        'received': d['got'][:6]}, limit=10)
            for t in d['seen'] or []:
                if t[0] == 'a':
                    n, a = parse_add(t)
                    res.count('%s:frame:%s' % (label, 'empty-unpadded' if a == 0 else 'empty-padded'
                                               if n == 0 else 'padded' if a > n else 'plain'))
            # correspondence 1: what reached Buffer.add is what the peer sent (h2 + process_data_received)
            if d.get('sent') is not None and d['seen'] is not None and d['sent'] != d['seen']:
                res.disagreements.append({'case': c, 'model': {'frames_sent': d['sent'][:50]},
                                          'impl': {'frames_seen_by_buffer': d['seen'][:50]}})
            # correspondence 2: the model run on the recorded frames returns what the receiver got
            if (j, d['name']) in model:
                res.traces += 1
                toks = [t.split(':')[0] for t in model[(j, d['name'])].split(' ')[:-1]]
                mview = []
                for t in toks:
                    if t == '-':
                        continue
                    mview.append(t)
                    if not t.startswith('M'):
                        break
                if mview != d['got']:
                    res.disagreements.append({'case': c, 'model': mview[:20], 'impl': d['got'][:20],
                                              'dir': d['name']})
            # direct oracle
            ended = d['ended']
            for text, kind in oracle_results(d['got'], d['stream'], not d['stalled'], ended, True,
                                             '%s %s' % (label, d['name'])):
                res.oracle_failures.append({'case': c, 'what': text,
                                            'signature': {'kind': label, 'fail': kind},
                                            'observed': {'received': d['got'][:10],
                                                         'frames': (d['seen'] or [])[:30]}})
            if d.get('send_error'):
                res.oracle_failures.append({'case': c, 'what': '%s %s: send_message raised %s: the message is '
                                            'never delivered' % (label, d['name'], d['send_error']),
                                            'signature': {'kind': label, 'fail': 'send-failed'},
                                            'observed': {'received': d['got'][:10]}})
            if d['stalled']:
                res.oracle_failures.append({'case': c, 'what': '%s %s: the receiver stopped returning '
                                            'flow-control credit; the sender can never finish' % (label, d['name']),
                                            'signature': {'kind': label, 'fail': 'stalled'},
                                            'observed': {'received': d['got'][:10]}})


def precv_runner(loop, c, rng_factory, tap):
    o = run_precv(loop, c, rng_factory, tap)
    return {'dirs': [{'name': c['side'], 'got': o['got'], 'sent': o['sent'], 'seen': o['seen'],
                      'stalled': o['stalled'], 'stream': o['stream'], 'ended': c.get('end', True),
                      'mcase': {'seed': c['seed'], 'keep': c['keep'], 'tail': c['tail'], 'sizes': c['sizes']}}]}


def gen_precv_cases(ctx, rng):
    cases = []
    n = ctx.n(64, 600)
    for j in range(n):
        sw, cw = rng.choice(WINDOWS), rng.choice(WINDOWS)
        window = min(sw, cw)
        menu = size_menu(16384, window)
        big = window >= (1 << 20)
        if big and j % 4:
            sizes = [rng.choice(menu[:9]) for _ in range(rng.choice([1, 2, 3]))]
        elif big:
            sizes = [rng.choice(menu)]
        else:
            sizes = [rng.choice(menu) for _ in range(rng.choice([0, 1, 2, 3, 4]))]
        c = {'kind': 'precv', 'side': rng.choice(['client', 'server']), 'sw': sw, 'cw': cw,
             'sizes': sizes, 'seed': rng.randrange(1, 1000), 'keep': -1, 'tail': '',
             'script': rng.randrange(1 << 30), 'delays': rng.random() < 0.4, 'end': True,
             'consume': rng.choice(['recv', 'iter']),
             'codec': 'list' if sum(sizes) < 100000 and rng.random() < 0.3 else 'raw'}
        if rng.random() < 0.25 and sizes:
            full = len(recv_stream(c))
            start = full - (5 + sizes[-1])
            c['keep'] = min(full - 1, start + rng.choice([1, 4, 5, 6, max(1, 5 + sizes[-1] - 1)]))
        cases.append(c)
    return cases


# ---- (e) real client <-> real server over a re-cutting link ------------------------------------------------

def link_calls(c):
    """[(sizes_up, sizes_down)] of the concurrent calls of a link case (they share one connection)"""
    return [(c['sizes_up'], c['sizes_down'])] + [(m['sizes_up'], m['sizes_down']) for m in c.get('more', [])]


def run_link(loop, c, rng_factory, tap):
    from grpclib.client import Channel, StreamStreamMethod
    from grpclib.config import Configuration
    from grpclib.server import Server
    rng = rng_factory(c['script'])
    calls = link_calls(c)
    # call k sends messages of seed+2k up and receives messages of seed+2k+1
    up = [[gen_msg(c['seed'] + 2 * k, i, n) for i, n in enumerate(su)] for k, (su, sd) in enumerate(calls)]
    down = [[gen_msg(c['seed'] + 2 * k + 1, i, n) for i, n in enumerate(sd)] for k, (su, sd) in enumerate(calls)]
    got_srv = [[] for _ in calls]
    got_cli = [[] for _ in calls]
    send_err = {}
    delays = c.get('delays', False)
    pause = c.get('pause')
    state = {'mf_applied': True, 'link': None, 'requested': 0}
    go = asyncio.Event()
    if not pause:
        go.set()

    async def push(st, msgs, name):
        try:
            for m in msgs:
                await st.send_message(as_message(c, m))
                if delays and rng.random() < 0.2:
                    await asyncio.sleep(rng.choice([0.001, 0.3]))
        except Exception as e:
            send_err[name] = e
            raise

    async def handler(st):
        k = int(st.metadata.get('call', '0'))
        await go.wait()
        await asyncio.gather(consume_stream(st, got_srv[k], c.get('consume_up', 'recv'), rng, delays,
                                            [0.001, 0.2, 2]),
                             push(st, down[k], 'down%d' % k))

    ccfg = Configuration(http2_connection_window_size=c['ccw'], http2_stream_window_size=c['csw'])
    scfg = Configuration(http2_connection_window_size=c['scw'], http2_stream_window_size=c['ssw'])
    ch = Channel(codec=codec_of(c), config=ccfg)
    srv = Server([Service('v.S', {'M': (handler, 'SS')})], codec=codec_of(c), config=scfg)
    small = sum(sum(su) + sum(sd) for su, sd in calls) < 3000
    mode = c['cut']

    def cutter(data):
        n = len(data)
        if mode == 'none' or n < 2:
            return None
        if mode == 'bytes' and (small or n <= 64):
            return list(range(1, n))                              # one-byte socket reads
        k = rng.choice([1, 2, 3, 8])
        return sorted(rng.randrange(0, n + 1) for _ in range(k))

    hw = tap.h2

    async def create_connection(factory, *args, **kw):
        # the asyncio boundary: what Channel asks of its loop.  The server end is a protocol object made
        # the way Server makes them for loop.create_server.
        mark = hw.mark()
        cp, sp = factory(), wire.protocol_factory_of(srv)()
        link = wire.Link(loop, cp, sp, cutter)
        state['link'] = link
        cp.connection_made(link.ta)
        sp.connection_made(link.tb)
        if c.get('mf'):
            from h2.settings import SettingCodes
            ends = hw.since(mark)            # the two H2Connections these protocols have just made
            if len(ends) == 2:
                for h2c in ends:
                    h2c.update_settings({SettingCodes.MAX_FRAME_SIZE: c['mf']})
                for tr, h2c in zip((link.ta, link.tb), ends):
                    data = h2c.data_to_send()
                    if data:
                        tr.write(data)
            else:
                state['mf_applied'] = False
        return link.ta, cp
    loop.create_connection = create_connection
    loop.create_unix_connection = create_connection
    method = StreamStreamMethod(ch, '/v.S/M', bytes, bytes)

    async def call(k):
        async with method.open(metadata={'call': str(k)}) as st:
            await st.send_request()
            state['requested'] += 1
            await go.wait()

            async def tx():
                await push(st, up[k], 'up%d' % k)
                await st.end()
            await asyncio.gather(tx(), consume_stream(st, got_cli[k], c.get('consume_down', 'recv'), rng,
                                                      delays, [0.001, 0.2, 2]))

    async def back_pressure():
        """the transports' write buffers fill up and drain (asyncio calls pause_writing / resume_writing):
        'first' = both ends are paused before any message is sent and released later; 'rand' = at PRNG moments"""
        while state['requested'] < len(calls) or state['link'] is None:
            await asyncio.sleep(0.001)
        link = state['link']
        ends = [link.ta, link.tb]
        if pause == 'first':
            for tr in ends:
                tr.pause()
            go.set()
            await asyncio.sleep(rng.choice([0.001, 0.5, 5]))
            for tr in rng.sample(ends, 2):
                tr.resume()
                await asyncio.sleep(rng.choice([0, 0.001, 1]))
        else:
            go.set()
            for _ in range(rng.choice([1, 2, 4, 8])):
                tr = rng.choice(ends)
                await asyncio.sleep(rng.choice([0, 0.0001, 0.001, 0.1, 1]))
                tr.pause()
                await asyncio.sleep(rng.choice([0.0001, 0.001, 0.1, 1]))
                tr.resume()
        for tr in ends:
            tr.resume()
    tasks = [loop.create_task(call(k)) for k in range(len(calls))]
    bp = loop.create_task(back_pressure()) if pause else None
    loop.run_quiet(3000)
    if bp is not None and not bp.done():
        bp.cancel()
    dirs = []
    streams = {}
    for k in range(len(calls)):
        streams['up%d' % k] = b''.join(grpc_frame(m) for m in up[k])
        streams['down%d' % k] = b''.join(grpc_frame(m) for m in down[k])
    seen = tap.assign(streams)
    for k, (su, sd) in enumerate(calls):
        out = vloop.outcome(tasks[k])
        for name, got, seed, sizes in (('up%d' % k, got_srv[k], c['seed'] + 2 * k, su),
                                       ('down%d' % k, got_cli[k], c['seed'] + 2 * k + 1, sd)):
            dirs.append({'name': name, 'got': tokens_of(got), 'sent': None, 'seen': seen[name],
                         'stalled': out[0] == 'pending', 'stream': streams[name], 'ended': True,
                         'send_error': err_token(send_err[name]) if name in send_err else None,
                         'mcase': {'seed': seed, 'keep': -1, 'tail': '', 'sizes': sizes}})
    return {'dirs': dirs, 'task': [vloop.outcome(t)[0] for t in tasks], 'mf_applied': state['mf_applied']}


def gen_link_cases(ctx, rng):
    cases = []
    n = ctx.n(44, 500)
    for j in range(n):
        ws = [rng.choice(WINDOWS) for _ in range(4)]
        wup, wdown = min(ws[2], ws[3]), min(ws[0], ws[1])       # server receives up, client receives down
        big = max(wup, wdown) >= (1 << 20)

        def pick(window):
            menu = size_menu(16384, window)
            if window >= (1 << 20):
                return [rng.choice(menu if j % 5 == 0 else menu[:9])]
            return [rng.choice(menu) for _ in range(rng.choice([0, 1, 2, 3]))]
        case = {'kind': 'link', 'ccw': ws[0], 'csw': ws[1], 'scw': ws[2], 'ssw': ws[3],
                'sizes_up': pick(wup), 'sizes_down': pick(wdown), 'seed': rng.randrange(1, 1000),
                'script': rng.randrange(1 << 30), 'delays': rng.random() < 0.4,
                'cut': rng.choice(['none', 'bytes', 'rand', 'rand']),
                'mf': rng.choice([None, None, 16385, (1 << 24) - 1]),
                'consume_up': rng.choice(['recv', 'iter']), 'consume_down': rng.choice(['recv', 'iter']),
                'pause': rng.choice([None, None, 'first', 'first', 'rand'])}
        if not big and rng.random() < 0.5:
            # more calls on the same connection: they compete for the connection-level window
            case['more'] = [{'sizes_up': pick(wup), 'sizes_down': pick(wdown)}
                            for _ in range(rng.choice([1, 1, 2]))]
        total = sum(sum(su) + sum(sd) for su, sd in link_calls(case))
        case['codec'] = 'list' if total < 100000 and rng.random() < 0.3 else 'raw'
        cases.append(case)
    return cases


# ---- batches ---------------------------------------------------------------------------------------------

def check_buf(ctx, res, cases):
    model = ctx.model([buf_line(c) for c in cases]) if ctx.model_ok and cases else None
    with vloop.session() as loop:
        for i, c in enumerate(cases):
            try:
                impl = impl_buf(loop, c)
            except Exception as e:
                impl = 'HARNESS ' + repr(e)
            res.evaluations += 1
            res.count('buf:cases')
            for t in impl.split(' ')[:-1]:
                res.count('buf:outcome:' + t.split(':')[0][0])
            res.signatures.add(('buf', tuple(c['ops'])))
            res.sample({'kind': 'buf', 'ops': c['ops'], 'impl': impl}, limit=3)
            if impl.startswith('HARNESS'):           # the harness could not drive the Buffer: tie broken
                res.disagreements.append({'case': c, 'model': None, 'impl': impl})
                continue
            if model is not None:
                res.traces += 1
                m, masked = mask_summary(model[i], impl)
                for name in masked:
                    res.count('unobservable:buffer-' + name)
                if m != impl:
                    res.disagreements.append({'case': c, 'model': model[i], 'impl': impl})
            if 'Xindex' in impl:
                res.oracle_failures.append({'case': c, 'what': 'Buffer.read raised an internal error: ' + impl[:80],
                                            'signature': {'kind': 'buf', 'fail': 'internal-error'},
                                            'observed': impl})


def check_recv(ctx, res, cases):
    model = ctx.model([recv_line(c) for c in cases]) if ctx.model_ok and cases else None
    with vloop.session() as loop:
        for i, c in enumerate(cases):
            try:
                impl = impl_recv(loop, c)
            except Exception as e:
                impl = 'HARNESS ' + repr(e)
            res.evaluations += 1
            res.count('recv:cases')
            res.count('recv:stream:' + py_parse(recv_stream(c))[1])
            for t in impl.split(' ')[:-1]:
                k = t.split(':')[0]
                res.count('recv:result:' + ('M' if k.startswith('M') else k))
            for o in c['ops']:
                if o[0] == 'a':
                    n, a = parse_add(o)
                    res.count('recv:frame:%s' % ('empty-unpadded' if a == 0 else 'empty-padded' if n == 0
                                                 else 'padded' if a > n else 'plain'))
            res.signatures.add(('recv', tuple(c['sizes']), c['keep'], c['tail'], tuple(c['ops'])))
            res.sample({'kind': 'recv', 'case': c, 'impl': impl}, limit=5)
            if impl.startswith('HARNESS'):
                res.disagreements.append({'case': c, 'model': None, 'impl': impl})
                continue
            if model is not None:
                res.traces += 1
                m, masked = mask_summary(model[i], impl)
                for name in masked:
                    res.count('unobservable:buffer-' + name)
                if m != impl:
                    res.disagreements.append({'case': c, 'model': model[i], 'impl': impl})
            for text, kind in oracle_recv(c, impl):
                res.oracle_failures.append({'case': c, 'what': text,
                                            'signature': {'kind': 'recv', 'fail': kind}, 'observed': impl})


def check_framing(ctx, res, rng, only=None):
    from grpclib.stream import send_message

    class Sink:
        def __init__(self):
            self.data = None

        async def send_data(self, data, end_stream=False):
            self.data = data
    msgs = only if only is not None else \
        [b'', b'\0', b'a', bytes(range(256)), b'x' * 255, b'y' * 256, b'z' * 65536] + \
        [bytes(rng.randrange(256) for _ in range(rng.choice([1, 2, 5, 300]))) for _ in range(ctx.n(20, 200))]
    lines = ['frame ' + (m.hex() or '-') for m in msgs]
    model = ctx.model(lines) if ctx.model_ok else None
    with vloop.session() as loop:
        for i, m in enumerate(msgs):
            s = Sink()
            t = loop.create_task(send_message(s, RawCodec(), m, bytes))
            loop.run_quiet(1)
            res.evaluations += 1
            res.count('framing')
            res.signatures.add(('frame', len(m)))
            if model is not None:
                res.traces += 1
                if model[i] != (s.data.hex() if s.data is not None else 'err'):
                    res.disagreements.append({'case': {'kind': 'frame', 'm': m}, 'model': model[i][:60],
                                              'impl': s.data})
            if s.data is None or py_parse(s.data) != ([m], 'clean'):
                res.oracle_failures.append({'case': {'kind': 'frame', 'm': m}, 'what': 'send_message does not '
                                            'produce one well-formed frame', 'signature': {'kind': 'frame'},
                                            'observed': s.data})


def rng_factory_of(ctx):
    import random
    return lambda s: random.Random(s)


def undo_json(x):
    if isinstance(x, dict) and set(x) == {'hex'}:
        return bytes.fromhex(x['hex'])
    if isinstance(x, dict):
        return {k: undo_json(v) for k, v in x.items()}
    if isinstance(x, list):
        return [undo_json(v) for v in x]
    return x


def dispatch(ctx, res, cases):
    rf = rng_factory_of(ctx)
    by = {}
    for c in cases:
        by.setdefault(c.get('kind'), []).append(c)
    if by.get('buf'):
        check_buf(ctx, res, by['buf'])
    if by.get('recv'):
        check_recv(ctx, res, by['recv'])
    if by.get('psend'):
        check_psend(ctx, res, by['psend'], rf)
    if by.get('precv'):
        check_recv_e2e(ctx, res, by['precv'], rf, precv_runner, 'precv')
    if by.get('link'):
        check_recv_e2e(ctx, res, by['link'], rf, run_link, 'link')


def run(ctx):
    res = Result()
    rng = ctx.rng
    res.rule = ('corpus first; then PRNG cases of five kinds: buf (Buffer op sequences add/eof/read/resume, '
                '~15% illegal histories), recv (message lists with sizes from {0,1,4,5,6,7,16,40,255..257,1000}, '
                'stream clean / cut at any byte / compressed flag / left open, PRNG cut into frames with '
                'padding, empty un-padded and empty padded frames, reads interleaved anywhere, extra calls '
                'after the terminal result), psend (send_message of sizes from {0,1,4,5,6,frame-1,frame,'
                'frame+1,window-1,window,window+1,3*window} against peer windows {65535,65536,1MiB}^2 x '
                'max-frame {16384,16385,2^24-1}, PRNG WINDOW_UPDATE / SETTINGS script), precv (scripted peer '
                '-> client/server with receive windows from the same set, PRNG DATA frames incl. zero-length '
                'and padded, PRNG socket reads incl. 1-byte, truncation), link (real client <-> real server, '
                'PRNG re-cut of every write, both directions, delays, 1-3 concurrent calls on one connection, '
                'transport back-pressure pause_writing/resume_writing before the sends or at PRNG moments); '
                'consumers are recv_message loops or `async for`; codec raw bytes or a list codec (empty message '
                'decodes to a falsy value); psend peers also advertise stream windows 0/1000/20000, re-open them '
                'by SETTINGS alone or combined with other settings, and after every peer action the sender must '
                'have used up all credit granted; distinct = distinct '
                '(kind, configuration, sizes, op/frame sequence)')
    corpus = [undo_json(c) for c in ctx.corpus()]
    dispatch(ctx, res, corpus)
    for c in corpus:
        res.count('corpus')
    check_framing(ctx, res, rng)
    cases = [gen_buf_case(rng) for _ in range(ctx.n(400, 8000))]
    cases += [gen_recv_case(rng) for _ in range(ctx.n(500, 10000))]
    cases += gen_psend_cases(ctx, rng)
    cases += gen_precv_cases(ctx, rng)
    cases += gen_link_cases(ctx, rng)
    dispatch(ctx, res, cases)
    return res


def replay(ctx, case):
    res = Result()
    case = undo_json(case)
    if case.get('kind') == 'frame':
        check_framing(ctx, res, ctx.rng, only=[case['m']])
        return res
    dispatch(ctx, res, [case])
    return res
