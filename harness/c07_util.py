"""C07 helper: run N real protocol.Stream.send_data tasks (client side or server side) against a strict
scripted h2 peer that never re-credits on its own (auto_ack=False), under a list of peer actions.

case = {'side': 'client'|'server', 'api': 'data'|'message', 'lens': [int,...],
        'iw0': int, 'cw0': int, 'mf0': int, 'ops': [[tok, args...], ...]}
  lens[i]  bytes given to send_data by sender i (api 'message': payload of send_message, 5 more on the wire)
  iw0      the peer's SETTINGS_INITIAL_WINDOW_SIZE when the sender streams are opened
  cw0      the connection window the senders start with (below 65535: an extra 'burner' stream uses up
           the difference first; above: a connection WINDOW_UPDATE)
  mf0      the peer's SETTINGS_MAX_FRAME_SIZE
  ops      ws i k | wc k | iw v | mf m | p | r | q | qp k | rst | rp     (see ocaml/dC07.ml)
           st [[iw, v], [mf, m], [mcs, n], [unk, k]]   ONE SETTINGS frame carrying any subset of INITIAL_WINDOW_SIZE,
                 MAX_FRAME_SIZE, MAX_CONCURRENT_STREAMS and the unknown setting id 0x99
           b [op, ...]   several peer frames (ws | wc | iw | mf | st) queued by the peer and delivered in ONE
                 read (one data_received call: h2 has applied all of them before grpclib sees the first event)
           rst = Stream.reset_nowait() on one of NVICTIMS extra open streams of the connection (another
                 call being cancelled); rp = the transport resumes and pauses again from inside the first
                 write() that follows (the flush of Connection.resume_writing, if h2 has something queued)
The rig reaches grpclib only through public names: the connection is made by intercepting the event loop's
create_connection / create_server (what Channel / Server.start call), the protocol-level stream and the h2
connection are found BY TYPE among the attributes of the public objects, and what cannot be found degrades to
"not observed" (never to a crash).
"""
import asyncio

from h2.connection import H2Connection
from h2.events import DataReceived, RequestReceived
from h2.settings import SettingCodes

import grpclib.protocol
from grpclib.client import Channel, StreamStreamMethod
from grpclib.server import Server

from harness import vloop
from harness.peer import Peer, REQ_HEADERS
from harness.svc import RawCodec, Service
from harness.wire import MemTransport

NVICTIMS = 4
LIVELOCK_LIMIT = 1000        # a legitimate segment has at most len/16384 + 2 iterations per sender


class Livelock(Exception):
    pass


def find_by_type(obj, cls):
    """the attribute of obj (however it is called) that holds an instance of cls"""
    seen = []
    try:
        seen = list(vars(obj).values())
    except TypeError:
        pass
    for name in getattr(type(obj), '__slots__', ()):
        if hasattr(obj, name):
            seen.append(getattr(obj, name))
    for v in seen:
        if isinstance(v, cls):
            return v
    return None


def pstream_of(hi):
    """the grpclib.protocol.Stream behind a client/server Stream"""
    if isinstance(hi, grpclib.protocol.Stream):
        return hi
    ps = find_by_type(hi, grpclib.protocol.Stream)
    if ps is None:
        raise RuntimeError('no protocol-level stream found behind %r' % type(hi).__name__)
    return ps


class _FakeServer:
    sockets = ()

    def close(self):
        pass

    async def wait_closed(self):
        pass

    def is_serving(self):
        return True


class PTransport(MemTransport):
    """MemTransport that can call protocol.pause_writing() from inside write(), as a real transport
    does when its buffer passes the high-water mark."""
    countdown = None

    def write(self, data):
        super().write(data)
        if self.countdown is not None and data:
            self.countdown -= 1
            if self.countdown <= 0:
                self.countdown = None
                self.pause()


def pattern(i, n):
    """the bytes sender i sends: position-dependent, different per stream"""
    return bytes(((i + 1) * 41 + k * 7 + (k >> 8)) % 251 for k in range(n))


class Rig:
    def __init__(self, loop, case):
        self.loop = loop
        self.case = case
        self.side = case['side']
        self.api = case.get('api', 'data')
        self.n = len(case['lens'])
        self.payload = [pattern(i, ln) for i, ln in enumerate(case['lens'])]
        if self.api == 'message':
            self.wire_data = [b'\x00' + len(p).to_bytes(4, 'big') + p for p in self.payload]
        else:
            self.wire_data = list(self.payload)
        self.tasks = [None] * self.n
        self.streams = [None] * self.n        # protocol.Stream objects
        self.start = [asyncio.Event() for _ in range(self.n)]
        self.park = asyncio.Event()
        self.finished = [False] * self.n
        self.errors = [None] * self.n
        self.sid_index = {}
        self.victims = []                     # protocol.Stream objects of the extra calls
        self.calls = 0
        self.setup_error = None

    # ---- wiring ----
    def _guard(self, proto):
        h2c = find_by_type(proto.connection, H2Connection)
        if h2c is None:
            raise RuntimeError('no h2 connection found behind the protocol')
        orig = h2c.local_flow_control_window

        def guarded(stream_id):
            self.calls += 1
            if self.calls > LIVELOCK_LIMIT:
                raise Livelock('send_data loop does not suspend')
            return orig(stream_id)
        h2c.local_flow_control_window = guarded
        self.h2c = h2c

    async def _sender_body(self, i, pstream, hi_stream):
        self.streams[i] = pstream
        self.tasks[i] = asyncio.current_task()
        await self.start[i].wait()
        try:
            if self.api == 'message':
                await hi_stream.send_message(self.payload[i])
            else:
                await pstream.send_data(self.payload[i])
            self.finished[i] = True
        except asyncio.CancelledError:
            raise
        except BaseException as e:  # noqa
            self.errors[i] = e
            return
        await self.park.wait()

    def setup(self):
        burn = max(0, 65535 - self.case['cw0'])
        grant = max(0, self.case['cw0'] - 65535)
        loop = self.loop
        if self.side == 'client':
            self.peer = Peer(client_side=False, auto_ack=False)

            async def create_connection(protocol_factory, *a, **kw):
                proto = protocol_factory()
                tr = PTransport(proto, loop, on_write=self.peer.receive)
                self.peer.attach(tr)
                self.peer.start()
                proto.connection_made(tr)
                self.peer.flush()
                self.proto, self.transport = proto, tr
                return tr, proto
            loop.create_connection = create_connection          # what Channel calls to connect
            loop.create_unix_connection = create_connection
            self.channel = Channel('127.0.0.1', 50051, codec=RawCodec())
            method = StreamStreamMethod(self.channel, '/v.S/M', bytes, bytes)

            async def burner():
                async with method.open() as s:
                    await s.send_request()
                    await pstream_of(s).send_data(b'\x55' * burn)
                    self.burned = True
                    await self.park.wait()

            async def victim():
                async with method.open() as s:
                    await s.send_request()
                    self.victims.append(pstream_of(s))
                    await self.park.wait()

            async def sender(i):
                async with method.open() as s:
                    await s.send_request()
                    ps = pstream_of(s)
                    self.sid_index[ps.id] = i
                    await self._sender_body(i, ps, s)
            self.burned = burn == 0
            self.aux = []
            # the first call opens the connection: the burner if there is one, else the first victim
            first = 1
            if burn:
                self.aux.append(loop.create_task(burner()))
                first = 0
            else:
                self.aux.append(loop.create_task(victim()))
            loop.run_quiet(1.0)
            self._guard(self.proto)
            self.peer.settings({SettingCodes.INITIAL_WINDOW_SIZE: self.case['iw0'],
                                SettingCodes.MAX_FRAME_SIZE: self.case['mf0']})
            if grant:
                self.peer.window_update(0, grant)
            for _ in range(NVICTIMS - first):
                self.aux.append(loop.create_task(victim()))
            for i in range(self.n):
                self.aux.append(loop.create_task(sender(i)))
            loop.run_quiet(1.0)
        else:
            kinds = []

            async def handler(stream):
                kind = kinds.pop(0)
                await stream.send_initial_metadata()
                if kind == 'burn':
                    await pstream_of(stream).send_data(b'\x55' * burn)
                    self.burned = True
                    await self.park.wait()
                elif kind == 'victim':
                    self.victims.append(pstream_of(stream))
                    await self.park.wait()
                else:
                    await self._sender_body(kind, pstream_of(stream), stream)
            factory = []

            async def create_server(protocol_factory, *a, **kw):      # what Server.start calls to listen
                factory.append(protocol_factory)
                return _FakeServer()
            loop.create_server = create_server
            loop.create_unix_server = create_server
            self.server = Server([Service('v.S', {'M': (handler, 'SS')})], codec=RawCodec())
            self.aux = [loop.create_task(self.server.start('127.0.0.1', 50051))]
            loop.run_quiet(1.0)
            proto = factory[0]()
            self.peer = Peer(client_side=True, auto_ack=False)
            tr = PTransport(proto, loop, on_write=self.peer.receive)
            self.peer.attach(tr)
            self.peer.start()
            proto.connection_made(tr)
            self.peer.flush()
            self.proto, self.transport = proto, tr
            self.burned = burn == 0
            if burn:
                kinds.append('burn')
                self.peer.request(REQ_HEADERS)
                loop.run_quiet(1.0)
            self._guard(proto)
            self.peer.settings({SettingCodes.INITIAL_WINDOW_SIZE: self.case['iw0'],
                                SettingCodes.MAX_FRAME_SIZE: self.case['mf0']})
            if grant:
                self.peer.window_update(0, grant)
            for _ in range(NVICTIMS):
                kinds.append('victim')
                self.peer.request(REQ_HEADERS)
            for i in range(self.n):
                kinds.append(i)
                sid = self.peer.request(REQ_HEADERS)
                self.sid_index[sid] = i
            loop.run_quiet(1.0)
        self.conn = self.proto.connection
        if not self.burned or any(t is None for t in self.tasks) or self.peer.violations or \
                len(self.victims) != NVICTIMS:
            self.setup_error = 'setup incomplete: burned=%r tasks=%r violations=%r' % (
                self.burned, [t is not None for t in self.tasks], self.peer.violations)
        self.peer.take_events()
        # all senders become ready in index order
        for ev in self.start:
            ev.set()

    # ---- observation ----
    def pcs(self):
        out = []
        for i in range(self.n):
            t = self.tasks[i]
            if self.errors[i] is not None or (t is not None and t.done() and not self.finished[i]):
                out.append('F')
            elif self.finished[i]:
                out.append('D')
            else:
                # which Event the task waits on (asyncio internals; 'B' = blocked, not observable)
                fut = getattr(t, '_fut_waiter', None)
                wu = getattr(getattr(self.streams[i], 'window_updated', None), '_waiters', None)
                wr = getattr(getattr(self.conn, 'write_ready', None), '_waiters', None)
                if fut is None or wu is None or wr is None:
                    out.append('B')
                elif fut in wu:
                    out.append('U')
                elif fut in wr:
                    out.append('W')
                else:
                    out.append('?')
        return ''.join(out)

    def queued(self):
        """does h2 hold outbound bytes not yet handed to the transport (None = not observable)"""
        buf = getattr(self.h2c, '_data_to_send', None)
        return None if buf is None else bool(buf)

    def write_ready(self):
        ev = getattr(self.conn, 'write_ready', None)
        return None if ev is None else ev.is_set()

    def windows(self):
        h = self.h2c
        sws = []
        for i in range(self.n):
            st = h.streams.get(self.streams[i].id)
            sws.append(st.outbound_flow_control_window if st is not None else None)
        return h.outbound_flow_control_window, sws, h.max_outbound_frame_size

    def frames(self):
        """DATA frames the peer received since the last call: [(sender index, bytes)]"""
        out = []
        for ev in self.peer.take_events():
            if isinstance(ev, DataReceived):
                out.append((self.sid_index.get(ev.stream_id, -1), bytes(ev.data),
                            ev.flow_controlled_length))
        return out


UNKNOWN_SETTING = 0x99


def queue_frame(rig, op):
    """queue one frame in the peer's h2 without sending it"""
    peer, tok = rig.peer, op[0]
    if tok == 'ws':
        peer.window_update(rig.streams[op[1]].id, op[2], flush=False)
    elif tok == 'wc':
        peer.window_update(0, op[1], flush=False)
    elif tok == 'iw':
        peer.settings({SettingCodes.INITIAL_WINDOW_SIZE: op[1]}, flush=False)
    elif tok == 'mf':
        peer.settings({SettingCodes.MAX_FRAME_SIZE: op[1]}, flush=False)
    elif tok == 'st':
        vals = {}
        for k, v in op[1]:                      # list of [name, value]: the order inside the frame
            vals[{'iw': SettingCodes.INITIAL_WINDOW_SIZE, 'mf': SettingCodes.MAX_FRAME_SIZE,
                  'mcs': SettingCodes.MAX_CONCURRENT_STREAMS, 'unk': UNKNOWN_SETTING}[k]] = v
        peer.settings(vals, flush=False)
    else:
        raise ValueError('not a peer frame: %r' % (op,))


def run_case(case):
    """Returns a dict: 'records' (one per q/qp: what the model prints), 'frames' (every DATA frame in
    arrival order with the op index after which it arrived), 'violations', 'final' ..."""
    obs = {'records': [], 'frames': [], 'violations': [], 'setup_error': None, 'status': [],
           'exceptions': [], 'unhandled': 0, 'repaused': 0}
    with vloop.session() as loop:
        rig = Rig(loop, case)
        try:
            rig.setup()
        except Exception as e:  # noqa
            obs['setup_error'] = 'setup raised %s: %s' % (type(e).__name__, e)
            return obs
        if rig.setup_error:
            obs['setup_error'] = rig.setup_error
            return obs
        peer = rig.peer
        pending_frames = []
        outside = 0          # DATA frames that reached the peer while no sender was running
        for k, op in enumerate(case['ops']):
            tok = op[0]
            rig.calls = 0
            paused_before = rig.transport.paused
            try:
                if tok in ('ws', 'wc', 'iw', 'mf', 'st'):
                    queue_frame(rig, op)
                    peer.flush()
                elif tok == 'b':
                    for sub in op[1]:
                        queue_frame(rig, sub)
                    peer.flush()                  # one write -> one data_received
                elif tok == 'p':
                    rig.transport.pause()
                elif tok == 'r':
                    rig.transport.resume()
                elif tok == 'rst':
                    rig.victims.pop(0).reset_nowait()
                elif tok == 'rp':
                    was = rig.transport.paused
                    rig.transport.countdown = 1
                    rig.transport.resume()
                    rig.transport.countdown = None
                    if was and rig.transport.paused:
                        obs['repaused'] += 1
                elif tok in ('q', 'qp'):
                    rig.transport.countdown = op[1] if tok == 'qp' else None
                    loop.run_quiet(1.0)
                    rig.transport.countdown = None
                else:
                    raise ValueError('unknown op %r' % (op,))
            except Livelock:
                obs['exceptions'].append((k, 'Livelock'))
            except Exception as e:  # noqa
                obs['exceptions'].append((k, type(e).__name__))
            fr = rig.frames()
            for (i, data, fcl) in fr:
                obs['frames'].append({'after_op': k, 'sender': i, 'data': data, 'fcl': fcl})
            pending_frames += [(i, len(d)) for i, d, _ in fr]
            if tok not in ('q', 'qp'):
                outside += len(fr)
            if tok in ('q', 'qp'):
                cw, sws, mf = rig.windows()
                obs['records'].append({
                    'chunks': pending_frames, 'pcs': rig.pcs(), 'cw': cw, 'sws': sws, 'mf': mf,
                    'wr': rig.write_ready(), 'paused': rig.transport.paused, 'op': k,
                    'paused_before': paused_before, 'outside': outside,
                    'hq': rig.queued()})
                pending_frames = []
                outside = 0
        obs['violations'] = [type(v).__name__ for v in peer.violations]
        obs['status'] = list(rig.pcs())
        obs['errors'] = [None if e is None else type(e).__name__ for e in rig.errors]
        obs['sent'] = rig.wire_data
        obs['unhandled'] = len(loop.unhandled)
        rig.park.set()
    return obs
