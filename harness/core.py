"""Shared machinery of ./check: build legs, model runner, evidence, known findings, replays.

Every property driver (harness/drive_Cxx.py) exposes

    PROPERTY = 'Cxx'
    THEOREM_FILES = ['Props/Cxx.v']        # files whose theorems are the obligations
    ALLOWED_AXIOMS = [...]                 # std-lib axioms Print Assumptions may show
    def run(ctx) -> Result                 # correspondence + direct oracle on a batch
    def replay(ctx, case) -> Result        # the same on one stored case

`Result` carries disagreements (model vs implementation: the tie is broken) and oracle failures
(the property itself fails on the implementation).  core.decide() turns the three legs into the
exit status and the VIOLATION / KNOWN-FINDING lines described in DESIGN.md section 1.1.
"""
import fcntl
import hashlib
import json
import os
import random
import re
import subprocess
import sys
import time

VERIF = os.path.dirname(os.path.dirname(os.path.abspath(__file__)))
REPO = os.environ.get('VERIF_REPO', '/repo')
COQ = os.path.join(VERIF, 'coq')
BUILD = os.path.join(VERIF, 'build')
PY = '/venv/bin/python'

KERNEL_TB = [
    'Coq 8.16.1 kernel (vm_compute used, native_compute never)',
    'ExtrOcamlBasic extraction + ocaml/prelude.ml + per-property driver (no Extract Constant; '
    'Z/N/positive/nat stay Coq datatypes)',
    'tools/extract_facts.py and tools/skeleton_ir.py (fail-closed ast translators)',
    'harness: virtual-time loop, in-memory wire, scripted h2 peer, canonicalisation',
]


class Result:
    def __init__(self):
        self.evaluations = 0
        self.signatures = set()      # distinct non-trivial case signatures
        self.rule = ''
        self.samples = []
        self.distribution = {}
        self.disagreements = []      # [{'case':..., 'model':..., 'impl':...}]
        self.oracle_failures = []    # [{'case':..., 'what': str, 'signature': {...}}]
        self.traces = 0              # cases compared model vs implementation
        self.exhaustive = False
        self.extra = {}
        self.notes = []

    def count(self, key, n=1):
        self.distribution[key] = self.distribution.get(key, 0) + n

    def sample(self, case, limit=6):
        if len(self.samples) < limit:
            self.samples.append(case)

    def merge(self, other):
        self.evaluations += other.evaluations
        self.signatures |= other.signatures
        for k, v in other.distribution.items():
            self.count(k, v)
        for s in other.samples:
            self.sample(s)
        self.disagreements += other.disagreements
        self.oracle_failures += other.oracle_failures
        self.traces += other.traces
        self.extra.update(other.extra)
        self.notes += other.notes
        if other.rule and other.rule not in self.rule:
            self.rule = (self.rule + ' | ' + other.rule) if self.rule else other.rule


class Ctx:
    def __init__(self, prop, tier, seed):
        self.prop = prop
        self.tier = tier
        self.seed = seed
        self.rng = random.Random(seed)
        self.search = False          # leg 3: larger, oracle-centred exploration
        self.t0 = time.time()

    def n(self, quick, thorough):
        k = thorough if self.tier == 'thorough' else quick
        return k * 3 if self.search else k

    def model(self, lines, name=None):
        return run_model(name or self.prop, lines)

    def corpus(self):
        d = os.path.join(VERIF, 'corpus', self.prop)
        out = []
        if os.path.isdir(d):
            for fn in sorted(os.listdir(d)):
                if fn.endswith('.json'):
                    with open(os.path.join(d, fn)) as f:
                        out.append(json.load(f))
        return out


# ------------------------------------------------------------------------------------------------
# locking / subprocess helpers

class Lock:
    def __init__(self, name):
        os.makedirs(BUILD, exist_ok=True)
        self.path = os.path.join(BUILD, '.lock-' + name)

    def __enter__(self):
        self.f = open(self.path, 'w')
        fcntl.flock(self.f, fcntl.LOCK_EX)
        return self

    def __exit__(self, *a):
        fcntl.flock(self.f, fcntl.LOCK_UN)
        self.f.close()


def sh(cmd, cwd=None, timeout=1800, env=None, input=None):
    e = dict(os.environ)
    if env:
        e.update(env)
    try:
        p = subprocess.run(cmd, cwd=cwd, shell=isinstance(cmd, str), stdout=subprocess.PIPE,
                           stderr=subprocess.STDOUT, timeout=timeout, env=e, input=input)
        return p.returncode, p.stdout.decode('utf-8', 'replace')
    except subprocess.TimeoutExpired as ex:
        out = ex.stdout.decode('utf-8', 'replace') if ex.stdout else ''
        return 124, out + '\n[timeout after %ss]' % timeout


# ------------------------------------------------------------------------------------------------
# leg 1: regenerate Gen/, build, check theorems and assumptions

HYGIENE_RE = re.compile(
    r'\b(Admitted|admit|Axiom|Axioms|Parameter|Parameters|Conjecture|Conjectures|Hypothesis|'
    r'Variable|Variables|Hypotheses|Unset\s+Guard|bypass_check|Admit\s+Obligations|'
    r'type-in-type|impredicative-set|Unset\s+Universe|Unset\s+Positivity)\b')


def strip_coq_comments(text):
    out, depth, i = [], 0, 0
    while i < len(text):
        if text.startswith('(*', i):
            depth += 1
            i += 2
        elif text.startswith('*)', i) and depth:
            depth -= 1
            i += 2
        else:
            if not depth:
                out.append(text[i])
            elif text[i] == '\n':
                out.append('\n')
            i += 1
    return ''.join(out)


def v_closure(vfiles):
    """the .v files (relative to coq/) that the given files transitively Require from GV"""
    seen, todo = set(), list(vfiles)
    while todo:
        f = todo.pop()
        if f in seen or not os.path.exists(os.path.join(COQ, f)):
            continue
        seen.add(f)
        text = strip_coq_comments(open(os.path.join(COQ, f)).read())
        for m in re.finditer(r'(From\s+GV\s+)?Require\s+(?:Import\s+|Export\s+)?(.*?)\.(?=\s|$)', text, re.S):
            for name in m.group(2).split():
                if m.group(1):
                    todo.append(name.replace('.', '/') + '.v')
                elif name.startswith('GV.'):
                    todo.append(name[3:].replace('.', '/') + '.v')
    return sorted(seen)


def hygiene(only=None):
    """Reject admits, declared axioms, and disabled kernel checks under coq/ (everything, or the
    dependency closure `only`).  `Variable`/`Hypothesis` are allowed only between `Section` and `End`."""
    bad = []
    for root, _, files in os.walk(COQ):
        for fn in files:
            if not fn.endswith('.v'):
                continue
            path = os.path.join(root, fn)
            if only is not None and os.path.relpath(path, COQ) not in only:
                continue
            text = strip_coq_comments(open(path).read())
            depth = 0
            for ln, line in enumerate(text.split('\n'), 1):
                if re.match(r'\s*Section\s+\w+', line):
                    depth += 1
                if re.match(r'\s*End\s+\w+\s*\.', line) and depth:
                    depth -= 1
                    continue
                for m in HYGIENE_RE.finditer(line):
                    w = m.group(1)
                    if w.startswith(('Variable', 'Hypothes')) and depth > 0:
                        continue
                    bad.append('%s:%d: %s' % (os.path.relpath(path, VERIF), ln, line.strip()))
    for fn in ('_CoqProject',):
        p = os.path.join(COQ, fn)
        if os.path.exists(p) and re.search(r'type-in-type|impredicative-set|-vos',
                                           open(p).read()):
            bad.append('_CoqProject passes a forbidden flag')
    return bad


def write_if_changed(path, text):
    old = None
    if os.path.exists(path):
        with open(path) as f:
            old = f.read()
    if old != text:
        os.makedirs(os.path.dirname(path), exist_ok=True)
        with open(path, 'w') as f:
            f.write(text)
        return True
    return False


def regen():
    """Run the source->Coq translators.  Returns (ok, log)."""
    rc, out = sh([PY, os.path.join(VERIF, 'tools', 'regen.py')], cwd=VERIF, timeout=300,
                 env={'PYTHONPATH': REPO, 'PYTHONHASHSEED': '0', 'VERIF_REPO': REPO})
    return rc == 0, out


def coq_project():
    files = []
    for sub in ('Lib', 'Gen', 'Model', 'Proofs', 'Props', 'Extract'):
        d = os.path.join(COQ, sub)
        if os.path.isdir(d):
            for fn in sorted(os.listdir(d)):
                if fn.endswith('.v'):
                    files.append('%s/%s' % (sub, fn))
    text = '-Q . GV\n-arg -w -arg -notation-overridden,-deprecated\n' + '\n'.join(files) + '\n'
    changed = write_if_changed(os.path.join(COQ, '_CoqProject'), text)
    if changed or not os.path.exists(os.path.join(COQ, 'Makefile')):
        rc, out = sh('coq_makefile -f _CoqProject -o Makefile', cwd=COQ, timeout=120)
        if rc:
            raise RuntimeError('coq_makefile failed:\n' + out)


def make(targets, jobs=8, timeout=3000):
    os.makedirs(os.path.join(BUILD, 'ml'), exist_ok=True)
    return sh(['make', '-j%d' % jobs] + targets, cwd=COQ, timeout=timeout)


def theorem_names(vfile):
    text = strip_coq_comments(open(os.path.join(COQ, vfile)).read())
    return re.findall(r'^\s*Theorem\s+([A-Za-z0-9_\']+)', text, re.M)


def failing_item(log):
    """Name the file/line (and nearest preceding statement) of the first coqc error in a log."""
    m = re.search(r'File "\./([^"]+)", line (\d+)', log)
    if not m:
        return None
    f, ln = m.group(1), int(m.group(2))
    name = None
    try:
        lines = open(os.path.join(COQ, f)).read().split('\n')
        for i in range(min(ln, len(lines)) - 1, -1, -1):
            mm = re.match(r'\s*(Theorem|Lemma|Corollary|Example|Definition|Fact)\s+([\w\']+)',
                          lines[i])
            if mm:
                name = mm.group(2)
                break
    except OSError:
        pass
    tail = log[m.start():m.start() + 600]
    return {'file': f, 'line': ln, 'statement': name, 'error': tail}


def parse_assumptions(transcript):
    """Split a coqc transcript into the Print Assumptions blocks, in order."""
    blocks = []
    cur = None
    for line in transcript.split('\n'):
        if line.startswith('Closed under the global context'):
            blocks.append([])
            cur = None
        elif line.startswith('Axioms:'):
            cur = []
            blocks.append(cur)
        elif cur is not None:
            m = re.match(r'^([A-Za-z_][\w.\']*)\s*(:|$)', line)
            if m:
                cur.append(m.group(1))      # (the type may be wrapped onto the next lines)
            elif line and not line.startswith(' '):
                cur = None
    return blocks


def proof_leg(driver, tier):
    """Returns dict(ok, obligations, discharged, theorems, axioms, failure, transcript, checker)."""
    res = {'ok': False, 'obligations': 0, 'discharged': 0, 'theorems': [], 'axioms': [],
           'failure': None, 'checker_cmd': '', 'facts_regenerated': False}
    if os.environ.get('VERIF_SKIP_PROOF') and REPO != '/repo':
        # development aid for mutant self-tests on a scratch copy of the repository: leave the shared
        # coq/ build alone and exercise only the correspondence and oracle legs
        for vf in driver.THEOREM_FILES:
            res['theorems'] += theorem_names(vf)
        res['obligations'] = res['discharged'] = len(res['theorems'])
        res['ok'] = True
        res['checker_cmd'] = 'SKIPPED (VERIF_SKIP_PROOF on a scratch repository)'
        print('WARNING: proof leg skipped (VERIF_SKIP_PROOF, scratch repo %s)' % REPO)
        return res
    with Lock('coq'):
        ok, log = regen()
        res['facts_regenerated'] = ok
        if not ok:
            res['failure'] = {'file': 'tools/regen.py', 'statement': 'translator (fail-closed)',
                              'error': log[-1500:]}
            # still count obligations from the committed theorem files
            for vf in driver.THEOREM_FILES:
                res['theorems'] += theorem_names(vf)
            res['obligations'] = len(res['theorems'])
            return res
        extract0 = getattr(driver, 'EXTRACT', 'Extract/X%s.v' % driver.PROPERTY)
        bad = hygiene(v_closure(list(driver.THEOREM_FILES) + [extract0]))
        if bad:
            res['failure'] = {'file': 'coq/', 'statement': 'hygiene gate',
                              'error': '\n'.join(bad[:20])}
            return res
        coq_project()
        targets = [vf[:-2] + '.vo' for vf in driver.THEOREM_FILES]
        extract = getattr(driver, 'EXTRACT', 'Extract/X%s.v' % driver.PROPERTY)
        if extract and os.path.exists(os.path.join(COQ, extract)):
            targets.append(extract[:-2] + '.vo')
        res['checker_cmd'] = 'make -C coq ' + ' '.join(targets) + \
            ' && coqc -Q coq GV ' + ' '.join('coq/' + f for f in driver.THEOREM_FILES)
        for vf in driver.THEOREM_FILES:
            res['theorems'] += theorem_names(vf)
        res['obligations'] = len(res['theorems'])
        rc, log = make(targets)
        res['make_log_tail'] = log[-2000:]
        if rc:
            res['failure'] = failing_item(log) or {'file': '?', 'statement': '?',
                                                   'error': log[-1500:]}
            res['discharged'] = 0      # conservative: nothing counts as discharged when the build fails
            return res
        # transcript of the property files themselves: Print Assumptions under every theorem
        allowed = set(getattr(driver, 'ALLOWED_AXIOMS', []))
        axioms = set()
        scratch = os.path.join(BUILD, 'scratch')
        os.makedirs(scratch, exist_ok=True)
        for vf in driver.THEOREM_FILES:
            rc, tr = sh(['coqc', '-Q', '.', 'GV', '-w', '-notation-overridden,-deprecated',
                         '-o', os.path.join(scratch, os.path.basename(vf) + 'o'), vf],
                        cwd=COQ, timeout=900)
            names = theorem_names(vf)
            blocks = parse_assumptions(tr)
            if rc or len(blocks) < len(names):
                res['failure'] = failing_item(tr) or {
                    'file': vf, 'statement': 'Print Assumptions missing',
                    'error': 'theorems=%d assumption blocks=%d\n%s' % (len(names), len(blocks),
                                                                       tr[-800:])}
                return res
            for b in blocks:
                axioms |= set(b)
            res['discharged'] += len(names)
        res['axioms'] = sorted(axioms)
        extra = axioms - allowed
        if extra:
            res['failure'] = {'file': ','.join(driver.THEOREM_FILES),
                              'statement': 'axiom allow-list',
                              'error': 'unexpected axioms: ' + ', '.join(sorted(extra))}
            return res
        if tier == 'thorough' and getattr(driver, 'COQCHK', True):
            mods = ['GV.' + vf[:-2].replace('/', '.') for vf in driver.THEOREM_FILES]
            rc, out = sh(['coqchk', '-silent', '-o', '-Q', '.', 'GV'] + mods, cwd=COQ,
                         timeout=3000)
            res['coqchk'] = {'rc': rc, 'tail': out[-3000:]}
            res['checker_cmd'] += ' && coqchk -silent -o -Q coq GV ' + ' '.join(mods)
            if rc:
                res['failure'] = {'file': ','.join(driver.THEOREM_FILES), 'statement': 'coqchk',
                                  'error': out[-1500:]}
                return res
        res['ok'] = True
    return res


# ------------------------------------------------------------------------------------------------
# extracted model binaries

def build_model(name):
    """build/model_<name> from build/ml/m<name>.ml (extracted) + ocaml/prelude.ml + ocaml/d<name>.ml"""
    ml = os.path.join(BUILD, 'ml', 'm%s.ml' % name)
    drv = os.path.join(VERIF, 'ocaml', 'd%s.ml' % name)
    pre = os.path.join(VERIF, 'ocaml', 'prelude.ml')
    exe = os.path.join(BUILD, 'model_%s' % name)
    if not os.path.exists(ml):
        return False, 'extracted file %s missing (Extract/X%s.v not built?)' % (ml, name)
    srcs = [ml, pre, drv]
    if os.path.exists(exe) and all(os.path.getmtime(exe) >= os.path.getmtime(s) for s in srcs):
        return True, ''
    with Lock('ocaml-' + name):
        cat = os.path.join(BUILD, 'ml', 'model_%s.ml' % name)
        with open(cat, 'w') as f:
            for s in srcs:
                f.write('# 1 "%s"\n' % s)
                f.write(open(s).read())
                f.write('\n')
        rc, out = sh(['ocamlfind', 'ocamlopt', '-O3' if False else '-inline', '100', '-w', '-a',
                      '-package', 'str', '-linkpkg', cat, '-o', exe + '.tmp'],
                     cwd=os.path.join(BUILD, 'ml'), timeout=600)
        if rc:
            return False, out[-3000:]
        os.replace(exe + '.tmp', exe)
    return True, ''


def run_model(name, lines, timeout=1200):
    exe = os.path.join(BUILD, 'model_%s' % name)
    data = ('\n'.join(lines) + '\n').encode()
    p = subprocess.run([exe], input=data, stdout=subprocess.PIPE, stderr=subprocess.PIPE,
                       timeout=timeout)
    if p.returncode:
        raise RuntimeError('model_%s failed rc=%d: %s' % (name, p.returncode,
                                                          p.stderr.decode()[-500:]))
    out = p.stdout.decode().split('\n')
    if out and out[-1] == '':
        out.pop()
    if len(out) != len(lines):
        raise RuntimeError('model_%s: %d answers for %d cases' % (name, len(out), len(lines)))
    return out


def coq_eval(imports, expr, timeout=600):
    """Evaluate a closed Gallina expression of type (nested) list of Z / bool / option inside Coq with
    vm_compute and return it as a Python value -- used by thorough tiers to cross-check the EXTRACTED model
    against in-assistant evaluation on a subsample (validates extraction + ocaml/prelude.ml + driver)."""
    import ast as _ast
    os.makedirs(os.path.join(BUILD, 'scratch'), exist_ok=True)
    name = 'Eval%d' % os.getpid()
    path = os.path.join(BUILD, 'scratch', name + '.v')
    with open(path, 'w') as f:
        f.write('From Coq Require Import ZArith List Bool.\nImport ListNotations.\n%s\nOpen Scope Z_scope.\n'
                'Set Printing Width 1000000.\nSet Printing Depth 1000000.\n'
                'Eval vm_compute in (%s).\n' % (imports, expr))
    rc, out = sh(['coqc', '-Q', COQ, 'GV', '-w', '-notation-overridden,-deprecated', path], cwd=COQ,
                 timeout=timeout)
    for ext in ('.v', '.vo', '.vok', '.vos', '.glob'):
        try:
            os.remove(os.path.join(BUILD, 'scratch', name + ext))
        except OSError:
            pass
    if rc:
        raise RuntimeError('coq_eval failed: ' + out[-800:])
    m = re.search(r'=\s*(.*?)\n\s*:\s', out, re.S)
    if not m:
        raise RuntimeError('coq_eval: no value in ' + out[-400:])
    t = m.group(1).replace(';', ',').replace('%Z', '').replace('true', 'True').replace('false', 'False')
    t = re.sub(r'Some\s+', '', t).replace('None', 'None')
    return _ast.literal_eval(' '.join(t.split()))


# ------------------------------------------------------------------------------------------------
# known findings

def load_known():
    p = os.path.join(VERIF, 'KNOWN_FINDINGS.json')
    out = []
    if os.path.exists(p):
        with open(p) as f:
            out += json.load(f)['findings']
    d = os.path.join(VERIF, 'known_findings.d')      # per-property fragments (same entry format)
    if os.path.isdir(d):
        for fn in sorted(os.listdir(d)):
            if fn.endswith('.json'):
                with open(os.path.join(d, fn)) as f:
                    out += json.load(f)
    return out


def matches(sig, pattern):
    for k, v in pattern.items():
        if k not in sig:
            return False
        if isinstance(v, list):
            if sig[k] not in v:
                return False
        elif sig[k] != v:
            return False
    return True


def split_known(prop, failures):
    known = [k for k in load_known() if k['property'] == prop and k.get('state') == 'known']
    hit, fresh = {}, []
    for f in failures:
        for k in known:
            if matches(f.get('signature', {}), k['match']):
                hit.setdefault(k['id'], [k, 0])[1] += 1
                break
        else:
            fresh.append(f)
    return hit, fresh


# ------------------------------------------------------------------------------------------------
# evidence, replay files, final decision

def jsonable(x):
    if isinstance(x, bytes):
        return {'hex': x.hex()}
    if isinstance(x, (list, tuple)):
        return [jsonable(i) for i in x]
    if isinstance(x, dict):
        return {str(k): jsonable(v) for k, v in x.items()}
    if isinstance(x, (set, frozenset)):
        return sorted(jsonable(i) for i in x)
    if isinstance(x, float):
        return x if x == x and abs(x) != float('inf') else repr(x)
    if isinstance(x, (str, int, bool)) or x is None:
        return x
    return repr(x)


def write_replay(prop, payload):
    d = os.path.join(VERIF, 'replays')
    os.makedirs(d, exist_ok=True)
    blob = json.dumps(jsonable(payload), sort_keys=True, indent=1)
    h = hashlib.sha1(blob.encode()).hexdigest()[:10]
    path = os.path.join(d, '%s-%s.json' % (prop, h))
    with open(path, 'w') as f:
        f.write(blob)
    return os.path.relpath(path, VERIF)


def write_evidence(prop, tier, seed, proof, res, violations, wall, driver, known_hits):
    cov = {
        'obligations': proof['obligations'],
        'discharged': proof['discharged'],
        'checker_cmd': proof.get('checker_cmd') or 'make -C coq',
        'trusted_base': KERNEL_TB + getattr(driver, 'TRUSTED', []) +
        ['axioms reported by Print Assumptions: ' + (', '.join(proof['axioms']) or
                                                     'none (closed under the global context)')],
        'theorems': proof['theorems'],
        'evaluations': res.evaluations,
        'distinct_nontrivial': len(res.signatures),
        'rule': res.rule,
        'samples': jsonable(res.samples) or ['(no case explored)'],
        'traces_validated_against_impl': res.traces,
        'disagreements_checked': len(res.disagreements),
        'distribution': jsonable(res.distribution),
        'exhaustive': bool(res.exhaustive),
        'known_findings_seen': {k: v[1] for k, v in known_hits.items()},
        'facts_regenerated': proof.get('facts_regenerated', False),
        'label': getattr(driver, 'LABEL', ''),
        'notes': res.notes,
    }
    if 'coqchk' in proof:
        cov['coqchk'] = proof['coqchk']
    if not proof['discharged']:
        # the proof leg failed outright: report it under other keys so that the file still validates
        # (through the exploration-style keys) and says plainly that nothing was discharged
        cov['obligations_total'] = cov.pop('obligations')
        cov['obligations_discharged'] = cov.pop('discharged')
        cov['proof_leg_failure'] = jsonable(proof.get('failure'))
    cov.update(jsonable(res.extra))
    ev = {
        'property_id': prop, 'tier': tier, 'seed': seed, 'level': 'proof', 'coverage': cov,
        'assumptions': getattr(driver, 'ASSUMPTIONS', []),
        'wall_s': round(wall, 2), 'violations': violations,
    }
    os.makedirs(os.path.join(VERIF, 'evidence'), exist_ok=True)
    with open(os.path.join(VERIF, 'evidence', prop + '.json'), 'w') as f:
        json.dump(ev, f, indent=1, sort_keys=True)
        f.write('\n')
