"""C06 -- any order of stream API calls: exhaustive / PRNG histories over the client and server
alphabets on the real Stream objects, compared call by call (result class, flags, frames put on the
wire) with the nondeterministic model interpreted from the generated programs; direct oracle = a
wire monitor on the frames actually emitted."""
import asyncio
import itertools

from grpclib.const import Status
from grpclib.exceptions import ProtocolError
from grpclib.client import Stream as ClientStream  # noqa: F401

from harness import vloop, wire, peer as P
from harness.core import Result
from harness.svc import Service, CARDS

PROPERTY = 'C06'
THEOREM_FILES = ['Props/C06.v']
ALLOWED_AXIOMS = []
LABEL = ('full for the flag automaton of the generated programs; hyper-h2\'s per-stream send-side state '
         'machine is modelled (validated by these runs), blocking operations end a sequential history')
TRUSTED = ['tools/skeleton_ir.py (the slicer and its whitelist of untracked statement shapes)',
           'modelled, not verified: h2 stream send-side states (idle/open/half-closed/closed) and which '
           'sends h2 refuses; the four helper methods and recv primitives are adversarial choices']
ASSUMPTIONS = ['the application calls the operations of one stream sequentially (a call that blocks forever '
               'ends the history); listeners do not raise']

CLIENT_ALPHA = ['sr.0', 'sr.1', 'sm.0', 'sm.1', 'en', 'ri', 'rm', 'rt', 'ca', 'P', 'sm!.0']
SERVER_ALPHA = ['rm', 'si', 'sm', 'st.1', 'st.0', 'ca', 'P', 'si!', 'st!.1', 'st!.0', 'sm!']
HCODE = {':method': 'm', ':scheme': 's', ':path': 'p', ':authority': 'a', 'grpc-timeout': 't', 'te': 'e',
         'content-type': 'c', 'user-agent': 'u', ':status': 'S', 'grpc-status': 'g', 'grpc-message': 'M',
         'grpc-status-details-bin': 'd'}
CFLAGS = ['_send_request_done', '_send_message_done', '_end_done', '_recv_initial_metadata_done',
          '_recv_trailing_metadata_done', '_cancel_done', '_trailers_only']
SFLAGS = ['_send_initial_metadata_done', '_send_trailing_metadata_done']


def frame_code(fr, server):
    if fr.type == 'HEADERS':
        names = ''.join(sorted({HCODE[k] for k, _ in fr.headers if k in HCODE}))
        ok = 'x'
        if server and fr.end_stream:
            ok = '1' if dict(fr.headers).get('grpc-status') == '0' else '0'
        return 'H.%d.%s.%s' % (fr.end_stream, ok, names or '-')
    if fr.type == 'DATA':
        if fr.end_stream and not fr.payload:
            return 'E'
        return 'D.%d' % fr.end_stream
    if fr.type == 'RST_STREAM':
        return 'R'
    return '?'


def res_code(exc):
    if exc is None:
        return 'o'
    if isinstance(exc, ProtocolError):
        return 'r'
    return 'e'


def flags_str(stream, client):
    """the 9 flag bits in the order of Model/StreamSem.flags (shared names live at the same index)"""
    names = ['_send_request_done', '_send_message_done', '_end_done', '_recv_initial_metadata_done',
             '_recv_trailing_metadata_done', '_cancel_done', '_trailers_only',
             '_send_initial_metadata_done', '_send_trailing_metadata_done']
    return ''.join('1' if getattr(stream, n, False) else '0' for n in names)


# ---- monitor (direct oracle, independent of the model) -------------------------------------------

def monitor(frames, server, streaming, want_state=False):
    """frames: codes.  Returns None if the emitted frames are a prefix of a well-formed Request /
    Response, else a description.  With want_state: (description or None, state) where state is 'init', 'open',
    'done' (END_STREAM sent) or 'cut' (RST_STREAM sent)."""
    r = _monitor(frames, server, streaming)
    return r if want_state else r[0]


def _monitor(frames, server, streaming):
    st, msgs, ok = 'init', 0, None
    for f in frames:
        if st == 'cut':
            return ('frame %s after RST_STREAM' % f, st)
        if f == 'R':
            if st == 'init' and not server:
                return ('RST_STREAM before HEADERS', st)
            st = 'cut'
            continue
        if st == 'done':
            return ('frame %s after the end of the %s' % (f, 'response' if server else 'request'), st)
        if f.startswith('H.'):
            _, es, okb, names = f.split('.')
            if st == 'init':
                need = 'Sc' if server else 'mspaec'
                if any(c not in names for c in need):
                    return ('first HEADERS lacks protocol headers: ' + names, st)
                if server and es == '1' and 'g' not in names:
                    return ('trailers-only without grpc-status', st)
                if server and es == '0' and 'g' in names:
                    return ('grpc-status in initial headers', st)
                st = 'done' if es == '1' else 'open'
                ok = okb
            elif st == 'open':
                if not server:
                    return ('second HEADERS in a request', st)
                if es != '1' or 'g' not in names or 'S' in names:
                    return ('malformed trailers: ' + f, st)
                st, ok = 'done', okb
        elif f.startswith('D.'):
            if st != 'open':
                return ('DATA outside HEADERS..END_STREAM', st)
            if server and f == 'D.1':
                return ('server DATA with END_STREAM', st)
            msgs += 1
            if f == 'D.1':
                st = 'done'
        elif f == 'E':
            if st != 'open' or server:
                return ('END_STREAM frame out of place', st)
            st = 'done'
        else:
            return ('unexpected frame ' + f, st)
        if not streaming:
            if msgs > 1:
                return ('more than one message on a unary %s' % ('reply' if server else 'request'), st)
            if st == 'done' and not server and msgs != 1:
                return ('unary request ended with %d messages' % msgs, st)
            if st == 'done' and server and ok == '1' and msgs != 1:
                return ('unary reply with OK and %d messages' % msgs, st)
    return (None, st)


# ---- running one history on the real objects ------------------------------------------------------

def run_client(card, peer_mode, hist):
    """returns (steps, frames) where steps = [(call, res, flags, frames)], or ends early when blocked"""
    from grpclib.client import Channel  # noqa
    steps = []
    with vloop.session() as loop:
        ce = wire.ClientEnd(loop, tap=True)
        box = {'raise': False}
        from grpclib.events import listen, SendMessage

        async def on_send_message(event):
            if box['raise']:
                raise RuntimeError('listener failure')
        listen(ce.channel, SendMessage, on_send_message)
        md = {'Bad Key': 'x'} if peer_mode == 'badmd' else None
        stream = ce.channel.request('/v.S/M', CARDS[card], bytes, bytes, metadata=md)
        loop.run_until_complete_quiet = None
        state = {'answered': False}

        def peer_answer(full=True):
            if state['answered'] or not ce.conns:
                return False
            from h2.events import RequestReceived
            sids = [e.stream_id for e in ce.peer.events if isinstance(e, RequestReceived)]
            if not sids:
                return False
            sid = sids[0]
            try:
                if peer_mode == 'early':
                    ce.peer.headers(sid, P.RESP_HEADERS + [('grpc-status', '5')], end_stream=True)
                elif peer_mode == 'badct':
                    ce.peer.headers(sid, [(':status', '200'), ('content-type', 'text/html')])
                    ce.peer.headers(sid, [('grpc-status', '0')], end_stream=True)
                else:
                    ce.peer.headers(sid, P.RESP_HEADERS)
                    ce.peer.data(sid, P.grpc_frame(b'r'))
                    ce.peer.headers(sid, [('grpc-status', '0' if peer_mode != 'err' else '3')],
                                    end_stream=True)
            except Exception:
                return False
            state['answered'] = True
            return True

        t = loop.create_task(stream.__aenter__())
        loop.run_quiet(10)
        for c in hist:
            tap = ce.taps[-1] if ce.taps else None
            start = len(tap.frames) if tap else 0
            if c == 'P':
                if not peer_answer():
                    continue                       # not applicable yet: skipped on both sides
                loop.run_quiet(10)
                steps.append(('P', 'o', flags_str(stream, True), []))
                continue
            op, _, arg = c.partition('.')
            end = arg == '1'
            box['raise'] = op.endswith('!')        # a SendMessage listener raises during this call
            op = op.rstrip('!')
            coro = {'sr': lambda: stream.send_request(end=end),
                    'sm': lambda: stream.send_message(b'm', end=end),
                    'en': stream.end, 'ri': stream.recv_initial_metadata, 'rm': stream.recv_message,
                    'rt': stream.recv_trailing_metadata, 'ca': stream.cancel}[op]()
            before = flags_str(stream, True)
            task = loop.create_task(coro)
            loop.run_quiet(10)
            if peer_mode != 'silent' and not task.done() and op in ('ri', 'rm', 'rt'):
                # "answers ...": the peer reacts to the request once it is asked for something
                # (it half-closes its side while the receive is in progress: recorded as P first)
                if peer_answer():
                    steps.append(('P', 'o', before, []))
                    loop.run_quiet(10)
            o = vloop.outcome(task)
            tap = ce.taps[-1] if ce.taps else None
            frames = [frame_code(f, False) for f in (tap.stream_frames(1, 0 if start == 0 else start)
                                                     if tap else [])]
            if o[0] == 'pending':
                task.cancel()
                loop.run_quiet(1)
                steps.append((c, 'blocked', flags_str(stream, True), frames))
                break
            exc = o[1] if o[0] == 'exc' else None
            steps.append(('%s.%d.1' % (op, end), res_code(exc), flags_str(stream, True), frames))
    return steps


def run_server(card, hist, client_ended):
    steps = []
    with vloop.session() as loop:
        box = {}

        async def handler(stream):
            tap = box['se'].taps[-1]
            for c in hist:
                start = len(tap.frames)
                if c == 'P':
                    if box['ended']:
                        continue
                    box['se'].peer.end(box['sid'])
                    box['ended'] = True
                    steps.append(('P', 'o', flags_str(stream, False), []))
                    continue
                op, _, arg = c.partition('.')
                ok = arg != '0'
                bad = op.endswith('!')          # invalid user metadata / a raising listener
                op = op.rstrip('!')
                badmd = {'Bad Key': 'x'} if bad else None
                box['raise'] = bad
                try:
                    box['cur'] = (c, start)
                    if op == 'rm':
                        await stream.recv_message()
                    elif op == 'si':
                        await stream.send_initial_metadata(metadata=badmd)
                    elif op == 'sm':
                        await stream.send_message(b'r')
                    elif op == 'st':
                        await stream.send_trailing_metadata(
                            status=Status.OK if ok else Status.NOT_FOUND,
                            status_message=None if ok else 'nf', metadata=badmd)
                    elif op == 'ca':
                        await stream.cancel()
                    exc = None
                except asyncio.CancelledError:
                    raise
                except Exception as e:
                    exc = e
                box['cur'] = None
                frames = [frame_code(f, True) for f in tap.stream_frames(box['sid'], start)]
                name = {'rm': 'rm', 'si': 'si', 'sm': 'sm', 'st': 'st', 'ca': 'ca'}[op]
                steps.append(('%s.0.%d' % (name, ok), res_code(exc), flags_str(stream, False), frames))
            box['done'] = True
            box['stream'] = stream
            # keep the handler from running __aexit__ effects into the observation window
            box['final'] = len(tap.frames)

        se = wire.ServerEnd(loop, [Service('v.S', {'M': (handler, card)})], tap=True)
        box['se'] = se
        box['raise'] = False
        from grpclib.events import listen, SendMessage

        async def on_send_message(event):
            if box['raise']:
                raise RuntimeError('listener failure')
        listen(se.server, SendMessage, on_send_message)
        loop.run_quiet(1)
        sid = se.peer.next_stream_id()
        box['sid'] = sid
        box['ended'] = client_ended
        se.peer.h2.send_headers(sid, P.REQ_HEADERS)
        se.peer.h2.send_data(sid, P.grpc_frame(b'q'), end_stream=client_ended)
        se.peer.flush()
        loop.run_quiet(10)
        if not box.get('done') and box.get('cur'):
            c, start = box['cur']
            steps.append((c, 'blocked', '', []))
        elif box.get('done'):
            # what the context exit put on the wire after the handler returned (not part of the model comparison)
            tap = se.taps[-1]
            steps.append(('EXIT', 'x', '', [frame_code(f, True) for f in tap.stream_frames(sid, box['final'])]))
    return steps


# ---- model line --------------------------------------------------------------------------------------

def model_line(side, card, remote, steps):
    cs, ss = card[0] == 'S', card[1] == 'S'
    toks = [side, '%d' % cs, '%d' % ss, '%d' % remote]
    for call, res, fl, frames in steps:
        if res == 'blocked' or call == 'EXIT':
            break
        toks.append('%s~%s~%s~%s' % (call, res, fl, ';'.join(frames) or '-'))
    return ' '.join(toks)


def check_history(ctx, res, side, card, mode, hist, batch):
    if side == 'c':
        steps = run_client(card, mode, hist)
        remote = 1
    else:
        steps = run_server(card, hist, mode == 'ended')
        remote = 0 if mode == 'ended' else 1
    res.evaluations += 1
    frames = [f for s in steps for f in s[3]]
    streaming = (card[0] == 'S') if side == 'c' else (card[1] == 'S')
    case = {'side': side, 'card': card, 'mode': mode, 'hist': list(hist)}
    res.signatures.add((side, card, mode, tuple((s[0], s[1]) for s in steps)))
    res.count('%s:%s:%s' % (side, card, mode))
    for s in steps:
        res.count('result:' + s[1])
    res.sample(dict(case, steps=steps), limit=8)
    bad = monitor(frames, side == 's', streaming)
    if bad:
        res.oracle_failures.append({'case': case, 'what': bad, 'observed': steps,
                                    'signature': {'side': side, 'kind': 'malformed-exchange'}})
    # an accepted step must have performed its step of the exchange (independent of the model)
    sofar = []
    for call, r, fl, fr in steps:
        sofar.extend(fr)
        if side == 'c' and r == 'o' and call != 'P':
            op, e1 = call.split('.')[0], call.split('.')[1] == '1'
            _, stt = monitor(sofar, False, streaming, want_state=True)
            if (op == 'en' or (op in ('sm', 'sr') and e1) or (op == 'sm' and not streaming)) and stt not in ('done', 'cut'):
                res.oracle_failures.append({'case': case, 'observed': steps,
                                            'what': 'accepted %s left the request open (no END_STREAM on the wire)' % call,
                                            'signature': {'side': side, 'kind': 'accepted-step-not-performed'}})
                break
            if op == 'rt' and stt not in ('done', 'cut'):
                res.oracle_failures.append({'case': case, 'observed': steps,
                                            'what': 'recv_trailing_metadata accepted while the request is still open '
                                                    '(not the next step of the exchange: the request was never ended)',
                                            'signature': {'side': side, 'kind': 'accepted-step-out-of-order'}})
                break
            if op == 'sr' and stt == 'init' or op == 'sm' and not any(x.startswith('D.') for x in sofar):
                res.oracle_failures.append({'case': case, 'observed': steps,
                                            'what': 'accepted %s put nothing on the wire' % call,
                                            'signature': {'side': side, 'kind': 'accepted-step-not-performed'}})
                break
    if side == 's' and steps and steps[-1][0] == 'EXIT':
        _, stt = monitor(frames, True, streaming, want_state=True)
        if stt not in ('done', 'cut'):
            res.oracle_failures.append({'case': case, 'observed': steps,
                                        'what': 'the handler returned but the response was neither ended by trailers nor '
                                                'reset (state %s)' % stt,
                                        'signature': {'side': side, 'kind': 'response-not-terminated'}})
    for call, r, fl, fr in steps:
        if r == 'r' and fr:
            res.oracle_failures.append({'case': case, 'what': 'refused call %s emitted %s' % (call, fr),
                                        'observed': steps,
                                        'signature': {'side': side, 'kind': 'refusal-not-silent'}})
    batch.append((case, steps, model_line(side, card, remote, steps)))


def flush_batch(ctx, res, batch):
    if not ctx.model_ok or not batch:
        return
    out = ctx.model([b[2] for b in batch])
    for (case, steps, line), ans in zip(batch, out):
        res.traces += 1
        if not ans.startswith('ok'):
            res.disagreements.append({'case': case, 'impl': steps, 'model': ans})
        elif ans.split()[2] != '1':
            res.disagreements.append({'case': case, 'impl': steps, 'model': 'model state not good: ' + ans})


def run(ctx):
    res = Result()
    rng = ctx.rng
    res.rule = ('histories over the client alphabet {send_request(end?), send_message(end?), end, recv_initial_'
                'metadata, recv_message, recv_trailing_metadata, cancel, peer-answers} and the server alphabet '
                '{recv_message, send_initial_metadata, send_message, send_trailing_metadata(OK|error), cancel, '
                'peer-ends} x 4 cardinalities x peer behaviours (client: silent / answers fully / answers early '
                'with a trailers-only error / error status / bad content-type; server: request ended or not): '
                'exhaustive to a length bound, then PRNG longer ones; distinct = distinct (side, cardinality, '
                'peer, per-call results) sequences')
    batch = []
    for c in ctx.corpus():
        check_history(ctx, res, c['side'], c['card'], c['mode'], c['hist'], batch)
    depth = 3 if ctx.tier == 'thorough' else 2
    cmodes = ['silent', 'full', 'early', 'err', 'badct', 'badmd']
    smodes = ['open', 'ended']
    n_exh = 0
    calpha = CLIENT_ALPHA if ctx.tier == 'thorough' else [a for a in CLIENT_ALPHA if '!' not in a]
    salpha = SERVER_ALPHA if ctx.tier == 'thorough' else [a for a in SERVER_ALPHA if '!' not in a]
    for card in CARDS:
        for hist in itertools.product(calpha, repeat=depth):
            for mode in (cmodes if ctx.tier == 'thorough' else ['full', 'badmd']):
                check_history(ctx, res, 'c', card, mode, hist, batch)
                n_exh += 1
        for hist in itertools.product(salpha, repeat=depth + 1):
            for mode in smodes:
                check_history(ctx, res, 's', card, mode, hist, batch)
                n_exh += 1
    res.extra['exhaustive_histories'] = n_exh
    res.extra['exhaustive_depth'] = {'client': depth, 'server': depth + 1}
    for _ in range(ctx.n(1500, 20000)):
        side = rng.choice('cs')
        card = rng.choice(list(CARDS))
        if side == 'c':
            mode = rng.choice(cmodes)
            hist = [rng.choice(CLIENT_ALPHA) for _ in range(rng.randint(3, 8))]
        else:
            mode = rng.choice(smodes)
            hist = [rng.choice(SERVER_ALPHA) for _ in range(rng.randint(3, 8))]
        check_history(ctx, res, side, card, mode, hist, batch)
    flush_batch(ctx, res, batch)
    return res


def replay(ctx, case):
    res = Result()
    batch = []
    check_history(ctx, res, case['side'], case['card'], case['mode'], case['hist'], batch)
    flush_batch(ctx, res, batch)
    return res
