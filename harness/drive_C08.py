"""C08 -- receive credit is returned exactly once, only as data is consumed or released.

Implementation side: the real grpclib Server protocol (wire.ServerEnd) or Channel (wire.ClientEnd) on the
virtual-time loop against a scripted real-h2 peer; harness.ledger.Ledger records, at the h2 API boundary,
flow_controlled_length of every DataReceived vs every acknowledge_received_data call, plus the order in
which grpclib processes / reads / releases.  Model side: Model/RecvLedger.v driven with exactly that order.
Direct oracle: the property on the boundary ledger and on what the peer sees, without the model."""
import asyncio
import gc
import logging
import os

from h2.events import RemoteSettingsChanged, RequestReceived, WindowUpdated
from h2.settings import SettingCodes

from harness import vloop, wire, peer as P
from harness.core import Result
from harness.ledger import Ledger, canonical_log, model_tokens, parse_model_answer, _attrs
from harness.svc import Service

PROPERTY = 'C08'
THEOREM_FILES = ['Props/C08.v']
ALLOWED_AXIOMS = []
LABEL = ('full on the model (all histories of the event alphabet, all window values); hyper-h2 itself '
         '(window managers, WINDOW_UPDATE coalescing, DATA on closed streams) is modelled/observed, not verified')
TRUSTED = ['harness/ledger.py: instance-level wrappers of H2Connection.receive_data / acknowledge_received_data (h2 public '
           'API), of the events processor\'s register() (+ the release function it returns) and of the protocol stream\'s '
           'recv_data() coroutine, all located by role and record-and-delegate only; a component that cannot be located '
           'is masked on both sides of the comparison and counted as unobservable in the evidence',
           'modelled, not verified: hyper-h2 4.3 (flow_controlled_length, increment_flow_control_window / '
           'update_settings range checks, window-manager coalescing of WINDOW_UPDATE, automatic credit of DATA on '
           'closed streams), asyncio.Queue.get (an item is not lost when the getter is cancelled)']
ASSUMPTIONS = ['one reader per stream (grpclib streams are read by the task that owns the call)',
               'h2 never hands out the same stream id twice (hypothesis `legal` of the conservation theorems)',
               'sizes reported by h2 are non-negative',
               'no-leak statements are for live connections: a release on a closing connection does not acknowledge '
               '(modelled and stated as `dropped`)',
               'window configuration values are Python ints (the Configuration validators refuse everything else first)']

WMIN, WMAX = 2 ** 16 - 1, 2 ** 31 - 1
BOUNDARY_WINDOWS = [WMIN, WMIN, WMIN + 1, WMAX, WMAX - 1, 4 * 2 ** 20, 2 * WMIN, 2 ** 30, 2 ** 24 + 1]
INVALID_WINDOWS = [WMIN - 1, 0, -1, 1, WMAX + 1, WMAX + 65536, 2 ** 32, -WMAX, 16384]


class Boom(Exception):
    pass


# ---- generators -------------------------------------------------------------------------------------

def gen_window(rng):
    return rng.choice(BOUNDARY_WINDOWS) if rng.random() < 0.6 else rng.randint(WMIN, WMAX)


def gen_msgs(rng):
    k = rng.choice([0, 1, 1, 2, 2, 3])
    return [rng.choice([0, 1, 4, 5, 6, 100, 1000, 3000]) for _ in range(k)]


def stream_bytes(msgs):
    return b''.join(P.grpc_frame(b'\0' * n) for n in msgs)


def gen_prog(rng, client):
    r = rng.random()
    if r < 0.2:
        prog = ['all']
    elif r < 0.45:
        prog = ['msg'] * rng.choice([1, 1, 2, 3])
    elif r < 0.6:
        prog = []
    elif r < 0.75:
        prog = ['wait'] + ['msg'] * rng.choice([0, 1, 2])
    elif r < 0.9:
        prog = ['msg'] * rng.choice([1, 2]) + ['wait'] + rng.choice([[], ['msg'], ['all']])
    else:
        prog = ['raw:%d' % rng.choice([0, 1, 3, 5, 7, 200])] + rng.choice([[], ['wait'], ['msg'], ['wait', 'all']])
    if rng.random() < 0.12:        # a handler / client task that swallows its cancellation once and reads on
        prog = [('msg!' if op == 'msg' else op) for op in prog] + rng.choice([[], ['msg'], ['wait', 'msg']])
    if client:
        tail = rng.random()
        if tail < 0.25:
            prog = prog + ['raise']
        elif tail < 0.4:
            prog = prog + ['cancel']
    return prog


def gen_bg(rng, client):
    """a reader that outlives the call: a task spawned by the handler / inside the `async with` block (gated by
    the harness), or -- client -- reads issued after the block has been left"""
    if rng.random() >= 0.3:
        return None
    ops = [rng.choice(['raw:5', 'raw:5', 'raw:1', 'raw:100', 'raw:1000', 'raw:3000', 'msg'])
           for _ in range(rng.choice([1, 2, 3, 4]))]
    return {'ops': ops, 'after': bool(client and rng.random() < 0.5)}


def gen_data_frame(rng, i, left):
    """(kind, stream, n, pad, end) with n <= left"""
    r = rng.random()
    if r < 0.12:
        n = 0
    elif r < 0.45:
        n = left
    elif r < 0.65:
        n = min(left, rng.choice([1, 2, 4, 5, 6, 9]))
    else:
        n = rng.randint(0, left)
    n = min(n, 16000)
    p = rng.random()
    pad = None if p < 0.7 else rng.choice([0, 0, 1, 7, 100, 255])
    return ['D', i, n, pad, False]


def gen_case(rng, side=None):
    side = side or ('server' if rng.random() < 0.65 else 'client')
    k = rng.choice([1, 1, 2, 2, 3, 4])
    streams = [{'msgs': gen_msgs(rng), 'prog': gen_prog(rng, side == 'client')} for _ in range(k)]
    for st in streams:
        bg = gen_bg(rng, side == 'client')
        if bg is not None:
            st['bg'] = bg
    paused = False
    # sometimes the peer sends less than the framing promises (truncated message)
    left = []
    for s in streams:
        n = len(stream_bytes(s['msgs']))
        if n and rng.random() < 0.15:
            n = rng.randint(0, n - 1)
        left.append(n)
    opened, closed, hdr = [], set(), set()
    todo = list(range(k))
    actions = []
    steps = rng.randint(2, 6) * k + 2
    for _ in range(steps):
        r = rng.random()
        if opened and rng.random() < 0.07:          # pause / resume the transport at any point
            actions.append({'resume': 1} if paused else {'pause': 1})
            paused = not paused
        if opened and rng.random() < 0.04:
            bgs = [i for i in opened if 'bg' in streams[i]]
            if bgs:
                actions.append({'go2': rng.choice(bgs)})
        if todo and (not opened or r < 0.25):
            i = todo.pop(0)
            opened.append(i)
            if side == 'server':
                frames = [['H', i]]
                shape = rng.random()
                if shape < 0.45:
                    while left[i] and rng.random() < 0.7:
                        f = gen_data_frame(rng, i, left[i])
                        left[i] -= f[2]
                        frames.append(f)
                    if shape < 0.2:               # reset in the same read as the request HEADERS (D9)
                        frames.append(['R', i])
                        closed.add(i)
                    elif shape < 0.27:
                        frames.append(['E', i])
                        closed.add(i)
                actions.append({'frames': frames})
            else:
                actions.append({'start': i})
            continue
        live = [i for i in opened if i not in closed]
        if r < 0.72 and live:
            frames = []
            for _ in range(rng.choice([1, 1, 1, 2, 3])):
                i = rng.choice(live)
                if i in closed:
                    continue
                if side == 'client' and i not in hdr:
                    frames.append(['H', i])
                    hdr.add(i)
                    if rng.random() < 0.5:
                        continue
                f = gen_data_frame(rng, i, left[i])
                left[i] -= f[2]
                if side == 'server' and rng.random() < 0.1:
                    f[4] = True
                    closed.add(i)
                frames.append(f)
            if frames:
                actions.append({'frames': frames})
        elif r < 0.8 and live:
            i = rng.choice(live)
            closed.add(i)
            if side == 'client' and i not in hdr:
                hdr.add(i)
                actions.append({'frames': [['H', i], ['T', i]]})
            else:
                actions.append({'frames': [['E' if side == 'server' else 'T', i]]})
        elif r < 0.87 and live:
            i = rng.choice(live)
            closed.add(i)
            actions.append({'frames': [['R', i]]})
        elif r < 0.9 and side == 'client' and opened:
            actions.append({'cancel_task': rng.choice(opened)})
        elif opened:
            actions.append({'go': rng.choice(opened)})
    # finishing phase: every call gets a chance to finish
    for i in todo:
        opened.append(i)
        actions.append({'frames': [['H', i]]} if side == 'server' else {'start': i})
    lose = rng.random() < 0.08
    if lose and rng.random() < 0.5:
        actions.append({'lose': 1})
        lose = False
    if paused and rng.random() < 0.5:
        actions.append({'resume': 1})
        paused = False
    for i in opened:
        actions.append({'go': i})
    for i in opened:
        if i not in closed:
            closed.add(i)
            if rng.random() < 0.3:
                actions.append({'frames': [['R', i]]})
            elif side == 'client' and i not in hdr:
                actions.append({'frames': [['H', i], ['T', i]]})
            else:
                actions.append({'frames': [['E' if side == 'server' else 'T', i]]})
    if side == 'server' and rng.random() < 0.3:        # DATA after everything finished
        actions.append({'frames': [['D', rng.choice(opened), rng.choice([0, 3, 50]), rng.choice([None, 2]), False]]})
    if paused:                                         # the ledger is judged after the final resume
        actions.append({'resume': 1})
    for i in opened:                                   # the readers that outlive their calls read now
        if 'bg' in streams[i]:
            actions.append({'go2': i})
    if lose:
        actions.append({'lose': 1})
    return {'op': 'hist', 'side': side, 'cw': gen_window(rng), 'sw': gen_window(rng), 'streams': streams,
            'actions': actions}


def gen_cfg_case(rng):
    def w():
        r = rng.random()
        if r < 0.35:
            return rng.choice(INVALID_WINDOWS)
        if r < 0.7:
            return rng.choice(BOUNDARY_WINDOWS)
        return rng.randint(-2 ** 16, 2 ** 32) if r < 0.8 else rng.randint(WMIN, WMAX)
    return {'op': 'cfg', 'cw': w(), 'sw': w(), 'side': rng.choice(['server', 'client'])}


# ---- implementation side ----------------------------------------------------------------------------

def handshake_view(peer, evs):
    """what the peer saw at connection start: WINDOW_UPDATE increments on stream 0, INITIAL_WINDOW_SIZE values of
    the SETTINGS frames after the first one, and the windows its own h2 derived from them"""
    wu = [e.delta for e in evs if isinstance(e, WindowUpdated) and e.stream_id == 0]
    iws = []
    first = True
    for e in evs:
        if isinstance(e, RemoteSettingsChanged):
            if not first and SettingCodes.INITIAL_WINDOW_SIZE in e.changed_settings:
                iws.append(e.changed_settings[SettingCodes.INITIAL_WINDOW_SIZE].new_value)
            first = False
    return {'wu': wu, 'iws': iws, 'conn': peer.h2.outbound_flow_control_window,
            'stream': peer.h2.remote_settings.initial_window_size}


class LedgerClientEnd(wire.ClientEnd):
    """ClientEnd that installs the ledger before the first stream is registered on a new connection"""

    def __init__(self, *a, **kw):
        super().__init__(*a, **kw)
        self.ledgers = []
        self.handshakes = []

    async def attempt(self, factory):
        proto = await super().attempt(factory)
        self.handshakes.append(handshake_view(self.peer, self.peer.take_events()))
        self.ledgers.append(Ledger(proto, self.transport))
        return proto


def below_of_type(obj, cls):
    """the instance attribute of obj that is a `cls` (located by type, not by name); None if there is none"""
    if cls is None or obj is None:
        return None
    for _, v in _attrs(obj):
        if isinstance(v, cls):
            return v
    return None


def proto_stream_of(stream):
    """the protocol-level stream (the object offering recv_data) behind a client / server call stream"""
    try:
        from grpclib.protocol import Stream as PStream
    except Exception:
        PStream = None
    v = below_of_type(stream, PStream)
    if v is None:
        for _, w in _attrs(stream):
            if callable(getattr(w, 'recv_data', None)) and callable(getattr(w, 'send_data', None)):
                return w
    return v


def wrapper_of(stream):
    try:
        from grpclib.utils import Wrapper
    except Exception:
        return None
    return below_of_type(stream, Wrapper)


class _LogOnly:
    def __init__(self, led):
        self.log = led.log
        self.unobservable = set(led.unobservable)
        self.ordered = led.ordered


class Run:
    """one history on the real code; keeps the per-action snapshots and the oracle verdicts"""

    def __init__(self, case):
        self.case = case
        self.side = case['side']
        self.k = len(case['streams'])
        self.sid = {}               # stream index -> h2 stream id
        self.done = {}              # stream index -> handler/client program left (its `finally` ran)
        self.started = {}           # stream index -> the program took its first step
        self.bg = []                # reader tasks that outlive their calls
        self.rst = set()            # stream indexes the peer reset
        self.cancelled = set()
        self.lost = False
        self.snaps = []
        self.fail = []              # (what, signature, observed)
        self.skipped = 0
        self.sent = {}              # index -> bytes of its byte stream already sent
        self.tasks = {}
        self.led = None
        self.peer = None
        self.transport = None
        self.harness_errors = []
        self.handshake = None
        self.wu_seen = {}
        self.window = None
        self.all_finished = False
        self.not_finished = False
        self.no_connection = False
        self.unhandled = 0
        self.checked = {'never-over-credited': 0, 'finished-fully-credited': 0, 'active-backpressure': 0,
                        'active-backpressure-with-unread-data': 0}

    # -- programs
    async def program(self, i, stream, raw):
        prog = self.case['streams'][i]['prog']
        bg = self.case['streams'][i].get('bg')
        self.started[i] = True
        try:
            for op in prog:
                if self.gone(stream):
                    # reads on a connection that is gone are outside C08 (live connections): Connection.ack still
                    # acknowledges, but flush() then touches the deleted _transport whenever h2 has bytes pending,
                    # so the read may die with AttributeError -- that depends on h2's outbound queue, not on the ledger
                    break
                if op == 'msg':
                    await stream.recv_message()
                elif op == 'msg!':
                    try:
                        await stream.recv_message()
                    except asyncio.CancelledError:
                        pass
                elif op == 'all':
                    while (await stream.recv_message()) is not None:
                        pass
                elif op == 'wait':
                    await self.gos[i].wait()
                elif op.startswith('raw:'):
                    raw = raw or self.raw_of(i, stream)
                    w = wrapper_of(stream) if self.side == 'client' else None
                    if raw is None:
                        self.skipped += 1           # the protocol stream cannot be located: the op is not run
                    elif w is not None:             # the client's own reads all run inside the call's wrapper
                        with w:
                            await self.raw_read(raw, int(op[4:]))
                    else:
                        await self.raw_read(raw, int(op[4:]))
                elif op == 'cancel':
                    await stream.cancel()
                elif op == 'raise':
                    raise Boom()
            if bg is not None and not bg['after']:
                self.spawn_bg(i, stream, raw, bg, gated=True)
        finally:
            self.done[i] = True

    def note_error(self, e):
        """exceptions that end a program are expected (reset, truncated message, ...); one raised by harness code
        itself is remembered and shown in the evidence"""
        import traceback
        tb = traceback.extract_tb(e.__traceback__)
        if tb and os.sep + 'harness' + os.sep in tb[-1].filename and not isinstance(e, Boom):
            self.harness_errors.append('%s: %s' % (type(e).__name__, str(e)[:120]))

    def gone(self, stream=None):
        """the connection is lost or closing (also when grpclib closed it itself, e.g. after a protocol error)"""
        t = self.transport
        return self.lost or (t is not None and (t.closing or t.lost))

    async def raw_read(self, raw, n):
        f = getattr(raw, 'recv_data', None)
        if f is None:
            self.skipped += 1        # the protocol stream offers no recv_data: the op is not run
            return None
        return await f(n)

    def raw_of(self, i, stream):
        """the protocol stream of call i: below the call's stream object (by type), else the one the ledger saw
        being registered for that stream id"""
        raw = proto_stream_of(stream)
        if raw is None and self.led is not None and i in self.sid:
            raw = self.led.streams.get(self.sid[i])
        return raw

    def spawn_bg(self, i, stream, raw, bg, gated):
        async def reader():
            try:
                if gated:
                    await self.gos2[i].wait()
                for op in bg['ops']:
                    if self.gone(stream):
                        break
                    if op == 'msg':
                        await stream.recv_message()
                    else:
                        r = raw or self.raw_of(i, stream)
                        if r is None:
                            break
                        await self.raw_read(r, int(op[4:]))
            except Exception as e:
                self.note_error(e)
        self.bg.append(asyncio.get_event_loop().create_task(reader()))

    def server_handler(self, i):
        async def h(stream):
            try:
                await self.program(i, stream, proto_stream_of(stream))
            except Exception as e:
                self.note_error(e)
                raise
        return h

    async def client_call(self, i, method):
        stream = None
        try:
            async with method.open(metadata={'x-call': str(i)}) as stream:     # the peer tells the calls apart
                await stream.send_request()
                raw = proto_stream_of(stream)
                if isinstance(getattr(raw, 'id', None), int):
                    self.sid[i] = raw.id
                await self.program(i, stream, raw)
        except (Boom, Exception) as e:
            self.note_error(e)
        finally:
            self.done[i] = True
            bg = self.case['streams'][i].get('bg')
            if bg is not None and bg['after'] and stream is not None and i in self.sid:
                self.spawn_bg(i, stream, self.raw_of(i, stream), bg, gated=False)   # reads after the `async with` block

    # -- peer actions
    def frames(self, frs):
        h2 = self.peer.h2
        for f in frs:
            kind, i = f[0], f[1]
            try:
                if kind == 'H':
                    if self.side == 'server':
                        sid = self.peer.next_stream_id()
                        hd = [(k, ('/v.S/P%d' % i) if k == ':path' else v) for k, v in P.REQ_HEADERS]
                        h2.send_headers(sid, hd)
                        self.sid[i] = sid
                    else:
                        h2.send_headers(self.sid[i], P.RESP_HEADERS)
                elif kind == 'D':
                    _, _, n, pad, end = f
                    data = self.bytes[i][self.sent.get(i, 0):self.sent.get(i, 0) + n]
                    data = data + b'\0' * (n - len(data))
                    h2.send_data(self.sid[i], data, end_stream=end, pad_length=pad)
                    self.sent[i] = self.sent.get(i, 0) + n
                elif kind == 'E':
                    h2.end_stream(self.sid[i])
                elif kind == 'T':
                    h2.send_headers(self.sid[i], [('grpc-status', '0')], end_stream=True)
                elif kind == 'R':
                    h2.reset_stream(self.sid[i])
                    self.rst.add(i)
            except Exception:          # the scripted peer's own h2 refuses (stream closed, unknown, ...): skip
                self.skipped += 1
        self.peer.flush()             # everything of this action arrives in ONE read

    def act(self, loop, a):
        if 'frames' in a:
            self.frames(a['frames'])
        elif 'go' in a:
            self.gos[a['go']].set()
        elif 'go2' in a:
            self.gos2[a['go2']].set()
        elif 'pause' in a or 'resume' in a:
            if self.transport is not None and not self.lost:
                want = 'pause' in a
                if self.transport.paused != want:
                    (self.transport.pause if want else self.transport.resume)()
                    if self.led is not None:
                        self.led.log.append(('pause',) if want else ('resume',))
        elif 'start' in a:
            i = a['start']
            self.tasks[i] = loop.create_task(self.client_call(i, self.method))
        elif 'cancel_task' in a:
            t = self.tasks.get(a['cancel_task'])
            if t is not None and not t.done():
                t.cancel()
                self.cancelled.add(a['cancel_task'])
        elif 'lose' in a:
            self.lost = True
            if self.led is not None:
                self.led.note_close()
            self.transport.lose()
            for t in self.bg:           # grpclib cancels the tasks it manages; the readers it does not know end here
                if not t.done():
                    t.cancel()

    # -- run
    def run(self):
        case = self.case
        from grpclib.config import Configuration
        cfg = Configuration(http2_connection_window_size=case['cw'], http2_stream_window_size=case['sw'])
        self.bytes = [stream_bytes(s['msgs']) for s in case['streams']]
        with vloop.session() as loop:
            self.gos = [asyncio.Event() for _ in range(self.k)]
            self.gos2 = [asyncio.Event() for _ in range(self.k)]
            if self.side == 'server':
                svc = Service('v.S', {'P%d' % i: (self.server_handler(i), 'SS') for i in range(self.k)})
                se = wire.ServerEnd(loop, [svc], config=cfg)
                self.peer, self.transport, self.end = se.peer, se.transport, se
                self.handshake = handshake_view(se.peer, se.peer.take_events())
                self.led = Ledger(se.proto, se.transport)
            else:
                from grpclib.client import StreamStreamMethod
                ce = LedgerClientEnd(loop, config=cfg)
                self.end = ce
                self.method = StreamStreamMethod(ce.channel, '/v.S/M', bytes, bytes)
            loop.run_quiet(1.0)
            for a in case['actions']:
                if self.led is None and self.side == 'client' and 'start' not in a:
                    self.snaps.append(None)
                    continue
                self.act(loop, a)
                loop.run_quiet(1.0)
                if self.side == 'client' and self.led is None and self.end.ledgers:
                    ce = self.end
                    self.led, self.peer, self.transport = ce.ledgers[0], ce.peer, ce.transport
                    self.handshake = ce.handshakes[0]
                    self.reqs = []
                if self.led is None:
                    self.snaps.append(None)
                    continue
                for ev in self.peer.take_events():
                    if isinstance(ev, WindowUpdated):
                        self.wu_seen[ev.stream_id] = self.wu_seen.get(ev.stream_id, 0) + ev.delta
                    elif isinstance(ev, RequestReceived) and self.side == 'client':
                        for k, v in ev.headers:
                            if k == 'x-call' and v.isdigit():
                                self.sid.setdefault(int(v), ev.stream_id)
                self.snapshot(loop)
            if self.led is not None:
                if self.transport.paused and not self.lost:      # the ledger is judged after the final resume
                    self.act(loop, {'resume': 1})
                    loop.run_quiet(1.0)
                    self.snapshot(loop)
                live = [t for t in self.bg if not t.done()]
                if live:                                         # readers still blocked on a drained buffer
                    for t in live:
                        t.cancel()
                    loop.run_quiet(1.0)
                    self.snapshot(loop)
            self.final(loop)
            self.unhandled = len(loop.unhandled)
            for _ in range(10):          # tidy up (after all observations): programs that swallow cancellations
                pend = loop.pending_tasks()
                if not pend:
                    break
                for t in pend:
                    t.cancel()
                loop.run_quiet(0.0)
        return self

    def slim(self):
        """keep only what the comparison with the model needs, so that the loop, the tasks and the protocol
        objects of this history can be freed (asyncio.all_tasks() walks every task still alive)"""
        log = self.led.log if self.led is not None else None
        self.led = _LogOnly(self.led) if log is not None else None
        self.end = self.peer = self.transport = self.method = self.gos = self.gos2 = None
        self.tasks = {}
        self.bg = []

    # -- observations
    def finished(self, i):
        if self.side == 'server':
            # reset before the handler task took its first step: the coroutine never runs, only the task's
            # done-callback can release (D9); otherwise the program's `finally` tells
            return bool(self.done.get(i)) or (i in self.rst and not self.started.get(i))
        t = self.tasks.get(i)
        return t is not None and t.done()

    def expected_credit(self, sid):
        """the property on one active stream: a frame is credited iff one of the reads issued so far needed it,
        i.e. iff it starts before the highest byte position any read has asked for"""
        led = self.led
        need = led.requested.get(sid, 0)
        off, exp = 0, 0
        for n, f in led.frames.get(sid, []):
            if f and off < need:
                exp += f
            off += n
        return exp

    def snapshot(self, loop):
        led = self.led
        alive = not self.lost and not led.closing()
        # while writing is paused a server handler that has finished is still waiting to send its trailers, so
        # its release is legitimately deferred (the credit of what it read is NOT deferred)
        settled = not (self.side == 'server' and self.transport.paused)
        snap = {'n': len(led.log), 'streams': {}, 'alive': alive}
        for sid in led.sids():
            snap['streams'][sid] = (led.received.get(sid, 0), led.credited.get(sid, 0), led.forfeited(sid),
                                    led.held(sid), 1 if led.is_registered(sid) else 0)
        snap['conn'] = led.totals()
        snap['finished_registered'] = sorted(sid for i, sid in self.sid.items()
                                             if settled and self.finished(i) and led.is_registered(sid))
        self.snaps.append(snap)
        # ---- direct oracle, at every quiescent point
        inv = {v: k for k, v in self.sid.items()}
        for sid in sorted(set(led.received) | set(led.credited)):
            r, c = led.received.get(sid, 0), led.credited.get(sid, 0)
            i = inv.get(sid)
            self.checked['never-over-credited'] += 1
            if alive and settled and i is not None and self.finished(i):
                self.checked['finished-fully-credited'] += 1
            if c > r:
                self.fail.append(('stream %d credited %d > received %d' % (sid, c, r),
                                  {'kind': 'over-credit', 'level': 'stream'}, [r, c]))
            elif alive and settled and i is not None and self.finished(i) and c != r:
                first = not any(e[0] == 'read' and e[1] == sid for e in led.log)
                self.fail.append(('call on stream %d has finished on a live connection but only %d of %d received '
                                  'bytes were credited' % (sid, c, r),
                                  {'kind': 'leak', 'level': 'stream', 'never_read': first, 'side': self.side}, [r, c]))
            elif alive and i is not None and not self.finished(i) and sid not in led.cancelled_reads \
                    and sid in self.peer.h2.streams and led.ordered:
                exp = self.expected_credit(sid)
                self.checked['active-backpressure'] += 1
                if exp < r:
                    self.checked['active-backpressure-with-unread-data'] += 1
                if c > exp:
                    self.fail.append(('active call on stream %d: %d credited but the reads issued so far need only '
                                      '%d (unread data beyond the read in progress was credited)' % (sid, c, exp),
                                      {'kind': 'backpressure', 'side': self.side}, [r, c, exp]))
                elif c < exp:
                    self.fail.append(('active call on stream %d: consumed frames worth %d but only %d credited'
                                      % (sid, exp, c), {'kind': 'consumed-not-credited', 'side': self.side},
                                      [r, c, exp]))
        for sid, at, r, c in led.over_events:
            self.fail.append(('acknowledge_received_data pushed stream %d to credited %d > received %d' % (sid, c, r),
                              {'kind': 'over-credit', 'level': 'call'}, [sid, at, r, c]))
        del led.over_events[:]
        tr, tc = led.totals()
        if tc > tr:
            self.fail.append(('connection credited %d > received %d' % (tc, tr),
                              {'kind': 'over-credit', 'level': 'connection'}, [tr, tc]))
        if self.peer.h2.outbound_flow_control_window > self.case['cw']:
            self.fail.append(('peer connection window above the configured value',
                              {'kind': 'over-credit', 'level': 'wire'},
                              [self.peer.h2.outbound_flow_control_window, self.case['cw']]))

    def final(self, loop):
        led = self.led
        if led is None:
            self.no_connection = True        # nothing to observe (not a C08 verdict); counted in the evidence
            return
        hs = self.handshake
        if hs['conn'] != self.case['cw'] or hs['stream'] != self.case['sw']:
            self.fail.append(('advertised windows %r differ from the configured (%d, %d)'
                              % (hs, self.case['cw'], self.case['sw']), {'kind': 'advertised-window'}, hs))
        pending = [i for i in range(self.k) if i in self.sid and not self.finished(i)]
        stuck = [t for t in loop.pending_tasks() if t not in self.bg]
        self.all_finished = not pending and not stuck
        alive = not self.lost and not led.closing()
        tr, tc = led.totals()
        self.window = None
        # a call that cannot finish (a program that swallowed its cancellation and waits for data that will never
        # come, a request held back by a pause until the script was over) is not a C08 matter: the per-stream
        # checks above still applied to every call that did finish; only the end-of-history totals are skipped
        self.not_finished = bool(alive and (pending or stuck))
        if alive and self.all_finished:
            if tr != tc:
                self.fail.append(('all calls finished, connection alive: credited %d != received %d' % (tc, tr),
                                  {'kind': 'leak' if tc < tr else 'over-credit', 'level': 'connection-end',
                                   'side': self.side}, [tr, tc]))
            pend = led.pending_conn()
            deficit = self.case['cw'] - self.peer.h2.outbound_flow_control_window
            self.window = [deficit, pend]
            if pend is not None and deficit != pend:
                self.fail.append(('all calls finished: the peer\'s connection window is %d short of the configured '
                                  'value but h2 withholds only %d un-announced bytes' % (deficit, pend),
                                  {'kind': 'window-not-restored', 'side': self.side}, [deficit, pend]))


def run_hist(case):
    logging.disable(logging.CRITICAL)
    try:
        return Run(case).run()
    finally:
        logging.disable(logging.NOTSET)


def run_cfg(case):
    """Configuration validation and the preface the peer sees; also connection_made without the validators"""
    from grpclib.config import Configuration
    from grpclib.protocol import H2Protocol
    from h2.config import H2Configuration
    cw, sw = case['cw'], case['sw']
    out = {}
    try:
        cfg = Configuration(http2_connection_window_size=cw, http2_stream_window_size=sw)
        out['cfg'] = 'ok'
    except ValueError:
        out['cfg'] = 'reject'
    except Exception as e:
        out['cfg'] = 'exc:' + type(e).__name__
    def resolved(conf):
        """the configuration with its role defaults filled in (no keep-alive), as grpclib.testing obtains it"""
        for name in ('__for_test__', '__for_client__', '__for_server__'):
            f = getattr(conf, name, None)
            if callable(f):
                try:
                    return f()
                except Exception:
                    pass
        return None

    raw = resolved(Configuration())
    if raw is not None:
        try:
            object.__setattr__(raw, 'http2_connection_window_size', cw)
            object.__setattr__(raw, 'http2_stream_window_size', sw)
        except Exception:
            raw = None
    client = case['side'] == 'client'

    def preface(conf):
        if conf is None:
            return 'unobservable'
        with vloop.session():
            try:
                proto = H2Protocol(None, conf, H2Configuration(client_side=client, header_encoding='ascii'))
            except Exception:
                return 'unobservable'
            peer = P.Peer(client_side=not client)
            tr = wire.MemTransport(proto, on_write=peer.receive)
            peer.attach(tr)
            peer.start()
            try:
                proto.connection_made(tr)
            except Exception:
                return 'h2error'
            if peer.violations:
                return 'violation'
            v = handshake_view(peer, peer.take_events())
            return 'ok %s %s %d %d' % (v['wu'][0] if len(v['wu']) == 1 else ('-' if not v['wu'] else v['wu']),
                                       v['iws'][0] if len(v['iws']) == 1 else ('-' if not v['iws'] else v['iws']),
                                       v['conn'], v['stream'])
    out['raw'] = preface(raw)
    out['full'] = preface(resolved(cfg)) if out['cfg'] == 'ok' else out['cfg']
    return out


# ---- comparison -------------------------------------------------------------------------------------

def prefix_tokens(led, n):
    return model_tokens(canonical_log(led.log[:n]))


def hist_lines(run):
    led = run.led
    if led is None or not led.ordered:
        return []
    lines = []
    for snap in run.snaps:
        if snap is None:
            continue
        evs, _ = prefix_tokens(led, snap['n'])
        lines.append('h ' + ' '.join(evs))
    return lines


def mask(model_v, impl_v):
    """a component the harness could not observe (None on the implementation side) is masked on both sides"""
    return tuple(None if b is None else a for a, b in zip(model_v, impl_v))


def compare_hist(res, case, run, answers):
    led = run.led
    if led is None:
        return
    for u in sorted(led.unobservable):
        res.count('unobservable:' + u)
    if not led.ordered:
        res.count('unobservable:model-comparison-skipped')
        return
    snaps = [s for s in run.snaps if s is not None]
    evs, outs = [], []
    for snap, line in zip(snaps, answers):
        res.traces += 1
        if line.startswith('DRIVER-ERROR'):
            res.disagreements.append({'case': case, 'model': line, 'impl': 'driver error'})
            return
        trace, streams, conn = parse_model_answer(line)
        evs, outs = prefix_tokens(led, snap['n'])
        impl_streams = {sid: tuple(v) for sid, v in snap['streams'].items()}
        impl = {'trace': outs, 'streams': impl_streams, 'conn': list(snap['conn'])}
        model = {'trace': trace, 'streams': {s: v for s, v in streams.items()}, 'conn': [conn[0], conn[1]]}
        for sid in impl_streams:
            model['streams'].setdefault(sid, (0, 0, 0, 0, 0))
            model['streams'][sid] = mask(model['streams'][sid], impl_streams[sid])
        if not conn[5]:
            model['illegal'] = True
        # the theorems speak about released streams; the code must release every call that has finished
        model['finished_calls_still_registered'] = []
        impl['finished_calls_still_registered'] = snap['finished_registered']
        if model != impl:
            res.disagreements.append({'case': case, 'model': model, 'impl': impl, 'after_events': evs})
            return
    for t in evs:
        res.count('event:' + t[0])
    for o in outs:
        for t in o:
            if t.startswith('R'):
                res.count('read:' + t.split(':')[1])


def classify(res, case, run):
    led = run.led
    res.count('side:' + case['side'])
    res.count('streams:%d' % len(case['streams']))
    for w in (case['cw'], case['sw']):
        res.count('window:' + ('min' if w == WMIN else 'min+1' if w == WMIN + 1 else 'max' if w == WMAX else 'other'))
    if led is None:
        return
    log = led.log
    for sid in led.sids():
        reads = [e for e in log if e[0] == 'read' and e[1] == sid]
        rel = [n for n, e in enumerate(log) if e[0] == 'release' and e[1] == sid]
        if rel and not reads:
            res.count('release:never-read')
        if rel and rel[0] + 1 < len(log) and log[rel[0] + 1][0] == 'ack':
            res.count('release:credits-unread')
        if len(rel) > 1:
            res.count('release:repeated')
        if led.received.get(sid) and sid not in led.streams:
            res.count('data:unknown-stream')
    late = 0
    released = set()
    for e in log:
        if e[0] == 'release':
            released.add(e[1])
        elif e[0] == 'data' and e[1] in released:
            late += 1
    if late:
        res.count('data:after-release', late)
    if any(e[0] == 'data' and e[3] == 0 for e in log):
        res.count('data:empty-frame')
    if any(e[0] == 'data' and e[3] > e[2] for e in log):
        res.count('data:padded')
    if run.lost:
        res.count('connection:lost')
    paused, after = False, 0
    for e in log:
        if e[0] in ('pause', 'resume'):
            paused = e[0] == 'pause'
            res.count('transport:' + e[0])
        elif e[0] == 'ack' and paused:
            res.count('ack:while-paused')
        elif e[0] == 'release' and paused:
            res.count('release:while-paused')
    released = set()
    for e in log:
        if e[0] == 'release':
            released.add(e[1])
        elif e[0] == 'read' and e[1] in released:
            after += 1
    if after:
        res.count('read:after-release', after)
    if run.all_finished and not run.lost:
        res.count('end:all-finished-alive')
    if run.not_finished:
        res.count('end:some-call-not-finished')
    if run.no_connection:
        res.count('unobservable:no-connection')
    for m in run.harness_errors[:3]:
        res.count('harness-error-in-program:' + m.split(':')[0])
        if len(res.notes) < 3:
            res.notes.append('harness error inside a program: ' + m)
    for a in case['actions']:
        fr = a.get('frames') or []
        if len(fr) > 1 and fr[0][0] == 'H' and fr[-1][0] == 'R' and case['side'] == 'server':
            res.count('shape:rst-in-same-read-as-headers')
    if run.skipped:
        res.count('peer-action-skipped', run.skipped)
    kinds = ''.join({'release': 'x', 'pause': 'P', 'resume': 'Q', 'read': 'R', 'ret': 't'}.get(e[0], e[0][0]) for e in log)
    res.signatures.add((case['side'], kinds))


def check_hist_cases(ctx, res, cases):
    runs = []
    harness_errors = 0
    for n, case in enumerate(cases):
        if n % 400 == 0:
            gc.collect()        # asyncio.all_tasks() walks every task object still alive, also of closed loops
        res.evaluations += 1
        try:
            run = run_hist(case)
        except Exception as e:       # the implementation (or the harness) raised out of a step
            import traceback
            tb = traceback.extract_tb(e.__traceback__)
            where = tb[-1].filename if tb else ''
            if os.sep + 'harness' + os.sep in where and 'grpclib' not in where:
                # the exception was raised by harness code itself: not a verdict about grpclib; the case is not
                # evaluated, which the evidence shows; too many of them break the tie (see below)
                res.count('harness-error:' + type(e).__name__)
                if len(res.notes) < 3:
                    res.notes.append('harness error in a history: ' + traceback.format_exc()[-400:])
                harness_errors += 1
            else:
                res.oracle_failures.append({'case': case, 'what': 'exception escaped while driving the history: %s'
                                            % type(e).__name__,
                                            'signature': {'kind': 'exception', 'exc': type(e).__name__},
                                            'observed': traceback.format_exc()[-600:]})
            runs.append(None)
            continue
        runs.append(run)
        seen = set()
        for what, sig, obs in run.fail:
            key = tuple(sorted(sig.items()))
            if key not in seen and len(seen) < 4:       # one report per failure class and case
                seen.add(key)
                res.oracle_failures.append({'case': case, 'what': what, 'signature': dict(sig, op='hist'),
                                            'observed': obs})
        classify(res, case, run)
        for k, v in run.checked.items():
            res.count('oracle:' + k, v)
        if run.window is not None:
            res.count('oracle:peer-window-restored-checked')
        run.slim()
        res.sample({'case': case, 'log': run.led.log[:40] if run.led else None, 'handshake': run.handshake,
                    'window_deficit_vs_h2_pending': run.window}, limit=4)
    if harness_errors > max(3, len(cases) // 20):
        raise RuntimeError('%d of %d histories could not be driven (harness errors)' % (harness_errors, len(cases)))
    if ctx.model_ok:
        lines, spans = [], []
        for run in runs:
            ls = hist_lines(run) if run is not None else []
            spans.append((len(lines), len(lines) + len(ls)))
            lines += ls
        answers = ctx.model(lines) if lines else []
        for case, run, (a, b) in zip(cases, runs, spans):
            if run is not None:
                compare_hist(res, case, run, answers[a:b])


def check_cfg_cases(ctx, res, cases):
    lines = []
    for c in cases:
        lines.append('cfg %d %d' % (c['cw'], c['sw']))
        lines.append('raw %d %d' % (c['cw'], c['sw']))
    answers = ctx.model(lines) if ctx.model_ok and lines else None
    for n, c in enumerate(cases):
        res.evaluations += 1
        impl = run_cfg(c)
        cw, sw = c['cw'], c['sw']
        legal = WMIN <= cw <= WMAX and WMIN <= sw <= WMAX
        res.count('cfg:' + ('legal' if legal else 'illegal') + ':' + impl['full'].split()[0])
        res.signatures.add(('cfg', min(max(cw, WMIN - 1), WMAX + 1) in (WMIN - 1, WMIN, WMAX, WMAX + 1),
                            min(max(sw, WMIN - 1), WMAX + 1) in (WMIN - 1, WMIN, WMAX, WMAX + 1), legal,
                            impl['raw'].split()[0]))
        if answers is not None:
            res.traces += 1
            model = {'full': answers[2 * n], 'raw': answers[2 * n + 1]}
            for key in ('full', 'raw'):              # what the harness could not observe is masked on both sides
                if impl[key] == 'unobservable':
                    res.count('unobservable:preface')
                    model[key] = 'unobservable' if not (key == 'full' and model[key] == 'reject') else model[key]
            if model != {'full': impl['full'], 'raw': impl['raw']}:
                res.disagreements.append({'case': c, 'model': model, 'impl': impl})
        # direct oracle
        if legal:
            want_wu = '-' if cw == WMIN else str(cw - WMIN)
            want_iws = '-' if sw == WMIN else str(sw)
            if impl['full'] != 'unobservable' and impl['full'] != 'ok %s %s %d %d' % (want_wu, want_iws, cw, sw):
                res.oracle_failures.append({'case': c, 'what': 'legal configuration (%d, %d): the peer sees %s'
                                            % (cw, sw, impl['full']),
                                            'signature': {'op': 'cfg', 'kind': 'advertised-window'}, 'observed': impl})
        elif impl['cfg'] != 'reject':
            res.oracle_failures.append({'case': c, 'what': 'window configuration (%d, %d) outside [65535, 2^31-1] '
                                        'was not rejected: %s' % (cw, sw, impl['cfg']),
                                        'signature': {'op': 'cfg', 'kind': 'illegal-accepted'}, 'observed': impl})
    if cases:
        res.sample({'case': cases[0], 'impl': run_cfg(cases[0])}, limit=6)


# ---- driver -----------------------------------------------------------------------------------------

RULE = ('PRNG histories on the real Server protocol (65%) and the real Channel (35%) against a scripted real-h2 peer: '
        '1-4 streams, each with 0-3 length-prefixed messages (sizes 0..3000, sometimes truncated) cut into DATA frames '
        'at PRNG points, un-padded / padded (0,1,7,100,255) / empty frames, several frames of several streams in one '
        'read, END_STREAM, RST_STREAM at PRNG points including in the same read as the request HEADERS, DATA after the '
        'handler finished, connection loss (8%), transport pause_writing / resume_writing at PRNG points (7% per '
        'step; a final resume before the ledger is judged); handler / client programs: read all, read k messages, '
        'never read, wait-then-read, read-then-wait, raw partial reads, reads that swallow a cancellation and go on, '
        'client cancel / exception / task cancellation; 30% of the streams have a reader that OUTLIVES the call '
        '(task spawned by the handler / inside the `async with` block and released by the harness later, or reads '
        'issued after the block was left) -- read after release; connection '
        'and stream windows from {65535, 65536, 2^31-1, 2^31-2, 4MiB, ...} (60%) or uniform over [65535, 2^31-1]. '
        'After every action the loop runs to quiescence and the ledger is compared with the model run on the observed '
        'event order. Separate stream: window pairs incl. illegal ones through Configuration and through '
        'connection_made without the validators. distinct = distinct (side, sequence of micro-event kinds).')


def load_corpus(ctx):
    return [c for c in ctx.corpus() if c.get('op') in ('hist', 'cfg')]


def run(ctx):
    res = Result()
    res.rule = RULE
    rng = ctx.rng
    corpus = load_corpus(ctx)
    hist = [c for c in corpus if c['op'] == 'hist']
    cfgs = [c for c in corpus if c['op'] == 'cfg']
    res.count('corpus', len(corpus))
    for _ in range(ctx.n(1500, 30000)):
        hist.append(gen_case(rng))
    for cw in (WMIN, WMIN + 1, WMAX, 4 * 2 ** 20):
        for sw in (WMIN, WMIN + 1, WMAX):
            cfgs.append({'op': 'cfg', 'cw': cw, 'sw': sw, 'side': 'server'})
    for _ in range(ctx.n(300, 5000)):
        cfgs.append(gen_cfg_case(rng))
    check_hist_cases(ctx, res, hist)
    check_cfg_cases(ctx, res, cfgs)
    return res


def replay(ctx, case):
    res = Result()
    if case.get('op') == 'cfg':
        check_cfg_cases(ctx, res, [case])
    else:
        case = dict(case)
        case['actions'] = [dict(a) for a in case['actions']]
        check_hist_cases(ctx, res, [case])
    return res
