"""C19 -- health service: aggregate truth table, Watch never misses the latest change, ServiceCheck
TTL / single flight / timeout.  Correspondence of coq/Model/Health.v with grpclib.health on the
virtual-time loop + direct oracle (the property statement on the implementation alone).

Case kinds (field 'op'):
  agg      _status on a set of fixed checks                                   (model: agg)
  reset    _reset_waits on events / wait tasks in given states                (model: reset)
  check    Health.Check over a real client stub, ServiceStatus checks         (model: check)
  watch    Health.Watch: rig 'direct' (fake stream, single loop iterations, blocked send_message) or
           'e2e' (real client stub, in-process connection)                    (model: watch)
  sc       ServiceCheck.__check__ driven directly on the virtual clock        (model: sc)
  sce2e    ServiceCheck behind Health.Check / Health.Watch, real client stub  (oracle only)
  unsub    the only watcher of a ServiceCheck leaves at a given instant        (oracle only)
  churn    watchers of ServiceCheck-backed services join and leave at any loop iteration (last one leaves, next
           one joins), check results change over time; rig direct / e2e       (model: poll, + oracle)
Times are integer ticks of 1/8 s.  Status codes: True 1, False 0, None 2; responses: UNKNOWN 0,
SERVING 1, NOT_SERVING 2, SERVICE_UNKNOWN 3; grpc-status NOT_FOUND 5."""
import itertools

from harness.core import Result
from harness import c19_impl as I

PROPERTY = 'C19'
THEOREM_FILES = ['Props/C19.v']
ALLOWED_AXIOMS = []
LABEL = ('full on the model (aggregate for all lists; Watch for all set/step interleavings and any number '
         'of watchers; ServiceCheck for all call/cancel/result/time schedules of one check), except two '
         'full-strength statements refuted with witnesses and kept as findings D25 / D26 (strict once-per-TTL '
         'after an aborted run; cancellation coinciding with the timeout) with the strongest true partial '
         'theorems; the asyncio primitives, the timer firing exactly at its deadline and a cancellable check '
         'function are modelled assumptions tied by the correspondence runs')
TRUSTED = ['tools/facts_C19.py (facts BY VALUE: the health modules of the repository are imported and probed through '
           'their public surface on the virtual loop over small finite domains -- aggregate for every status '
           'multiset up to 3, what one Watch wake-up does to absent / pending / woken / done wait tasks and that it '
           'happens in one loop iteration, TTL test at ttl-1/ttl/ttl+1, endings of a run, hand-over of the poll task; '
           'fail-closed on observations the model does not understand)',
           'modelled, not verified: asyncio.Event (set wakes the waiters that exist, a woken waiter returns '
           'even if the flag is cleared again), asyncio.wait(FIRST_COMPLETED) hop structure, FIFO ready queue, '
           'Task.cancel collapsing, call_later firing at its instant on the virtual clock; h2/protobuf '
           'transport of the responses (exercised end to end only)']
ASSUMPTIONS = ['check statuses are exactly True / False / None (ServiceStatus.set is given one of them)',
               'the user check function is cancellable: it does not swallow CancelledError',
               'timers fire at their instant (virtual clock); on a real loop "by start + check_timeout" holds '
               'up to scheduling latency',
               'one Health instance; its check sets are not mutated after construction']

RESP = {'UNKNOWN': 0, 'SERVING': 1, 'NOT_SERVING': 2, 'SERVICE_UNKNOWN': 3}
NOT_FOUND = 5


# ---- the property statement, in Python, independent of the model ------------------------------------------

def expect_agg(codes):
    """aggregate of a NON-EMPTY collection of check statuses"""
    if all(c == 1 for c in codes):
        return 1
    if all(c == 2 for c in codes):
        return 0
    return 2


def registry(cfg):
    """documented meaning of Health(checks): name -> set of check ids; OVERALL ('' = 0) defaults to all"""
    if cfg is None:
        return {0: set()}
    reg = {}
    for n, ids in cfg:
        reg[n] = set(ids)
    if 0 not in reg:
        reg[0] = set(i for _, ids in cfg for i in ids)
    return reg


def expect_check(cfg, vals, name):
    reg = registry(cfg)
    if name not in reg:
        return ('status', NOT_FOUND)
    if not reg[name]:
        return ('resp', 1)
    return ('resp', expect_agg([vals[i] for i in reg[name]]))


def expect_watch_status(cfg, vals, name):
    reg = registry(cfg)
    if name not in reg:
        return 3
    if not reg[name]:
        return 1
    return expect_agg([vals[i] for i in reg[name]])


# ---- line protocol ---------------------------------------------------------------------------------------

def cfg_word(cfg):
    if cfg is None:
        return 'none'
    if not cfg:
        return '-'
    return ';'.join('%d=%s' % (n, ','.join(map(str, ids))) for n, ids in cfg)


def vals_word(vals):
    return ''.join(map(str, vals)) or '-'


def model_line(case):
    op = case['op']
    if op == 'agg':
        return ' '.join(['agg'] + [str(c) for c in case['vals']])
    if op == 'reset':
        return ' '.join(['reset', vals_word([2] * len(case['slots']))] + case['slots'])
    if op == 'check':
        return None        # several lines, see check_lines
    if op == 'watch':
        return ' '.join(['watch', cfg_word(case['cfg']), vals_word(case['vals'])] + case['cmds'])
    if op == 'sc':
        evs = []
        for e in case['events']:
            if e[1] == 'call':
                evs.append('%d:call' % e[0] if len(e) < 3 or e[2] is None else '%d:call:%d' % (e[0], e[2]))
            else:
                evs.append('%d:cancel:%d' % (e[0], e[2]))
        return ' '.join(['sc', str(case['ttl']), str(case['tmo']), str(case['horizon']), 'S'] +
                        ['%d:%s' % (d, r) for d, r in case['script']] + ['E'] + evs)
    return None


def check_lines(case):
    return ['check %s %s %d' % (cfg_word(case['cfg']), vals_word(case['vals']), n) for n in case['names']]


# ---- generators ------------------------------------------------------------------------------------------

def gen_cfg(rng, nchecks):
    r = rng.random()
    if r < 0.06:
        return None
    if r < 0.1:
        return []
    cfg = []
    names = rng.sample([1, 2, 3, 4], rng.choice([1, 1, 2, 2, 3]))
    for n in names:
        k = rng.choice([0, 1, 1, 2, 2, 3]) if nchecks else 0
        cfg.append([n, [rng.randrange(nchecks) for _ in range(k)]])
    if rng.random() < 0.2:
        cfg.insert(rng.randrange(len(cfg) + 1),
                   [0, [rng.randrange(nchecks) for _ in range(rng.choice([0, 1, 2]))] if nchecks else []])
    return cfg


def gen_vals(rng, n):
    mode = rng.random()
    if mode < 0.2:
        return [1] * n
    if mode < 0.35:
        return [2] * n
    return [rng.choice([1, 0, 2]) for _ in range(n)]


def gen_check(rng):
    n = rng.choice([0, 1, 2, 3, 4])
    cfg = gen_cfg(rng, n)
    names = sorted(set([0, 9] + [m for m, _ in (cfg or [])]))
    return {'op': 'check', 'cfg': cfg, 'vals': gen_vals(rng, n), 'names': names}


def watchable(cfg):
    return sorted(registry(cfg).keys())


def gen_watch(rng, rig):
    n = rng.choice([1, 2, 2, 3])
    cfg = gen_cfg(rng, n)
    vals = gen_vals(rng, n)
    names = watchable(cfg) + [9]
    cmds = []
    nw = 0
    slow = {}
    steps = rng.choice([4, 8, 12, 20])
    # a watcher early, so that most of the schedule is observed
    def add_watch():
        nonlocal nw
        s = 1 if (rig == 'direct' and rng.random() < 0.3) else 0
        nm = rng.choice(names) if rng.random() < 0.15 else rng.choice(watchable(cfg))
        cmds.append('w:%d:%d' % (nm, s))
        cmds.append(rng.choice(['q', 'i:1', 'i:1', 'i:2']) if rig == 'direct' else 'q')
        slow[nw] = s
        nw += 1
    add_watch()
    for _ in range(steps):
        r = rng.random()
        if r < 0.45:
            for _ in range(rng.choice([1, 1, 1, 2, 3])):
                cmds.append('s:%d:%d' % (rng.randrange(n), rng.choice([1, 0, 2])))
            if rig == 'e2e':
                cmds.append('q')
        elif r < 0.7:
            cmds.append(rng.choice(['i:1', 'i:1', 'i:2', 'i:3', 'q']) if rig == 'direct' else 'q')
        elif r < 0.78 and nw < 3:
            add_watch()
        elif r < 0.86 and rig == 'direct':
            k = rng.randrange(nw)
            cmds.append('r:%d' % k)
        elif r < 0.92 and rig == 'direct':
            k = rng.randrange(nw)
            b = rng.choice([0, 1])
            cmds.append('l:%d:%d' % (k, b))
        elif r < 0.97:
            cmds.append('c:%d' % rng.randrange(nw))
            if rig == 'e2e':
                cmds.append('q')
        else:
            cmds.append('q')
    # the slow watchers start reading again; everything settles
    if rig == 'direct':
        for k in range(nw):
            cmds.append('l:%d:0' % k)
        for _ in range(3):
            for k in range(nw):
                cmds.append('r:%d' % k)
            cmds.append('q')
    else:
        cmds.append('q')
    case = {'op': 'watch', 'rig': rig, 'cfg': cfg, 'vals': vals, 'cmds': cmds}
    if rig == 'e2e':
        case['delays'] = {str(k): rng.choice([0, 0, 1, 8, 40]) for k in range(nw)}
    return case


RES = 'TTTFNBR'


def gen_sc_history(rng):
    """state that only a LATER call observes: one or more bad runs (hang past check_timeout, raise, non-bool,
    cancelled caller), then the dependency recovers and later calls arrive after the TTL"""
    ttl = rng.choice([0, 1, 8, 40])
    tmo = rng.choice([1, 8, 8, 80])
    bad = [[-2, 'T'], [tmo + 1, 'T'], [tmo, 'F'], [tmo * 3, 'N'], [1, 'R'], [0, 'B'], [-1, 'R'], [3, 'T']]
    good = [[-1, 'T'], [0, 'T'], [1, 'T'], [max(tmo - 1, 0), 'T'], [-1, 'F'], [1, 'N']]
    nbad = rng.choice([1, 1, 2, 3])
    script = [list(rng.choice(bad)) for _ in range(nbad)] + [list(rng.choice(good)) for _ in range(6)]
    events, t = [], 0
    for j in range(nbad + rng.choice([1, 2, 4])):
        events.append([t, 'call'])
        if j < nbad and rng.random() < 0.25:
            events.append([t + rng.choice([0, 1, max(tmo - 1, 0)]), 'cancel', len([e for e in events if e[1] == 'call']) - 1])
        if rng.random() < 0.3:
            events.append([t + rng.choice([0, 1, tmo]), 'call'])
        t += tmo + ttl + rng.choice([0, 0, 1, 5])
    events.sort(key=lambda e: e[0])
    return {'op': 'sc', 'ttl': ttl, 'tmo': tmo, 'horizon': t + 3 * tmo + ttl + 20, 'script': script, 'events': events}


def gen_sc(rng):
    ttl = rng.choice([0, 1, 8, 40, 240])
    tmo = rng.choice([0, 1, 8, 8, 80, 80])
    durs = [-1, -1, 0, 0, 1, 3, max(tmo - 1, 0), tmo, tmo + 1, ttl, tmo * 5 + 7, -2]
    script = [[rng.choice(durs), rng.choice(RES)] for _ in range(rng.choice([2, 4, 8]))]
    events = []
    t = 0
    ncall = 0
    steps = [0, 0, 1, 1, 2, max(tmo - 1, 0), tmo, tmo + 1, max(ttl - 1, 0), ttl, ttl + 1, ttl + tmo, 3]
    for _ in range(rng.choice([2, 4, 7, 12])):
        t += rng.choice(steps)
        r = rng.random()
        if r < 0.72 or ncall == 0:
            if rng.random() < 0.15:
                events.append([t, 'call', t + rng.choice([0, 1, tmo, max(tmo - 1, 0), tmo + 1, 3])])
            else:
                events.append([t, 'call'])
            ncall += 1
        else:
            events.append([t, 'cancel', rng.randrange(ncall)])
    return {'op': 'sc', 'ttl': ttl, 'tmo': tmo, 'horizon': t + 5 * tmo + ttl + 50, 'script': script,
            'events': events}


def gen_unsub(rng):
    ttl = rng.choice([8, 40])
    tmo = rng.choice([8, 24, 80])
    durs = [-1, 0, 1, tmo - 1, tmo, tmo + 1, tmo * 3, -2]
    script = [[rng.choice(durs), rng.choice(RES)] for _ in range(30)]
    cancel_at = rng.choice([0, 1, tmo - 1, tmo, tmo + 1, tmo + ttl, 2 * tmo + ttl, rng.randrange(0, 4 * (tmo + ttl))])
    return {'op': 'unsub', 'ttl': ttl, 'tmo': tmo, 'script': script, 'cancel_at': cancel_at,
            'horizon': cancel_at + 6 * (ttl + tmo), 'armed_first': rng.random() < 0.7}


def gen_churn(rng, rig):
    """watchers of ServiceCheck-backed services join and leave at PRNG instants, including the same instant and
    adjacent loop iterations (the last one leaves, the next one joins); check results change over time"""
    nchecks = rng.choice([1, 1, 2, 2, 3])
    checks = []
    t_end = 0
    for _ in range(nchecks):
        if rng.random() < 0.2:
            checks.append({'status': rng.choice([1, 0, 2])})
        else:
            ttl = rng.choice([4, 8, 24])
            tmo = rng.choice([8, 16])
            phases = [[0, rng.choice(RES + 'H')]]
            t = 0
            for _ in range(rng.choice([1, 2, 4])):
                t += rng.choice([1, 5, ttl, 2 * ttl + 3, 40])
                phases.append([t, rng.choice(RES + 'HH')])
            if rng.random() < 0.5:                  # the dependency recovers in the end
                t += rng.choice([1, ttl, 40])
                phases.append([t, rng.choice('TTN')])
            t_end = max(t_end, t)
            checks.append({'ttl': ttl, 'tmo': tmo, 'dur': rng.choice([-1, -1, 0, 1, 3]), 'phases': phases})
    cfg = [[1, list(range(nchecks))]]
    if nchecks > 1 and rng.random() < 0.5:
        cfg.append([2, [rng.randrange(nchecks)]])
    names = [1, 1, 1, 0] + ([2] if len(cfg) > 1 else [])
    cmds = []
    alive = []
    nw = 0
    now = 0
    gap = (lambda: rng.choice(['', '', 'i:1', 'i:1', 'i:2', 'i:3', 'q'])) if rig == 'direct' else \
        (lambda: rng.choice(['', '', 'i:1', 'i:2', 'i:4', 'i:8', 'q']))

    def add(c):
        if c:
            cmds.append(c)
    for _ in range(rng.choice([3, 6, 10, 16])):
        r = rng.random()
        if r < 0.3 and nw < 8:
            cmds.append('j:%d' % rng.choice(names))
            alive.append(nw)
            nw += 1
            add(gap())
        elif r < 0.65 and alive:
            # hand-over: somebody (often the last one) leaves and, within 0..3 iterations, somebody joins
            k = rng.choice(alive)
            alive.remove(k)
            cmds.append('l:%d' % k)
            add(rng.choice(['', 'i:1', 'i:1', 'i:2', 'i:3'] if rig == 'direct' else ['', 'i:1', 'i:2', 'i:4', 'i:6', 'i:8']))
            if rng.random() < 0.8 and nw < 8:
                cmds.append('j:%d' % rng.choice(names))
                alive.append(nw)
                nw += 1
                add(gap())
        elif r < 0.75 and alive:
            k = rng.choice(alive)
            alive.remove(k)
            cmds.append('l:%d' % k)
            add(gap())
        else:
            dt = rng.choice([1, 3, 8, 24, 50])
            now += dt
            cmds.append('t:%d' % dt)
    if not alive or rng.random() < 0.5:
        cmds.append('j:%d' % rng.choice(names))
        add(gap())
    worst = max([c['ttl'] + c['tmo'] + 4 for c in checks if 'ttl' in c] or [8])
    tail = max(0, t_end - now) + 3 * worst + 8
    return {'op': 'churn', 'rig': rig, 'checks': checks, 'cfg': cfg, 'cmds': cmds, 'tail': tail}


def gen_check_rows(rng):
    """consecutive Check calls on a service with 2-3 ServiceCheck-backed checks whose functions are scripted per
    call over {True, False, None, raise, non-bool}; check_ttl 0 (mostly), so every answer needs every check
    evaluated again; the rows CHANGE from call to call (mixed rows with None in either position)"""
    n = rng.choice([2, 2, 3])
    ttl = rng.choice([0, 0, 0, 1, 8])
    checks = []
    ncalls = rng.choice([2, 3, 5, 8])
    for _ in range(n):
        if rng.random() < 0.15:
            checks.append({'status': rng.choice([1, 0, 2])})
        else:
            checks.append({'ttl': ttl, 'tmo': rng.choice([8, 24]),
                           'script': [[rng.choice([-1, -1, -1, 0, 1]), rng.choice('TTTNNNFRB')] for _ in range(3 * ncalls + 2)]})
    if all('status' in c for c in checks):
        checks[0] = {'ttl': 0, 'tmo': 8, 'script': [[-1, rng.choice('TNF')] for _ in range(3 * ncalls + 2)]}
    cfg = [[1, list(range(n))]]
    if rng.random() < 0.4:
        cfg.append([2, rng.sample(range(n), 2)])
    events, t = [], 0
    for _ in range(ncalls):
        events.append([t, 'check', rng.choice([1, 1, 1, 0, 2 if len(cfg) > 1 else 1])])
        t += rng.choice([2 * n + 1, 2 * n + 1, 2 * n + 2, 9, 2 * n + 1 + ttl])
    return {'op': 'sce2e', 'checks': checks, 'cfg': cfg, 'events': events, 'horizon': t + 60}


def gen_sce2e(rng):
    nchecks = rng.choice([1, 1, 2, 3])
    checks = []
    for _ in range(nchecks):
        if rng.random() < 0.25:
            checks.append({'status': rng.choice([1, 0, 2])})
        else:
            ttl = rng.choice([8, 40, 240])
            tmo = rng.choice([8, 24, 80])
            durs = [-1, 0, 1, 3, tmo - 1, tmo, tmo + 1, tmo * 3, -2]
            checks.append({'ttl': ttl, 'tmo': tmo,
                           'script': [[rng.choice(durs), rng.choice(RES)] for _ in range(40)]})
    cfg = [[1, list(range(nchecks))]]
    if nchecks > 1 and rng.random() < 0.5:
        cfg.append([2, [rng.randrange(nchecks)]])
    events = []
    t = 0
    nwatch = ncalls = 0
    for _ in range(rng.choice([3, 6, 10])):
        t += rng.choice([0, 1, 5, 8, 24, 40, 80, 241])
        r = rng.random()
        name = rng.choice([1, 1, 0, 2 if len(cfg) > 1 else 1, 9])
        if r < 0.5:
            events.append([t, 'check', name])
            ncalls += 1
        elif r < 0.7 and nwatch < 2:
            events.append([t, 'watch', name if name != 9 else 1])
            nwatch += 1
        elif r < 0.8 and nwatch:
            events.append([t, 'unwatch', rng.randrange(nwatch)])
        elif r < 0.9:
            i = rng.randrange(nchecks)
            if 'status' in checks[i]:
                events.append([t, 'set', i, rng.choice([1, 0, 2])])
            else:
                events.append([t, 'check', 1])
                ncalls += 1
        elif ncalls:
            events.append([t, 'cancelcheck', rng.randrange(ncalls)])
    return {'op': 'sce2e', 'checks': checks, 'cfg': cfg, 'events': events, 'horizon': t + 400}


# ---- oracles ---------------------------------------------------------------------------------------------

def fail(res, case, what, sig, observed=None):
    res.oracle_failures.append({'case': case, 'what': what, 'signature': dict(sig, op=case['op']),
                                'observed': observed})


def subseq_of_history(msgs, hist):
    """each delivered status is the aggregate at some instant, instants non-decreasing"""
    j = 0
    for m in msgs:
        while j < len(hist) and hist[j] != m:
            j += 1
        if j == len(hist):
            return False
    return True


def oracle_watch(res, case, sent, blocked):
    """sent: per watcher the delivered statuses; blocked: watchers whose send is still blocked / who were
    cancelled (no claim about their last message)."""
    cfg, vals = case['cfg'], list(case['vals'])
    hist = {}       # watcher -> aggregates since subscription
    names = []
    cancelled = set()
    for c in case['cmds']:
        p = c.split(':')
        if p[0] == 'w':
            names.append(int(p[1]))
        elif p[0] in 'iq':
            for k in range(len(names)):
                if k not in hist and k not in cancelled:
                    hist[k] = [expect_watch_status(cfg, vals, names[k])]
        elif p[0] == 's' and int(p[1]) < len(vals):
            vals[int(p[1])] = int(p[2])
            for k in hist:
                hist[k].append(expect_watch_status(cfg, vals, names[k]))
        elif p[0] == 'c' and int(p[1]) < len(names):
            cancelled.add(int(p[1]))
    for k, msgs in enumerate(sent):
        if k >= len(names) or (k not in hist and not msgs):
            continue
        if k not in hist:
            fail(res, case, 'a watcher cancelled before it started received messages', {'kind': 'watch-ghost'}, sent)
            continue
        if not msgs:
            if k not in cancelled:
                fail(res, case, 'watcher %d received no message at all' % k, {'kind': 'watch-no-first'}, sent)
            continue
        if msgs[0] != hist[k][0]:
            fail(res, case, 'first Watch message %d is not the status at subscription %d' % (msgs[0], hist[k][0]),
                 {'kind': 'watch-first'}, sent)
        if not subseq_of_history(msgs, hist[k]):
            fail(res, case, 'a delivered status never was the aggregate (or order violated)',
                 {'kind': 'watch-untruthful'}, {'sent': sent, 'history': hist[k]})
        if k not in cancelled and k not in blocked and msgs[-1] != hist[k][-1]:
            fail(res, case, 'missed update: last delivered status %d, current aggregate %d' % (msgs[-1], hist[k][-1]),
                 {'kind': 'watch-missed-update'}, {'sent': sent, 'history': hist[k]})
        if len(msgs) > 3 * len(hist[k]) + 3:
            fail(res, case, 'Watch floods: %d messages for %d changes' % (len(msgs), len(hist[k]) - 1),
                 {'kind': 'watch-flood'}, sent)


def value_after(how, r):
    """status stored by a finished run of the function"""
    if how == 'ret':
        return {'T': 1, 'F': 0, 'N': 2}.get(r, 0)
    return 0


def oracle_invocations(res, case, log, script, ttl, tmo, max_active, tag=''):
    """log: [(start, end, how)] of one check's function in start order"""
    if max_active is not None and max_active > 1:
        fail(res, case, 'the check function ran concurrently with itself', {'kind': 'sc-concurrent'}, log)
    prev_completed_end = None
    prev_end = None
    prev_aborted_end = None
    for j, (s, e, how) in enumerate(log):
        if prev_end is not None and (prev_end is None or s < prev_end):
            fail(res, case, 'runs overlap', {'kind': 'sc-concurrent'}, log)
        if e is None:
            prev_end = None
            continue
        if tmo > 0 and e > s + tmo:
            fail(res, case, 'a run lasted %d ticks with check_timeout %d' % (e - s, tmo),
                 {'kind': 'sc-timeout-ignored'}, log)
        if tmo <= 0:
            fail(res, case, 'function called although check_timeout <= 0', {'kind': 'sc-timeout-zero'}, log)
        if prev_completed_end is not None and s < prev_completed_end + ttl:
            fail(res, case, 'second run %d ticks after a completed one, check_ttl %d' % (s - prev_completed_end, ttl),
                 {'kind': 'sc-ttl'}, log)
        if prev_aborted_end is not None and s < prev_aborted_end + ttl and not (
                prev_completed_end is not None and s < prev_completed_end + ttl):
            fail(res, case, 'the function ran again %d ticks after a run that was aborted by the cancellation of '
                 'its caller (check_ttl %d): nothing was cached' % (s - prev_aborted_end, ttl),
                 {'kind': 'sc-rerun-after-abort'}, log)
        completed = how in ('ret', 'raise') or (how == 'cancelled' and tmo > 0 and e == s + tmo)
        if completed:
            prev_completed_end = e
            prev_aborted_end = None
        else:
            prev_aborted_end = e
        prev_end = e


def completed_values(log, script, tmo):
    """[(end time, value)] for the completed runs of one check"""
    out = []
    for j, (s, e, how) in enumerate(log):
        if e is None:
            continue
        r = script[j][1] if j < len(script) else 'T'
        if how in ('ret', 'raise'):
            out.append((e, value_after(how, r)))
        elif tmo > 0 and e == s + tmo:
            out.append((e, 0))
    return out


def value_at(cv, t):
    v = 2
    for e, x in cv:
        if e <= t:
            v = x
    return v


def values_at(cv, t):
    """every value the check had during instant t (several runs can complete in one instant)"""
    return {value_at(cv, t - 1)} | {x for e, x in cv if e == t}


def must_run(call_times, log, ttl, tmo):
    """Histories, judged without the model: a __check__ call that arrives when no run of the function is in
    flight and no completed run is younger than check_ttl must START the function (whatever happened in
    earlier runs: time-outs, exceptions, cancellations leave no state behind).  Returns the call times at
    which no run started although one was due."""
    if tmo <= 0:
        return []
    missing = []
    for t in call_times:
        # a run that ends in the very instant of the call may have ended after it: no claim then
        in_flight = any(s <= t and (e is None or e > t or (e == t and s < t)) for s, e, _ in log)
        fresh = any(e is not None and e <= t and t - e < ttl and
                    (how in ('ret', 'raise') or (how == 'cancelled' and e == s + tmo)) for s, e, how in log)
        if not in_flight and not fresh and not any(s == t for s, _, _ in log):
            missing.append(t)
    return missing


def oracle_sc(res, case, impl):
    ttl, tmo = case['ttl'], case['tmo']
    log = impl['log']
    oracle_invocations(res, case, log, case['script'], ttl, tmo, impl['max_active'])
    cv = completed_values(log, case['script'], tmo)
    if tmo <= 0:
        cv = None
    calls = [e for e in case['events'] if e[1] == 'call']
    miss = must_run([e[0] for e in calls], log, ttl, tmo)
    if miss:
        fail(res, case, 'the check function was not run for the call(s) at t=%r although no run was in flight and the '
             'cached result (if any) was older than check_ttl: earlier runs left state behind' % (miss[:3],),
             {'kind': 'sc-not-run'}, {'callers': impl['callers'], 'log': log})
    for i, (ev, out) in enumerate(zip(calls, impl['callers'])):
        p = out.split(':')
        if p[0] == 'pending':
            fail(res, case, 'a __check__ call never returned', {'kind': 'sc-hang'}, impl['callers'])
        elif p[0] == 'exc':
            fail(res, case, '__check__ raised ' + p[1], {'kind': 'sc-raised', 'exc': p[1]}, impl['callers'])
        elif p[0] == 'ret':
            v, t = int(p[1]), int(p[2])
            if cv is not None and v not in values_at(cv, t):
                fail(res, case, 'call %d returned %d but the latest completed run says %d' % (i, v, value_at(cv, t)),
                     {'kind': 'sc-wrong-value'}, {'callers': impl['callers'], 'log': log})
            if tmo <= 0 and v != 0:
                fail(res, case, 'check_timeout <= 0 but the check does not count as failing',
                     {'kind': 'sc-timeout-zero'}, out)
    for i in impl.get('cancelled_pending', []):
        if impl['callers'][i].split(':')[0] == 'ret':
            fail(res, case, 'caller %d was cancelled while pending but returned %s' % (i, impl['callers'][i]),
                 {'kind': 'cancel-lost'}, impl['callers'])
    # every call is over by its start + check_timeout (a waiter joins a run that started earlier)
    for ev, out in zip(calls, impl['callers']):
        p = out.split(':')
        if p[0] in ('ret', 'cancelled') and int(p[-1]) > ev[0] + max(tmo, 0) and p[0] == 'ret':
            fail(res, case, 'call returned %d ticks after it started, check_timeout %d' % (int(p[-1]) - ev[0], tmo),
                 {'kind': 'sc-late'}, out)
    if cv is not None and impl['value'] != value_at(cv, 10 ** 9):
        fail(res, case, 'final value %d differs from the latest completed run' % impl['value'],
             {'kind': 'sc-wrong-value'}, impl)
    # watchers are notified exactly when the value changes
    if cv is not None and impl['notes'] is not None:
        exp, v = [], 2
        for e, x in cv:
            if x != v:
                exp.append((e, x))
            v = x
        if [tuple(n) for n in impl['notes']] != exp:
            fail(res, case, 'watcher notifications %r, value changes %r' % (impl['notes'], exp),
                 {'kind': 'sc-notify'}, impl['notes'])


def churn_watchers(case):
    """[(name, left?)] per watcher, from the commands"""
    ws = []
    for c in case['cmds']:
        p = c.split(':')
        if p[0] == 'j':
            ws.append([int(p[1]), False])
        elif p[0] == 'l' and int(p[1]) < len(ws):
            ws[int(p[1])][1] = True
    return ws


def churn_poll_lines(case):
    """per ServiceCheck: the subscribe / unsubscribe / settle sequence of its watchers, for the model"""
    reg = registry(case['cfg'])
    lines = []
    for i, spec in enumerate(case['checks']):
        if 'status' in spec:
            continue
        ws, started, words = [], [], []
        for c in case['cmds']:
            p = c.split(':')
            if p[0] == 'j':
                ws.append(int(p[1]))
                started.append(False)
                if i in reg.get(int(p[1]), ()):
                    words.append('j')
                    started[-1] = True
            elif p[0] == 'l' and int(p[1]) < len(ws) and started[int(p[1])]:
                started[int(p[1])] = False
                words.append('l')
            elif p[0] in 'qt':
                words.append('q')
        words.append('q')
        lines.append((i, 'poll ' + ' '.join(words)))
    return lines


def oracle_churn(res, case, out):
    reg = registry(case['cfg'])
    final = []
    for spec in case['checks']:
        if 'status' in spec:
            final.append(spec['status'])
        else:
            last = spec['phases'][-1][1]
            final.append(0 if last == 'H' else value_after('ret' if last != 'R' else 'raise', last))
    for k, ((name, gone), sent) in enumerate(zip(churn_watchers(case), out['sent'])):
        if gone:
            continue
        if out['state_live'][k] != 'pending':
            fail(res, case, 'live watcher %d is over: %s' % (k, out['state_live'][k]), {'kind': 'watch-died'}, out['ends'])
            continue
        if not sent:
            fail(res, case, 'watcher %d received nothing' % k, {'kind': 'watch-no-first'}, out['sent'])
            continue
        cur = expect_watch_status(case['cfg'], final, name)
        if sent[-1] != cur:
            fail(res, case, 'missed update: watcher %d (joined while/after others left) last got %d; the check functions '
                 'have returned results aggregating to %d for longer than check_ttl + check_timeout'
                 % (k, sent[-1], cur), {'kind': 'watch-missed-update'}, {'sent': out['sent'], 'logs': out['logs']})
    for k, e in enumerate(out['ends']):
        if e.startswith('exc'):
            fail(res, case, "Watch's cleanup raised %s (watcher %d)" % (e[4:], k),
                 {'kind': 'watch-cleanup-error', 'exc': e[4:]}, out['ends'])
        elif e == 'pending':
            fail(res, case, 'watcher %d never finished after it was cancelled' % k, {'kind': 'unsubscribe-hang'}, out['ends'])
    errs = [r for r in out['server_errors'] if r[2] not in (None, 'CancelledError')]
    if errs:
        fail(res, case, 'the server logged %r' % (errs[:2],), {'kind': 'watch-cleanup-error', 'exc': errs[0][2]}, errs)
    if out['left_events'] or out['left_polls']:
        fail(res, case, 'after all watchers left: %r events still subscribed, %r checks still polled'
             % (out['left_events'], out['left_polls']), {'kind': 'unsubscribe-leak'}, None)
    for m in out['max_active']:
        if m is not None and m > 1:
            fail(res, case, 'the check function ran concurrently with itself', {'kind': 'sc-concurrent'}, out['logs'])
    # somebody subscribed for the whole tail => the function was polled during it
    subscribed = set()
    for (name, gone) in churn_watchers(case):
        if not gone:
            subscribed |= set(reg.get(name, ()))
    for i, spec in enumerate(case['checks']):
        if 'ttl' in spec and i in subscribed:
            recent = [r for r in out['logs'][i] if r[0] >= out['now'] - (spec['ttl'] + spec['tmo'] + 4)]
            if not recent:
                fail(res, case, 'check %d has a subscriber but its function was not run during the last check_ttl + '
                     'check_timeout' % i, {'kind': 'poll-dead'}, out['logs'][i][-3:])


def oracle_sce2e(res, case, out):
    cvs = []
    for i, spec in enumerate(case['checks']):
        if 'status' in spec:
            cvs.append(None)
            continue
        log = out['logs'][i]
        oracle_invocations(res, case, log, spec['script'], spec['ttl'], spec['tmo'], out['max_active'][i])
        cvs.append(completed_values(log, spec['script'], spec['tmo']))

    def vals_at(t):
        vs = []
        for i, spec in enumerate(case['checks']):
            if 'status' in spec:
                v = spec['status']
                for (ts, ci, x) in out['sets']:
                    if ci == i and ts <= t:
                        v = x
                vs.append(v)
            else:
                vs.append(value_at(cvs[i], t))
        return vs

    def candidates(t, name):
        """every aggregate the service had during instant t"""
        per = []
        for i, spec in enumerate(case['checks']):
            if 'status' in spec:
                per.append({vals_at(t - 1)[i], vals_at(t)[i]} | {x for (ts, ci, x) in out['sets'] if ci == i and ts == t})
            else:
                per.append(values_at(cvs[i], t))
        return {expect_watch_status(case['cfg'], list(vs), name) for vs in itertools.product(*per)}

    def check_candidates(t, name):
        per = []
        for i, spec in enumerate(case['checks']):
            if 'status' in spec:
                per.append({vals_at(t - 1)[i], vals_at(t)[i]} | {x for (ts, ci, x) in out['sets'] if ci == i and ts == t})
            else:
                per.append(values_at(cvs[i], t))
        return {expect_check(case['cfg'], list(vs), name) for vs in itertools.product(*per)}
    reg = registry(case['cfg'])
    for c in out['calls']:
        r = c['res']
        if r[0] == 'cancelled':
            continue
        if r[0] == 'pending' or c['t1'] is None:
            fail(res, case, 'Check call never answered', {'kind': 'check-hang'}, c)
            continue
        if r[0] == 'exc':
            fail(res, case, 'Check call failed with ' + r[1], {'kind': 'check-exc', 'exc': r[1]}, c)
            continue
        exp = check_candidates(c['t1'], c['name'])
        if tuple(r) not in exp:
            fail(res, case, 'Check answered %r at t=%d, the checks say %r' % (r, c['t1'], exp),
                 {'kind': 'check-wrong'}, {'call': c, 'logs': out['logs']})
        if c['name'] in reg:
            # every check of the service is (re)evaluated for each answer: visited at some instant in [t0, t1], a
            # ServiceCheck either had a completed run younger than its check_ttl, or a run in flight, or it ran
            for i in sorted(reg[c['name']]):
                spec = case['checks'][i]
                if 'ttl' not in spec:
                    continue
                seen = any((c['t0'] <= s0 <= c['t1']) or e0 is None or e0 > c['t0'] - spec['ttl']
                           for s0, e0, _ in out['logs'][i])
                if not seen:
                    fail(res, case, 'Check(%d) answered at t=%d without evaluating check %d: its function was neither run '
                         'during the call [%d, %d] nor is there a result younger than check_ttl=%d'
                         % (c['name'], c['t1'], i, c['t0'], c['t1'], spec['ttl']),
                         {'kind': 'check-not-evaluated'}, {'call': c, 'log': out['logs'][i][-4:]})
            budget = sum(case['checks'][i].get('tmo', 0) for i in reg[c['name']])
            if c['t1'] - c['t0'] > budget:
                fail(res, case, 'Check took %d ticks, the timeouts of its checks add up to %d' % (c['t1'] - c['t0'], budget),
                     {'kind': 'check-blocked'}, c)
    for w in out['watches']:
        got = w['got']
        if not got:
            fail(res, case, 'Watch delivered nothing', {'kind': 'watch-no-first'}, w)
            continue
        exp0 = candidates(w['t0'], w['name'])
        if got[0][0] not in exp0 or got[0][1] != w['t0']:
            fail(res, case, 'first Watch message %r, status at subscription (t=%d) %r' % (got[0], w['t0'], sorted(exp0)),
                 {'kind': 'watch-first'}, w)
        for s, t in got:
            # sent at t: the aggregate at t (values change only at instants in the logs)
            cand = candidates(t, w['name'])
            if s not in cand:
                fail(res, case, 'Watch delivered %d at t=%d, aggregate then %r' % (s, t, sorted(cand)),
                     {'kind': 'watch-untruthful'}, w)
        if w['t1'] is None:
            cur = expect_watch_status(case['cfg'], vals_at(case['horizon']), w['name'])
            if got[-1][0] != cur:
                fail(res, case, 'missed update: last delivered %d, current %d' % (got[-1][0], cur),
                     {'kind': 'watch-missed-update'}, {'watch': w, 'logs': out['logs']})
    if out['left_events'] or out['left_polls']:
        fail(res, case, 'after all watchers left: %r events still subscribed, %r poll tasks'
             % (out['left_events'], out['left_polls']), {'kind': 'unsubscribe-leak'}, None)


# ---- one case through implementation, model, oracle ------------------------------------------------------

def parse_watch_model(line):
    snaps, rest = line.split(' = ')
    sent_w, idle, quiet = rest.rsplit(' ', 2)
    sent = []
    for item in sent_w.split(';'):
        if not item:
            continue
        k, codes = item.split(':')
        sent.append([int(x) for x in codes.split(',') if x != ''])
    snaps = [[(int(x.split('.')[2]), x.split('.')[1]) for x in s.split(',') if x] for s in snaps.split('|')]
    return snaps, sent, idle, quiet


def run_cases(ctx, res, cases):
    lines, index = [], []
    for i, c in enumerate(cases):
        if c['op'] == 'check':
            for ln in check_lines(c):
                index.append(i)
                lines.append(ln)
        elif c['op'] == 'churn':
            for _, ln in churn_poll_lines(c):
                index.append(i)
                lines.append(ln)
        else:
            ln = model_line(c)
            if ln is not None:
                index.append(i)
                lines.append(ln)
    answers = {}
    if ctx.model_ok and lines:
        for i, a in zip(index, ctx.model(lines)):
            answers.setdefault(i, []).append(a)
    for i, c in enumerate(cases):
        res.evaluations += 1
        res.count('kind:' + c['op'] + (':' + c['rig'] if 'rig' in c else ''))
        m = answers.get(i)
        try:
            run_one(res, c, m)
        except I.Livelock as e:
            fail(res, c, 'the event loop never becomes idle again (busy loop / flood): %s' % e, {'kind': 'livelock'})
        except Exception as e:      # the rig itself broke: report, do not hide
            import traceback
            res.disagreements.append({'case': c, 'model': m, 'impl': 'rig raised: ' + traceback.format_exc()[-600:]})


def differ(res, case, model, impl):
    res.disagreements.append({'case': case, 'model': model, 'impl': impl})


def run_one(res, c, m):
    op = c['op']
    if op == 'agg':
        codes = c['vals']
        impl = I.impl_agg(codes)
        res.signatures.add(('agg', tuple(codes)))
        res.count('agg:len=%d' % min(len(codes), 7))
        res.count('agg:resp=%d' % impl)
        if m is not None:
            res.traces += 1
            if int(m[0]) != impl:
                differ(res, c, m[0], impl)
        if codes and impl != expect_agg(codes):
            fail(res, c, '_status(%r) = %d, expected %d' % (codes, impl, expect_agg(codes)), {'kind': 'aggregate'}, impl)
    elif op == 'reset':
        impl, keys = I.impl_reset(c['slots'])
        res.signatures.add(('reset', tuple(c['slots'])))
        if impl is None:
            res.count('reset:unobservable (no separate re-arm helper found)')
            return
        res.count('reset')
        if m is not None:
            res.traces += 1
            mm = [w[:2] for w in m[0].split()]
            if mm != impl or not keys:
                differ(res, c, mm, impl)
        for s, o in zip(c['slots'], impl):
            done = s[1] in '-DC'
            if (o[1] == '1') != done:
                fail(res, c, '_reset_waits: slot %s %s' % (s, 'kept a finished wait' if done else 'replaced a pending wait'),
                     {'kind': 'reset-renew'}, impl)
            if done and o[0] != '0':
                fail(res, c, '_reset_waits: event of a finished wait not cleared', {'kind': 'reset-clear'}, impl)
            if not done and o[0] != s[0]:
                fail(res, c, '_reset_waits: touched the event of a pending wait', {'kind': 'reset-clear'}, impl)
    elif op == 'check':
        impl = I.impl_check_e2e(c['cfg'], c['vals'], c['names'])
        res.signatures.add(('check', cfg_word(c['cfg']), tuple(c['vals'])))
        for j, (n, r) in enumerate(zip(c['names'], impl)):
            res.count('check:' + ':'.join(map(str, r)))
            if m is not None:
                res.traces += 1
                if m[j] != ' '.join(map(str, r)):
                    differ(res, dict(c, names=[n]), m[j], r)
            exp = expect_check(c['cfg'], c['vals'], n)
            if tuple(r) != exp:
                fail(res, dict(c, names=[n]), 'Check(%d) answered %r, expected %r' % (n, r, exp),
                     {'kind': 'check-wrong'}, r)
    elif op == 'watch':
        if c['rig'] == 'direct':
            snaps, sent, left, errors = I.impl_watch_direct(c['cfg'], c['vals'], c['cmds'])
            blocked = set(k for k, (n, pc) in enumerate(snaps[-1]) if pc == 'S') if snaps else set()
        else:
            sent, ends, left = I.impl_watch_e2e(c['cfg'], c['vals'], c['cmds'], c.get('delays'))
            snaps, errors, blocked = None, [e for e in ends if e not in (None, 'cancelled')], set()
        nset = sum(1 for x in c['cmds'] if x[0] == 's')
        res.signatures.add(('watch', c['rig'], cfg_word(c['cfg']), tuple(c['vals']), tuple(c['cmds'])))
        res.count('watch:%s:sets=%s' % (c['rig'], '0' if not nset else '1-3' if nset < 4 else '4+'))
        res.count('watch:%s:messages' % c['rig'], sum(len(s) for s in sent))
        if any(x[0] == 'c' for x in c['cmds']):
            res.count('watch:%s:with-unsubscribe' % c['rig'])
        if any(x.startswith('w:') and x.endswith(':1') for x in c['cmds']):
            res.count('watch:direct:with-blocked-send')
        if m is not None:
            res.traces += 1
            msnaps, msent, idle, quiet = parse_watch_model(m[0])
            gone = set(int(x[2:]) for x in c['cmds'] if x[0] == 'c')
            if c['rig'] == 'e2e':
                # a late reader that cancels drops what it has not read yet: prefix only
                same = len(msent) == len(sent) and all(
                    (a[:len(b)] == b) if k in gone else (a == b) for k, (a, b) in enumerate(zip(msent, sent)))
            else:
                same = msent == sent
            if not same:
                differ(res, c, {'sent': msent}, {'sent': sent})
            elif snaps is not None:
                # message counts after every command, and who is blocked in send_message
                a = [[n for n, _ in s if n] for s in snaps]
                b = [[n for n, _ in s] for s in msnaps]
                idlers = set(k for s in msnaps for k, (_, pc) in enumerate(s) if pc == 'I')
                bl_i = [[k for k, (n, pc) in enumerate(s) if pc == 'S' and n and k not in idlers] for s in snaps]
                bl_m = [[k for k, (_, pc) in enumerate(s) if pc == 'S'] for s in msnaps]
                if a != b or bl_i != bl_m:
                    differ(res, c, {'counts': b, 'blocked': bl_m}, {'counts': a, 'blocked': bl_i})
            if idle != 'idle' or (quiet != '1' and not blocked):
                differ(res, c, 'model not quiescent at the end: %s %s' % (idle, quiet), 'implementation quiescent')
        oracle_watch(res, c, sent, blocked)
        if left:
            fail(res, c, '%d events still subscribed after every watcher was cancelled' % left,
                 {'kind': 'unsubscribe-leak'}, left)
        if errors:
            fail(res, c, 'Watch handler failed: %r' % errors[:2], {'kind': 'watch-error'}, errors)
    elif op == 'sc':
        impl = I.impl_sc(c['ttl'], c['tmo'], c['horizon'], [tuple(x) for x in c['script']], c['events'])
        res.signatures.add(('sc', c['ttl'], c['tmo'], tuple(map(tuple, c['script'][:len(impl['log'])])),
                            tuple(map(tuple, c['events']))))
        for s, e, how in impl['log']:
            res.count('sc:run:' + ('timeout' if how == 'cancelled' and e == s + c['tmo'] else str(how)))
        for o in impl['callers']:
            res.count('sc:caller:' + o.split(':')[0])
        if c['tmo'] <= 0:
            res.count('sc:check_timeout<=0')
        if any(impl['callers'][i].startswith('ret') for i in impl['cancelled_pending']):
            res.count('sc:cancel-swallowed-by-timeout')
        if m is not None:
            res.traces += 1
            mm = dict(kv.split('=', 1) for kv in m[0].split())
            mlog = []
            for item in [x for x in mm['log'].split(',') if x]:
                s, e, h = item.split(':')
                res.count('sc:model-branch:' + h)
                mlog.append((int(s), int(e), 'raise' if h == 'retR' else 'ret' if h.startswith('ret') else 'cancelled'))
            if mm['inflight'] != '-':
                mlog.append((int(mm['inflight']), None, None))
            view_m = {'value': int(mm['v']), 'callers': [x for x in mm['callers'].split(',') if x],
                      'log': mlog,
                      'notes': [tuple(map(int, x.split(':'))) for x in mm['notes'].split(',') if x]}
            view_i = {k: impl[k] for k in view_m}
            view_i['log'] = [tuple(x) for x in impl['log']]
            if impl['notes'] is None:
                del view_m['notes'], view_i['notes']
                res.count('sc:notifications-unobservable')
            else:
                view_i['notes'] = [tuple(x) for x in impl['notes']]
            view_m['callers'] = ['pending' if x in ('wait', 'woken', 'run', 'run!') else x for x in view_m['callers']]
            if view_m != view_i:
                differ(res, c, view_m, view_i)
        oracle_sc(res, c, impl)
    elif op == 'unsub':
        out = I.impl_unsub(c['ttl'], c['tmo'], [tuple(x) for x in c['script']], c['cancel_at'], c['horizon'],
                           c.get('armed_first', True))
        res.signatures.add(('unsub', c['ttl'], c['tmo'], tuple(map(tuple, c['script'][:4])), c['cancel_at'],
                            c.get('armed_first', True)))
        res.count('unsub:handler:' + out['handler'])
        late = [r for r in out['log'] if r[0] > c['cancel_at']]
        if out['handler'] == 'pending' or late or out['subscribed'] or out['live_pollers']:
            fail(res, c, 'after the only watcher was cancelled at t=%d: handler %s, %d later runs of the function, '
                 '%d events subscribed' % (c['cancel_at'], out['handler'], len(late), out['subscribed']),
                 {'kind': 'unsubscribe-hang'}, out)
        if out['max_active'] > 1:
            fail(res, c, 'the check function ran concurrently with itself', {'kind': 'sc-concurrent'}, out)
    elif op == 'churn':
        out = I.impl_churn(c)
        res.signatures.add(('churn', c['rig'], repr(c['checks'])[:300], tuple(c['cmds'])))
        res.count('churn:%s' % c['rig'])
        res.count('churn:watchers', len(out['sent']))
        cm = c['cmds']
        for a, b2, c3 in zip(cm, cm[1:] + [''], cm[2:] + ['', '']):
            if a[0] == 'l' and (b2[:1] == 'j' or (b2[:1] == 'i' and c3[:1] == 'j')):
                res.count('churn:leave-then-join-within-%s' % ('0' if b2[:1] == 'j' else b2[2:] + '-iterations'))
        if m is not None:
            sc_ids = [i for i, spec in enumerate(c['checks']) if 'status' not in spec]
            for i, line in zip(sc_ids, m):
                res.traces += 1
                mm = [(int(sn.split(',')[0]), int(sn.split(',')[2])) for sn in line.split('|')]
                ii = [tuple(sn[i]) for sn in out['snaps']]
                if any(x[0] is None for x in ii):
                    mm, ii = [x[1] for x in mm], [x[1] for x in ii]
                    res.count('churn:subscriber-count-unobservable')
                errs = [sn.split(',')[4] for sn in line.split('|')]
                if mm != ii or '1' in errs:
                    differ(res, c, {'check': i, '(subscribers, live pollers) at idle points': mm},
                           {'check': i, '(subscribers, live pollers) at idle points': ii})
        oracle_churn(res, c, out)
    elif op == 'sce2e':
        out = I.impl_sc_e2e(c)
        res.signatures.add(('sce2e', repr(c['checks'])[:200], tuple(map(tuple, c['events']))))
        res.count('sce2e:check-calls', len(out['calls']))
        res.count('sce2e:watchers', len(out['watches']))
        res.count('sce2e:function-runs', sum(len(x) for x in out['logs'] if x))
        oracle_sce2e(res, c, out)
    res.sample(c, limit=8)


# ---- driver ----------------------------------------------------------------------------------------------

def unjson(case):
    """undo JSON: tuples became lists (fine), dict keys are strings (delays already are)"""
    return case


def run(ctx):
    res = Result()
    rng = ctx.rng
    res.rule = ('agg: ALL lists over {True,False,None} of length 1..6 (exhaustive, through Health.Check) + PRNG lists up to 14; reset: ALL '
                '(flag, wait-state) pairs for 1..2 events + PRNG longer; check: PRNG Health configs (0..4 services, '
                'explicit / implicit OVERALL, empty lists, duplicates) x status assignments x every registered name, '
                'OVERALL and an unregistered name, over a real client stub; watch: PRNG schedules of set bursts, loop '
                'iterations, new watchers, blocked send_message + release, cancel, on a fake stream (compared after '
                'every command) and over a real client stub with late readers; sc: PRNG check_ttl / check_timeout, '
                'function scripts (no suspension, sleep 0, around the timeout, never ending; True/False/None/non-bool/'
                'raise), call / cancel / pre-armed cancel events on boundary instants; sce2e: the same behind '
                'Health.Check / Watch (oracle only). distinct = distinct full case; non-trivial = every case (each has '
                '>= 1 operation on the implementation)')
    cases = [unjson(c) for c in ctx.corpus()]
    # exhaustive small truth table
    kmax = 6
    for n in range(1, kmax + 1):
        for t in itertools.product([1, 0, 2], repeat=n):
            cases.append({'op': 'agg', 'vals': list(t)})
    for _ in range(ctx.n(300, 5000)):
        cases.append({'op': 'agg', 'vals': gen_vals(rng, rng.choice([7, 8, 10, 14]))})
    slots = [f + w for f in '01' for w in '-NBKDC']
    for a in slots:
        cases.append({'op': 'reset', 'slots': [a]})
    for a in slots:
        for b in slots:
            cases.append({'op': 'reset', 'slots': [a, b]})
    for _ in range(ctx.n(30, 500)):
        cases.append({'op': 'reset', 'slots': [rng.choice(slots) for _ in range(rng.choice([3, 4, 6]))]})
    for _ in range(ctx.n(200, 4000)):
        cases.append(gen_check(rng))
    for _ in range(ctx.n(2000, 50000)):
        cases.append(gen_watch(rng, 'direct'))
    for _ in range(ctx.n(300, 6000)):
        cases.append(gen_watch(rng, 'e2e'))
    for _ in range(ctx.n(3000, 80000)):
        cases.append(gen_sc(rng))
    for _ in range(ctx.n(800, 20000)):
        cases.append(gen_sc_history(rng))
    for _ in range(ctx.n(200, 5000)):
        cases.append(gen_sce2e(rng))
    for _ in range(ctx.n(400, 8000)):
        cases.append(gen_check_rows(rng))
    for _ in range(ctx.n(150, 3000)):
        cases.append(gen_unsub(rng))
    for _ in range(ctx.n(600, 12000)):
        cases.append(gen_churn(rng, 'direct'))
    for _ in range(ctx.n(200, 4000)):
        cases.append(gen_churn(rng, 'e2e'))
    run_cases(ctx, res, cases)
    res.exhaustive = False
    res.extra['exhaustive_parts'] = ['agg: all lists of length <= %d' % kmax, 'reset: all 1- and 2-event inputs']
    return res


def replay(ctx, case):
    res = Result()
    run_cases(ctx, res, [unjson(case)])
    return res
