"""Small reusable pieces for driving the real grpclib objects: a raw-bytes codec, a service built
from plain coroutine functions, canonical exception names."""
import asyncio

from grpclib.const import Cardinality, Handler, Status
from grpclib.encoding.base import CodecBase
from grpclib.exceptions import GRPCError, ProtocolError, StreamTerminatedError


class RawCodec(CodecBase):
    """Messages are opaque byte strings (the property statements are about bytes on the wire)."""
    __content_subtype__ = 'proto'

    def encode(self, message, message_type):
        if not isinstance(message, (bytes, bytearray)):
            raise TypeError('bytes expected')
        return bytes(message)

    def decode(self, data, message_type):
        return bytes(data)


CARDS = {
    'UU': Cardinality.UNARY_UNARY, 'US': Cardinality.UNARY_STREAM,
    'SU': Cardinality.STREAM_UNARY, 'SS': Cardinality.STREAM_STREAM,
}


class Service:
    """Service(name, {'Method': (func, 'UU')}) -- func(stream) is the handler coroutine."""

    def __init__(self, name, methods):
        self._name = name
        self._methods = methods

    def __mapping__(self):
        return {'/%s/%s' % (self._name, m): Handler(f, CARDS[c], bytes, bytes)
                for m, (f, c) in self._methods.items()}


def exc_name(e):
    """Small canonical enum for exceptions (never message text)."""
    if e is None:
        return 'ok'
    if isinstance(e, GRPCError):
        return 'GRPCError:%s' % e.status.name
    if isinstance(e, StreamTerminatedError):
        return 'StreamTerminated'
    if isinstance(e, ProtocolError):
        return 'ProtocolError'
    if isinstance(e, asyncio.TimeoutError):
        return 'Timeout'
    if isinstance(e, asyncio.CancelledError):
        return 'Cancelled'
    if isinstance(e, AssertionError):
        return 'AssertionError'
    return type(e).__name__


def cps(s):
    """Python str -> the 'code point string' of the model protocol"""
    return ','.join(str(ord(c)) for c in s) if s else '-'


def uncps(w):
    return '' if w == '-' else ''.join(chr(int(t)) for t in w.split(','))


def hx(b):
    return bytes(b).hex() if b else '-'


def unhx(w):
    return b'' if w == '-' else bytes.fromhex(w)
