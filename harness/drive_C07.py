"""C07 -- senders respect the peer's flow control and always resume when credit returns.

Correspondence of coq/Model/FlowSend.v with the real grpclib.protocol.Stream.send_data (1..4 concurrent
tasks, client side and server side, through protocol.Stream.send_data and through the public
send_message) against a strict h2 peer that never re-credits on its own, on the virtual-time loop; and
the direct oracle (the statement of C07 on what the peer saw)."""
import logging
import time

from harness.core import Result
from harness import c07_util as U

PROPERTY = 'C07'
THEOREM_FILES = ['Props/C07.v']
ALLOWED_AXIOMS = []
LABEL = ('full on the model (all N, sizes, windows, interleavings); h2 outbound accounting and '
         'asyncio.Event are modelled, tied by the correspondence runs only')
TRUSTED = ['modelled, not verified: hyper-h2 outbound flow-control accounting (stream/connection windows, '
           'INITIAL_WINDOW_SIZE delta, max_outbound_frame_size, checks of send_data), asyncio.Event '
           '(set wakes the current waiters, clear only resets the flag, wait returns at once when set), '
           'FIFO ready queue of the event loop, BytesIO.read',
           'harness/c07_util.py: wiring copied from wire.ClientEnd/ServerEnd with a peer that does not '
           're-credit (auto_ack=False), a transport that can call pause_writing() from inside write()']
ASSUMPTIONS = ['every sending stream is registered in EventsProcessor.streams (a released stream is not woken; '
               'out of scope here) and stays open',
               'the peer obeys HTTP/2 (increments 1..2^31-1 without overflow, MAX_FRAME_SIZE in '
               '16384..2^24-1): otherwise h2 raises and grpclib closes the connection (model: `broken`)',
               'one send_data per stream at a time',
               'Connection.resume_writing flushes what h2 has queued: no DATA frame of a sender is queued then '
               '(send_data writes each frame at once: C07_source_send_data_facts (b); the correspondence '
               'reports DATA frames arriving outside a run); frames of other code paths (reset_nowait RST) are '
               'not flow-controlled and outside this model; the connection is not closing']

MAXW = 2 ** 31 - 1
LENS = [0, 0, 1, 1, 2, 5, 17, 100, 100, 1000, 5000, 16383, 16384, 16385, 40000, 65535, 65536, 100000, 200000]
IW0 = [0, 1, 5, 100, 1000, 16384, 65535, 65535, 65535, 1 << 20]
CW0 = [0, 1, 10, 1000, 20000, 65535, 65535, 65535, 100000, 1 << 20]
MF = [16384, 16384, 16384, 16385, 32768, 1 << 20, 16777215]
INC = [1, 1, 1, 2, 5, 10, 100, 1000, 16384, 65535, 1 << 20]
IWV = [0, 0, 1, 3, 10, 100, 16384, 65535, 65535, 1 << 20]


# ---- generation ---------------------------------------------------------------------------------

def gen_case(rng):
    n = rng.choice([1, 1, 2, 2, 2, 3, 3, 4])
    api = 'data' if rng.random() < 0.7 else 'message'
    small = rng.random() < 0.5           # small messages against tiny windows / large against real ones
    lens = [rng.choice(LENS[:9] if small else LENS) for _ in range(n)]
    case = {'side': rng.choice(['client', 'server']), 'api': api, 'lens': lens,
            'iw0': rng.choice(IW0[:5] if small and rng.random() < 0.7 else IW0),
            'cw0': rng.choice(CW0[:4] if small and rng.random() < 0.5 else CW0),
            'mf0': rng.choice(MF), 'ops': []}
    led = Ledger(case)
    ops = case['ops']
    if rng.random() < 0.15:
        ops.append(['p'])                # the senders start on a paused transport
    if rng.random() < 0.8:
        ops.append(quiesce(rng))
    for _ in range(rng.choice([3, 5, 8, 12, 20])):
        r = rng.random()
        if led.resets < U.NVICTIMS and rng.random() < 0.12:
            # the class "another call is cancelled while the transport is paused, the resume re-pauses
            # from inside its flush write, then credit returns"
            seq = ([] if led.paused and rng.random() < 0.8 else [['p']]) + [['rst']]
            if rng.random() < 0.3:
                seq.append(quiesce(rng))
            seq.append(['rp'] if rng.random() < 0.8 else ['r'])
            grant = rng.choice([['ws', rng.randrange(n), rng.choice(INC[4:])], ['wc', rng.choice(INC[4:])],
                                ['iw', rng.choice(IWV[5:])]])
            if led.valid(grant):
                seq.append(grant)
            seq.append(quiesce(rng))
            for o in seq:
                led.apply(o)
                ops.append(o)
            continue
        if rng.random() < 0.10:
            # the class "senders parked without stream credit, then the credit comes back in ONE read made
            # of several frames / in a SETTINGS frame that carries other settings too"
            big = rng.choice([65535, 1 << 20])
            i = rng.randrange(n)
            kind = rng.random()
            if kind < 0.35:
                frames = [['ws', i, rng.choice([60, 1000, big])], ['ws', i, rng.choice([90, big])]]
            elif kind < 0.5:
                frames = [['ws', i, big], ['wc', rng.choice(INC)]]
                rng.shuffle(frames)
            elif kind < 0.8:
                items = [['iw', big]] + rng.sample([['mcs', 100], ['mf', rng.choice(MF)], ['unk', 7]],
                                                   rng.choice([1, 2, 3]))
                rng.shuffle(items)
                frames = [['st', items]]
            else:
                items = [['mcs', rng.choice([1, 100])], ['iw', big]]
                rng.shuffle(items)
                frames = [['st', items], ['wc', rng.choice(INC)]]
                rng.shuffle(frames)
            seq = [['r'], ['iw', rng.choice([0, 0, 1])], ['q'],
                   frames[0] if len(frames) == 1 else ['b', frames], ['q']]
            if all(led.valid(o) for o in seq[1:2]):
                led.apply(seq[1])
                if led.valid(seq[3]):
                    led.apply(['r'])
                    led.apply(seq[3])
                    ops.extend(seq)
                    continue
        if rng.random() < 0.08:
            # the class "back-pressure arrives while senders wait for credit; the credit comes back while the
            # transport is still paused": they must stay suspended until resume_writing
            big = rng.choice([16384, 65535, 1 << 20])
            grant = rng.choice([[['ws', j, big] for j in range(n)] + [['wc', big]],
                                [['iw', big], ['wc', big]],
                                [['st', [['iw', big], ['mcs', 100]]], ['wc', big]]])
            rng.shuffle(grant)
            seq = [['r'], ['iw', 0], ['q'], ['p']]
            seq += [['b', grant]] if rng.random() < 0.5 else grant
            seq += [['q'], ['r'], ['q']]
            led2_ok = True
            for o in seq:
                if not led.valid(o):
                    led2_ok = False
                    break
                led.apply(o)
                ops.append(o)
            if led2_ok:
                continue
        if rng.random() < 0.22:
            op = gen_batch(rng, n) if rng.random() < 0.7 else gen_settings(rng)
        elif r < 0.03 and led.resets < U.NVICTIMS:
            op = ['rst']
        elif r < 0.06:
            op = ['rp']
        elif r < 0.22:
            op = ['ws', rng.randrange(n), rng.choice(INC)]
        elif r < 0.42:
            op = ['wc', rng.choice(INC)]
        elif r < 0.60:
            op = ['iw', rng.choice(IWV)]
        elif r < 0.67:
            op = ['mf', rng.choice(MF)]
        elif r < 0.80:
            op = ['p']
        elif r < 0.86 and led.paused:
            # resume immediately followed by pause: the woken senders run while paused
            ops.append(['r'])
            op = ['p']
        else:
            op = ['r']
        if not led.valid(op):
            continue
        led.apply(op)
        ops.append(op)
        if rng.random() < 0.65:
            ops.append(quiesce(rng))
    if rng.random() < 0.8:
        # the peer finally grants everything: every sender must complete
        ops.append(['r'])
        big = 1 << 22
        if led.valid(['iw', big]) and rng.random() < 0.5:
            ops.append(['iw', big])
            led.apply(['iw', big])
        else:
            for i in range(n):
                if led.valid(['ws', i, big]):
                    ops.append(['ws', i, big])
                    led.apply(['ws', i, big])
        if led.valid(['wc', big]):
            ops.append(['wc', big])
        ops.append(['q'])
        case['final_grant'] = True
    elif ops[-1][0] not in ('q', 'qp'):
        ops.append(['q'])
    return case


def gen_settings(rng):
    """ONE SETTINGS frame: INITIAL_WINDOW_SIZE combined with MAX_CONCURRENT_STREAMS / MAX_FRAME_SIZE /
    an unknown id, in any order (sometimes without INITIAL_WINDOW_SIZE)"""
    items = []
    if rng.random() < 0.85:
        items.append(('iw', rng.choice(IWV)))
    if rng.random() < 0.6:
        items.append(('mcs', rng.choice([1, 2, 100, 2 ** 31 - 1])))
    if rng.random() < 0.4:
        items.append(('mf', rng.choice(MF)))
    if rng.random() < 0.3:
        items.append(('unk', rng.choice([0, 1, 12345])))
    if not items:
        items.append(('mcs', 100))
    rng.shuffle(items)
    return ['st', [list(it) for it in items]]


def gen_frame(rng, n):
    r = rng.random()
    if r < 0.4:
        return ['ws', rng.randrange(n), rng.choice(INC)]
    if r < 0.65:
        return ['wc', rng.choice(INC)]
    if r < 0.8:
        return ['iw', rng.choice(IWV)]
    if r < 0.85:
        return ['mf', rng.choice(MF)]
    return gen_settings(rng)


def gen_batch(rng, n):
    """several peer frames in ONE read; repeated updates of the same stream are frequent"""
    k = rng.choice([2, 2, 2, 3, 4])
    frames = [gen_frame(rng, n)]
    while len(frames) < k:
        if frames[-1][0] == 'ws' and rng.random() < 0.5:
            frames.append(['ws', frames[-1][1], rng.choice(INC)])      # same stream again
        else:
            frames.append(gen_frame(rng, n))
    return ['b', frames]


def quiesce(rng):
    return ['qp', rng.choice([1, 1, 2, 3, 5])] if rng.random() < 0.2 else ['q']


# ---- the peer's own books (independent of h2 and of the model) ----------------------------------

class Ledger:
    """What the peer has advertised minus what it has received.  Upper bounds only: the books are not
    decremented here by data the generator cannot foresee, which keeps `valid` conservative."""

    def __init__(self, case):
        self.n = len(case['lens'])
        self.sw = [case['iw0']] * self.n
        self.cw = case['cw0']
        self.iw = case['iw0']
        self.mf = case['mf0']
        self.paused = False
        self.resets = 0
        self.hq = False          # (generation bias only) h2 may hold a queued RST_STREAM

    def valid(self, op):
        t = op[0]
        if t == 'b':
            import copy
            led = copy.deepcopy(self)
            for sub in op[1]:
                if not led.valid(sub):
                    return False
                led.apply(sub)
            return True
        if t == 'st':
            return all(self.valid([k, v]) for k, v in op[1] if k in ('iw', 'mf'))
        if t == 'ws':
            return 1 <= op[2] <= MAXW and self.sw[op[1]] + op[2] <= MAXW
        if t == 'wc':
            return 1 <= op[1] <= MAXW and self.cw + op[1] <= MAXW
        if t == 'iw':
            return 0 <= op[1] <= MAXW and all(w + op[1] - self.iw <= MAXW for w in self.sw)
        if t == 'mf':
            return 16384 <= op[1] <= 16777215
        return True

    def apply(self, op):
        t = op[0]
        if t == 'b':
            for sub in op[1]:
                self.apply(sub)
            return
        if t == 'st':
            for k, v in op[1]:
                if k in ('iw', 'mf'):
                    self.apply([k, v])
            self.hq = False
            return
        if t == 'ws':
            self.sw[op[1]] += op[2]
        elif t == 'wc':
            self.cw += op[1]
        elif t == 'iw':
            d = op[1] - self.iw
            self.sw = [w + d for w in self.sw]
            self.iw = op[1]
        elif t == 'mf':
            self.mf = op[1]
        elif t == 'p':
            self.paused = True
        elif t == 'r':
            self.paused = False
            self.hq = False
        elif t == 'rst':
            self.resets += 1
            self.hq = self.paused
        elif t == 'rp':
            if self.paused:
                self.paused = self.hq
                self.hq = False
        if t in ('ws', 'wc', 'iw', 'mf'):
            self.hq = False

    def data(self, i, size):
        self.sw[i] -= size
        self.cw -= size


# ---- model side ---------------------------------------------------------------------------------

def model_line(case):
    wl = [ln + 5 if case.get('api') == 'message' else ln for ln in case['lens']]
    w = [str(len(wl))]
    for ln in wl:
        w += [str(ln), str(case['iw0'])]
    w += [str(case['cw0']), str(case['iw0']), str(case['mf0'])]
    for op in case['ops']:
        w += model_tokens(op)
    return ' '.join(w)


def model_tokens(op):
    """the model's ops are per frame (h2 emits one event per frame); a batch is the sequence of its frames:
    no sender runs in between, wake-ups are idempotent, so 'all window changes, then all wake-ups' (what
    h2 + grpclib do for one read) and 'frame by frame' reach the same state"""
    if op[0] == 'b':
        return [tk for sub in op[1] for tk in model_tokens(sub)]
    if op[0] == 'st':
        d = dict(op[1])
        out = []
        if 'iw' in d:
            out.append('iw:%d' % d['iw'])
        if 'mf' in d:
            out.append('mf:%d' % d['mf'])
        return out or ['of']             # a frame that means nothing to the senders
    return [':'.join(str(x) for x in op)]


def parse_model(line):
    recs = []
    for part in line.split(';') if line else []:
        ch, pcs, cw, sws, mf, wr, broken, tp, hq = part.split('|')
        chunks = [tuple(int(x) for x in c.split(':')) for c in ch.split(',')] if ch else []
        recs.append({'chunks': chunks, 'pcs': pcs, 'cw': int(cw),
                     'sws': [int(x) for x in sws.split(',')] if sws else [], 'mf': int(mf),
                     'wr': wr == '1', 'broken': broken == '1', 'paused': tp == '1', 'hq': hq == '1',
                     'outside': 0})     # the model emits only in Run ops (resume's flush writes no DATA)
    return recs


def impl_records(obs):
    """the implementation's observation in the model's vocabulary (offsets = bytes the peer had already
    received on that stream)"""
    off = {}
    out = []
    for r in obs['records']:
        chunks = []
        for i, size in r['chunks']:
            chunks.append((i, off.get(i, 0), size))
            off[i] = off.get(i, 0) + size
        out.append({'chunks': chunks, 'pcs': r['pcs'], 'cw': r['cw'], 'sws': r['sws'], 'mf': r['mf'],
                    'wr': r['wr'], 'broken': False, 'outside': r.get('outside', 0),
                    'paused': r['paused'], 'hq': r.get('hq', False)})
    return out


# ---- direct oracle ------------------------------------------------------------------------------

def oracle(case, obs):
    """C07 itself, on what the peer saw.  Returns [(what, signature)]"""
    bad = []
    if obs['setup_error']:
        return [('harness could not set the case up: ' + obs['setup_error'], {'kind': 'setup'})]
    if obs['violations']:
        bad.append(('the strict peer h2 raised %s' % obs['violations'][0],
                    {'kind': 'peer-raised', 'error': obs['violations'][0]}))
    for k, name in obs['exceptions']:
        bad.append(('op %d raised %s' % (k, name), {'kind': 'op-raised', 'error': name}))
    for i, e in enumerate(obs.get('errors', [])):
        if e is not None:
            bad.append(('sender %d failed with %s' % (i, e), {'kind': 'sender-raised', 'error': e}))
    if obs.get('unhandled'):
        bad.append(('exception reached the loop exception handler', {'kind': 'unhandled'}))
    led = Ledger(case)
    n = led.n
    got = [b''] * n
    sent = obs.get('sent', [])
    frames = list(obs['frames'])
    recs = {r['op']: r for r in obs['records']}
    prev_pcs = 'T' * n            # where each sender was at the previous quiescence
    resumed_since = False         # a resume_writing may have been delivered since then
    for k, op in enumerate(case['ops']):
        led.apply(op)
        while frames and frames[0]['after_op'] == k:
            f = frames.pop(0)
            i, size = f['sender'], f['fcl']
            if not 0 <= i < n:
                bad.append(('DATA on a stream that is not a sender', {'kind': 'stray-data'}))
                continue
            if size > led.sw[i]:
                bad.append(('DATA of %d bytes exceeds the stream window %d' % (size, led.sw[i]),
                            {'kind': 'overdraw', 'window': 'stream'}))
            if size > led.cw:
                bad.append(('DATA of %d bytes exceeds the connection window %d' % (size, led.cw),
                            {'kind': 'overdraw', 'window': 'connection'}))
            if size > led.mf:
                bad.append(('DATA of %d bytes exceeds MAX_FRAME_SIZE %d' % (size, led.mf),
                            {'kind': 'frame-too-large'}))
            if size == 0 and len(sent[i]) != 0:
                bad.append(('empty DATA frame for a non-empty message', {'kind': 'empty-frame'}))
            led.data(i, size)
            got[i] += f['data']
            if not sent[i].startswith(got[i]):
                bad.append(('bytes received on stream %d are not a prefix of what was sent' % i,
                            {'kind': 'corrupt'}))
        if op[0] in ('q', 'qp') and k in recs:
            r = recs[k]
            for i, p in enumerate(r['pcs']):
                if p == 'D':
                    if got[i] != sent[i]:
                        bad.append(('sender %d completed but the peer has %d of %d bytes'
                                    % (i, len(got[i]), len(sent[i])), {'kind': 'loss'}))
                elif p in 'UWB?':
                    if not r['paused'] and min(led.sw[i], led.cw) > 0:
                        bad.append(('sender %d is blocked (%s) at quiescence although writing is resumed '
                                    'and it has credit (stream %d, connection %d)' % (i, p, led.sw[i], led.cw),
                                    {'kind': 'stuck-with-credit', 'blocked': p}))
                else:
                    bad.append(('sender %d ended in state %s' % (i, p), {'kind': 'sender-state', 'pc': p}))
            if r['wr'] and r['paused']:
                bad.append(('write_ready is set on a paused transport (back-pressure can no longer suspend '
                            'the senders)', {'kind': 'write-ready-on-paused-transport'}))
            # back-pressure: nothing is written between pause_writing and resume_writing, except the ONE
            # chunk of a sender that resume_writing had already woken (it was suspended on write_ready at
            # the previous quiescence and a resume came since) before the transport paused again.  A
            # sender woken by credit, or one that has not run yet, must suspend without writing.
            if r.get('paused_before'):
                before, after = [], r['chunks']
            elif op[0] == 'qp':
                before, after = r['chunks'][:op[1]], r['chunks'][op[1]:]
            else:
                before, after = [], []
            per = {}
            for i, _size in after:
                per[i] = per.get(i, 0) + 1
            for i, cnt in sorted(per.items()):
                was = prev_pcs[i] if 0 <= i < len(prev_pcs) else 'B'
                woken_by_resume = (was == 'W' and resumed_since) or was in 'B?'
                allowed = 1 if woken_by_resume and not any(j == i for j, _ in before) else 0
                if cnt > allowed:
                    bad.append(('sender %d wrote %d DATA frame(s) while the transport was paused (it was %s at '
                                'the previous quiescence; allowed %d)' % (i, cnt, {
                                    'U': 'waiting for credit', 'W': 'suspended on write_ready',
                                    'T': 'not started'}.get(was, was), allowed),
                                {'kind': 'sent-while-paused', 'was': was}))
                    break
            prev_pcs = r['pcs']
            resumed_since = False
        elif op[0] in ('r', 'rp'):
            resumed_since = True
    if frames:
        bad.append(('DATA frames outside any op', {'kind': 'stray-data'}))
    if case.get('final_grant') and obs['records']:
        if obs['records'][-1]['pcs'] != 'D' * n:
            bad.append(('after the peer granted ample credit and writing was resumed not every sender '
                        'completed: %s' % obs['records'][-1]['pcs'], {'kind': 'no-completion'}))
    # de-duplicate by signature, keep the first text
    seen, out = set(), []
    for what, sig in bad:
        key = tuple(sorted(sig.items()))
        if key not in seen:
            seen.add(key)
            out.append((what, sig))
    return out


# ---- driver -------------------------------------------------------------------------------------

def canon(recs, like=None):
    """records as comparable tuples; what the implementation side could not observe (`like` = its records:
    pcs letter 'B', hq / wr None) is blanked on both sides"""
    out = []
    for k, r in enumerate(recs):
        ref = like[k] if like is not None and k < len(like) else r
        pcs = r['pcs']
        if 'B' in ref['pcs']:
            pcs = ''.join('B' if c in 'UWB' else c for c in pcs)
        hq = None if ref.get('hq') is None else r.get('hq')
        wr = None if ref.get('wr') is None else r.get('wr')
        out.append((tuple(r['chunks']), pcs, r['cw'], tuple(r['sws']), r['mf'], wr, r['broken'],
                    r.get('outside', 0), r.get('paused'), hq))
    return out


def check_cases(ctx, res, cases):
    logging.disable(logging.CRITICAL)
    model = ctx.model([model_line(c) for c in cases]) if ctx.model_ok else None
    budget = 45 if ctx.tier != 'thorough' else 780       # seconds of wall clock for the implementation runs
    t0 = time.time()
    for j, case in enumerate(cases):
        if time.time() - t0 > budget:
            res.notes.append('wall-clock budget of %ds reached after %d of %d cases' % (budget, j, len(cases)))
            break
        obs = U.run_case(case)
        res.evaluations += 1
        impl = impl_records(obs)
        n = len(case['lens'])
        res.count('side:' + case['side'])
        res.count('api:' + case.get('api', 'data'))
        res.count('senders:%d' % n)
        for op in case['ops']:
            res.count('op:' + op[0])
        for op in case['ops']:
            if op[0] == 'b':
                res.count('frames delivered in one read', len(op[1]))
                ws = [sub[1] for sub in op[1] if sub[0] == 'ws']
                if len(ws) != len(set(ws)):
                    res.count('read with two WINDOW_UPDATEs for the same stream')
            for sub in ([op] if op[0] == 'st' else op[1] if op[0] == 'b' else []):
                keys = [k for k, _ in sub[1]] if sub[0] == 'st' else []
                if 'iw' in keys and len(keys) > 1:
                    res.count('SETTINGS frame combining INITIAL_WINDOW_SIZE with ' +
                              '+'.join(sorted(k for k in keys if k != 'iw')))
        toks = [op[0] for op in case['ops']]
        for k, r in enumerate(obs['records'][1:], 1):
            if r.get('paused_before') and 'U' in obs['records'][k - 1]['pcs']:
                res.count('run on a paused transport with a sender that had been waiting for credit')
        if any(toks[k] == 'rst' and 'rp' in toks[k + 1:k + 3] for k in range(len(toks))):
            res.count('case with reset while paused + resume re-pausing in its flush')
        for r in obs['records']:
            if 'U' in r['pcs']:
                res.count('quiescent with a sender starved of credit')
            if 'W' in r['pcs']:
                res.count('quiescent with a sender blocked by back-pressure')
            if any(w is not None and w < 0 for w in r['sws']):
                res.count('quiescent with a negative stream window')
            if r['cw'] == 0 or any(w == 0 for w in r['sws']):
                res.count('quiescent with a zero window')
            if r.get('paused_before') and r['chunks']:
                res.count('frames sent by senders woken before the transport paused again')
            if r['paused'] and not r.get('paused_before'):
                res.count('transport paused from inside write()')
        if any(ln == 0 for ln in case['lens']) and case.get('api', 'data') == 'data':
            res.count('case with an empty message')
        if obs['records'] and obs['records'][-1]['pcs'] == 'D' * n:
            res.count('case ending with every sender complete')
        res.count('DATA frames', len(obs['frames']))
        if obs.get('repaused'):
            res.count('resume_writing re-paused from inside its flush write (RST_STREAM queued)', obs['repaused'])
        res.signatures.add((case['side'], case.get('api', 'data'), n,
                            tuple((r['pcs'], min(len(r['chunks']), 3)) for r in obs['records'])))
        res.sample({'case': case, 'records': [{k: v for k, v in r.items()} for r in obs['records'][:4]]},
                   limit=4)
        if model is not None and not obs['setup_error']:
            res.traces += 1
            m = parse_model(model[j])
            if canon(m, impl) != canon(impl, impl):
                first = next((k for k, (a, b) in enumerate(zip(canon(m, impl), canon(impl, impl))) if a != b),
                             min(len(m), len(impl)))
                res.disagreements.append({'case': case, 'model': m[first:first + 1],
                                          'impl': impl[first:first + 1], 'first_record': first})
        if case.get('witness') == 'competitor' and not obs['setup_error']:
            # the witness of C07_per_sender_bound_refuted, replayed on the real code
            r = obs['records'][1] if len(obs['records']) > 1 else {}
            if [tuple(c) for c in r.get('chunks', [])] != [(0, 10)] or r.get('pcs') != 'UU':
                res.disagreements.append({'case': case, 'model': 'competitor_uses_the_grant (Coq witness)',
                                          'impl': r, 'first_record': 1})
        for what, sig in oracle(case, obs):
            res.oracle_failures.append({'case': case, 'what': what, 'signature': sig,
                                        'observed': {'records': obs['records'][-3:],
                                                     'violations': obs['violations'],
                                                     'exceptions': obs['exceptions']}})


def run(ctx):
    res = Result()
    res.rule = ('PRNG cases: 1-4 senders (protocol.Stream.send_data 70% / public send_message 30%, client '
                'and server side), message sizes 0..200000 around the frame/window boundaries, initial '
                'stream window 0..2^20, connection window 0..2^20 (a burner stream lowers it), max frame '
                '16384..2^24-1; 3-20 peer actions (stream/connection WINDOW_UPDATE 1..2^20, '
                'INITIAL_WINDOW_SIZE up/down incl. 0 and below what was already sent, MAX_FRAME_SIZE, '
                'single SETTINGS frames combining INITIAL_WINDOW_SIZE with MAX_CONCURRENT_STREAMS / MAX_FRAME_SIZE / an '
                'unknown id in any order, 2-4 peer frames delivered in ONE read (same-stream WINDOW_UPDATE pairs '
                'frequent), pause, resume, reset_nowait of another open stream (<= 4 per case), resume that re-pauses from inside '
                'its flush write; 12% of the steps inject [pause, reset, re-pausing resume, credit grant]) applied in batches between FIFO runs to quiescence, 20% of the runs with '
                'the transport pausing from inside its k-th write; 80% end with ample credit + resume. '
                'distinct = distinct (side, api, N, sequence of (blocked/done pattern, frames emitted '
                'capped at 3) per quiescence)')
    cases = [c for c in ctx.corpus()]
    for _ in range(ctx.n(400, 10000)):
        cases.append(gen_case(ctx.rng))
    check_cases(ctx, res, cases)
    return res


def replay(ctx, case):
    res = Result()
    check_cases(ctx, res, [case])
    return res
