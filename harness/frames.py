"""FrameTap: decode the bytes an endpoint writes into HTTP/2 frames (frame level, below h2's event
level), so that a check can say exactly which frames a single API call put on the wire."""
import struct

from hpack import Decoder

PREFACE = b'PRI * HTTP/2.0\r\n\r\nSM\r\n\r\n'
TYPES = {0: 'DATA', 1: 'HEADERS', 2: 'PRIORITY', 3: 'RST_STREAM', 4: 'SETTINGS', 5: 'PUSH_PROMISE',
         6: 'PING', 7: 'GOAWAY', 8: 'WINDOW_UPDATE', 9: 'CONTINUATION'}


class Frame:
    __slots__ = ('type', 'flags', 'stream_id', 'payload', 'headers', 'end_stream', 'time')

    def __init__(self, type_, flags, stream_id, payload):
        self.type = TYPES.get(type_, type_)
        self.flags = flags
        self.stream_id = stream_id
        self.payload = payload
        self.headers = None
        self.end_stream = bool(flags & 0x1) if type_ in (0, 1) else False
        self.time = None

    def __repr__(self):
        extra = self.headers if self.headers is not None else len(self.payload)
        return '<%s sid=%d flags=%#x %r>' % (self.type, self.stream_id, self.flags, extra)


class FrameTap:
    """tap = FrameTap(); feed every chunk the endpoint writes to tap.feed(data)."""

    def __init__(self, clock=None):
        self.buf = b''
        self.frames = []
        self.decoder = Decoder()
        self.decoder.max_allowed_table_size = 1 << 20
        self._hdr_acc = None
        self.clock = clock
        self.preface_seen = False

    def feed(self, data):
        self.buf += data
        if not self.preface_seen and self.buf[:len(PREFACE)] == PREFACE[:len(self.buf)]:
            if len(self.buf) < len(PREFACE):
                return
            self.buf = self.buf[len(PREFACE):]
        self.preface_seen = True
        while len(self.buf) >= 9:
            n = struct.unpack('>I', b'\0' + self.buf[:3])[0]
            if len(self.buf) < 9 + n:
                break
            t, fl = self.buf[3], self.buf[4]
            sid = struct.unpack('>I', self.buf[5:9])[0] & 0x7fffffff
            payload = self.buf[9:9 + n]
            self.buf = self.buf[9 + n:]
            fr = Frame(t, fl, sid, payload)
            fr.time = self.clock() if self.clock else None
            if t == 1:
                block = payload
                if fl & 0x8:
                    pad = block[0]
                    block = block[1:len(block) - pad]
                if fl & 0x20:
                    block = block[5:]
                if fl & 0x4:
                    fr.headers = [(k if isinstance(k, str) else k.decode('latin-1'),
                                   v if isinstance(v, str) else v.decode('latin-1'))
                                  for k, v in self.decoder.decode(block)]
                else:
                    self._hdr_acc = (fr, block)
            elif t == 9 and self._hdr_acc is not None:
                first, block = self._hdr_acc
                block += payload
                if fl & 0x4:
                    first.headers = [(k if isinstance(k, str) else k.decode('latin-1'),
                                      v if isinstance(v, str) else v.decode('latin-1'))
                                     for k, v in self.decoder.decode(block)]
                    self._hdr_acc = None
                else:
                    self._hdr_acc = (first, block)
            elif t == 0 and fl & 0x8 and payload:
                pad = payload[0]
                fr.payload = payload[1:len(payload) - pad]
            self.frames.append(fr)

    def stream_frames(self, sid, start=0):
        return [f for f in self.frames[start:] if f.stream_id == sid and f.type in
                ('DATA', 'HEADERS', 'RST_STREAM')]


def tap_transport(transport, clock=None):
    """install a FrameTap in front of a MemTransport's on_write consumer; returns the tap"""
    tap = FrameTap(clock)
    inner = transport.on_write

    def on_write(data):
        tap.feed(data)
        if inner is not None:
            inner(data)
        else:
            transport.outbox += data
    transport.on_write = on_write
    return tap
