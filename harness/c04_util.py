"""C04 -- implementation side: ONE cell of the matrix
    op x blocking reason x termination event x order x deadline (x status already arrived x variant ...)
run on the real grpclib client objects on the virtual-time loop.  Nothing here knows the model.

grpclib is driven through its public API (Channel.request / ServiceMethod.__call__, the Stream coroutines)
and the wire (scripted h2 peer, in-memory transport).  The few internal observations (where a task is
suspended, Wrapper error / membership, the processor's registry) are looked up BY ROLE (type / identity),
inside try blocks, and degrade to 'unknown' -- which the comparison skips -- when the layout changes.

A cell is a dict
  op      : sr | sm | en | ri | rm | rt | ca | ax | cl   (send_request, send_message, end, recv_initial_metadata,
            recv_message, recv_trailing_metadata, cancel, context exit, stub-style call = ServiceMethod.__call__
            with one request message; `card` = UU | US | SU | SS picks the method class)
  reason  : paused | window | slot | silent            (state of the connection when the op runs; the peer is
                                                        silent in every cell)
  event   : rst | goaway | garbage | lost | close | serr
            (serr: a stream-level protocol violation by the peer that makes the client's h2 reset the stream
             ITSELF -- StreamReset(remote_reset=False); `violation` = window: two WINDOW_UPDATEs overflowing
             the stream window | data: a stray DATA frame after the server's END_STREAM;
             garbage: a CONNECTION-level protocol error, `perr` = '<kind>@<target>' picks the frame and the
             stream it is aimed at: own | other (another live call) | finished (a call that ended normally)
             | zero | idle)
  order   : before | during                            (event before the op starts / while it is blocked)
  deadline: bool
  status  : none | h503 | tonly7 | trailers5 | trailers0 | h200 | h200m   (what the server had sent for this
            call; h200 = response headers only, h200m = headers and one message)
  progress: bool -- the status is delivered WHILE the operation waits (it moves on to its next blocking
            point) instead of before it starts; always so for op=cl
  goaway  : '<error code>/<last_stream_id: zero | highest | lower | max>/<debug data 0|1>'  (event=goaway)
  rst_code: error code of the RST_STREAM (event=rst; default 8)
  variant : base | implicit | after_headers            (implicit: send_message opens the stream itself;
                                                        after_headers: initial metadata already received)
  holder  : idle | blocked                             (reason=slot: what the call holding the slot is doing)
  pre     : live | keepalive-closed   (keepalive-closed: the channel has keepalive configured, the peer never
            acknowledges a PING, so grpclib's keepalive timeout has closed the connection -- the transport is
            closing -- but the transport still holds unsent data and has NOT delivered connection_lost yet; only
            the events lost / close can follow)
"""
import asyncio
import struct

from h2.events import RequestReceived
from h2.settings import SettingCodes

from grpclib import client as gclient
from grpclib import protocol as gprotocol
from grpclib import utils as gutils
from grpclib.const import Cardinality
from grpclib.exceptions import GRPCError, StreamTerminatedError

from harness import vloop, wire, peer as P
from harness.svc import exc_name

OPS = ['sr', 'sm', 'en', 'ri', 'rm', 'rt', 'ca', 'ax']
REASONS = ['paused', 'window', 'slot', 'silent']
EVENTS = ['rst', 'goaway', 'garbage', 'lost', 'close', 'serr']
ORDERS = ['before', 'during']
STATUSES = ['none', 'h503', 'tonly7', 'trailers5', 'trailers0']
OPNAME = {'sr': 'send_request', 'sm': 'send_message', 'en': 'end', 'ri': 'recv_initial_metadata',
          'rm': 'recv_message', 'rt': 'recv_trailing_metadata', 'ca': 'cancel', 'ax': 'context exit',
          'cl': 'stub call'}
DEADLINE = 64.0          # seconds (dyadic); far beyond the 'prompt' window
PROMPT_SPAN = 1.0
PATH = '/v.S/M'

# Connection-level protocol errors: (kind, target) pairs for which h2 4.3.0 raises out of receive_data and
# moves its connection state machine to CLOSED (measured; `own` falls back to `idle` when the call has no
# stream yet).
PERR = ['continuation@own', 'continuation@other', 'continuation@finished', 'continuation@zero',
        'settings-push2@zero', 'settings-window-huge@zero', 'settings-bad-length@zero',
        'settings-on-stream@own', 'data-stream0@zero', 'data@idle', 'oversized@own', 'oversized@finished',
        'bad-padding@own', 'bad-padding@other', 'window-overflow@zero', 'window-zero@own',
        'window-zero@finished', 'window-zero@zero', 'rst@zero', 'rst-bad-length@own', 'ping-bad-length@zero',
        'ping-on-stream@other', 'goaway-on-stream@own', 'push-promise@finished', 'push-promise@idle',
        'priority-self@own', 'priority-self@finished', 'bad-hpack@own', 'bad-hpack@finished',
        'headers@finished', 'headers@zero', 'headers@idle']


def perr_bytes(peer, kind, sid):
    fb = P.frame_bytes
    if kind == 'headers':
        # a (late / misplaced) HEADERS frame with END_STREAM, e.g. duplicate trailers
        return fb(0x1, 0x5, sid, peer.h2.encoder.encode([('grpc-status', '0')]))
    return {
        'continuation': lambda: fb(0x9, 0, sid, b'abcd'),                   # CONTINUATION without HEADERS
        'settings-push2': lambda: fb(0x4, 0, 0, struct.pack('>HI', 2, 2)),
        'settings-window-huge': lambda: fb(0x4, 0, 0, struct.pack('>HI', 4, 0x80000000)),
        'settings-bad-length': lambda: fb(0x4, 0, 0, b'abc'),
        'settings-on-stream': lambda: fb(0x4, 0, sid, b''),
        'data-stream0': lambda: fb(0x0, 0, 0, b'abc'),
        'data': lambda: P.data_frame(sid, b'late'),
        'oversized': lambda: fb(0x0, 0, sid, b'x' * 16385),
        'bad-padding': lambda: fb(0x0, 0x8, sid, bytes([200]) + b'ab'),
        'window-overflow': lambda: fb(0x8, 0, sid, struct.pack('>I', 0x7fffffff)) * 2,
        'window-zero': lambda: fb(0x8, 0, sid, struct.pack('>I', 0)),
        'rst': lambda: fb(0x3, 0, sid, struct.pack('>I', 8)),
        'rst-bad-length': lambda: fb(0x3, 0, sid, b'ab'),
        'ping-bad-length': lambda: fb(0x6, 0, 0, b'abcd'),
        'ping-on-stream': lambda: fb(0x6, 0, sid, b'12345678'),
        'goaway-on-stream': lambda: fb(0x7, 0, sid, struct.pack('>II', 0, 0)),
        'push-promise': lambda: fb(0x5, 0x4, sid, struct.pack('>I', 2) + b'\x82'),
        'priority-self': lambda: fb(0x2, 0, sid, struct.pack('>IB', sid, 1)),
        'bad-hpack': lambda: fb(0x1, 0x4, sid, b'\xff\xff\xff\xff\xff'),
    }[kind]()


def stream_violation(peer, sid, kind):
    """the peer breaks an HTTP/2 rule that concerns ONE stream: the client's h2 resets that stream itself"""
    if kind == 'data':
        peer.raw(P.data_frame(sid, b'stray'))              # DATA after the server's END_STREAM
    else:
        wu = P.frame_bytes(0x8, 0, sid, struct.pack('>I', 0x7fffffff))
        peer.raw(wu + wu)                                  # stream window above 2^31-1


# ---- internal observations, by role -----------------------------------------------------------------------

def _by_type(obj, cls):
    try:
        for v in vars(obj).values():
            if isinstance(v, cls):
                return v
    except TypeError:
        pass
    return None


def wrapper_of(stream):
    return _by_type(stream, gutils.Wrapper)


def wrapper_error(stream):
    """class of the error the call's wrapper holds: 'ok' (none) | class | 'unknown'"""
    try:
        w = wrapper_of(stream)
        if w is None:
            return 'unknown'
        errs = [v for v in vars(w).values() if isinstance(v, BaseException)]
        return err_class(errs[0]) if errs else 'ok'
    except Exception:
        return 'unknown'


def is_member(stream, task):
    try:
        w = wrapper_of(stream)
        return any(isinstance(v, (set, frozenset, list, dict)) and task in v for v in vars(w).values())
    except Exception:
        return 'unknown'


def registered(stream, proto):
    """is the call's protocol stream in the processor's registry (True / False / 'unknown')"""
    try:
        ps = _by_type(stream, gprotocol.Stream)
        if ps is None:
            return False
        regs = [v for v in vars(proto.processor).values() if isinstance(v, dict)]
        if not regs:
            return 'unknown'
        return any(v is ps for reg in regs for v in reg.values())
    except Exception:
        return 'unknown'


def _chain(coro):
    inner = coro
    while inner is not None:
        yield inner
        nxt = getattr(inner, 'cr_await', None)
        if nxt is None:
            nxt = getattr(inner, 'gi_yieldfrom', None)
        if nxt is None or not (hasattr(nxt, 'cr_frame') or hasattr(nxt, 'gi_frame')):
            break
        inner = nxt


def blocked_on(task, proto):
    """the asyncio primitive the task is suspended on, by identity with the public synchronisation objects
    of the connection / stream:  write_ready | stream_slot | window | headers | trailers | buffer | gate |
    unknown"""
    try:
        frames = []
        for c in _chain(task.get_coro()):
            frames.append(getattr(c, 'cr_frame', None) or getattr(c, 'gi_frame', None))
        me = frames[-1].f_locals.get('self') if frames and frames[-1] is not None else None
        if isinstance(me, asyncio.Queue):
            return 'buffer'
        if not isinstance(me, asyncio.Event):
            return 'unknown'
        conn = proto.connection if proto is not None else None
        for name, label in (('write_ready', 'write_ready'), ('stream_close_waiter', 'stream_slot')):
            if conn is not None and getattr(conn, name, None) is me:
                return label
        for fr in frames:
            s = fr.f_locals.get('self') if fr is not None else None
            if isinstance(s, gprotocol.Stream):
                for name, label in (('window_updated', 'window'), ('headers_received', 'headers'),
                                    ('trailers_received', 'trailers')):
                    if getattr(s, name, None) is me:
                        return label
        return 'gate'
    except Exception:
        return 'unknown'


def err_class(e):
    """canonical class of an operation's / call's exception (never message text)"""
    if e is None:
        return 'ok'
    if isinstance(e, GRPCError):
        return 'GRPCError:%d' % e.status.value
    if isinstance(e, StreamTerminatedError):
        return 'StreamTerminated'
    if isinstance(e, asyncio.TimeoutError):
        return 'Timeout'
    if isinstance(e, asyncio.CancelledError):
        return 'Cancelled'
    return exc_name(e)


def outcome_class(o):
    return ('pending' if o[0] == 'pending' else 'ok' if o[0] == 'ok' else
            'Cancelled' if o[0] == 'cancelled' else err_class(o[1]))


def send_status(peer, sid, status, headers_sent=False):
    if headers_sent:
        # the response headers (200) are out already: only a message / trailers can follow
        if status == 'h200m':
            peer.data(sid, P.grpc_frame(b'reply'))
        elif status.startswith('trailers'):
            peer.headers(sid, [('grpc-status', status[8:]), ('grpc-message', 'm')], end_stream=True)
    elif status == 'h503':
        peer.headers(sid, [(':status', '503'), ('content-type', 'application/grpc')])
    elif status == 'h200':
        peer.headers(sid, P.RESP_HEADERS)
    elif status == 'h200m':
        peer.headers(sid, P.RESP_HEADERS)
        peer.data(sid, P.grpc_frame(b'reply'))
    elif status.startswith('tonly'):
        peer.headers(sid, P.RESP_HEADERS + [('grpc-status', status[5:])], end_stream=True)
    elif status.startswith('trailers'):
        peer.headers(sid, P.RESP_HEADERS)
        peer.headers(sid, [('grpc-status', status[8:]), ('grpc-message', 'm')], end_stream=True)


def server_ended(status):
    return status.startswith('tonly') or status.startswith('trailers')


def send_goaway(peer, spec, sid):
    code, last, data = (spec or '0/highest/0').split('/')
    last_id = {'zero': 0, 'highest': None, 'max': 2 ** 31 - 1,
               'lower': max(0, (sid or 1) - 2)}[last]
    peer.h2.close_connection(error_code=int(code), additional_data=b'debug data' if data == '1' else None,
                             last_stream_id=last_id)
    peer.flush()


def sid_of(peer, path):
    """the HTTP/2 stream the peer has seen for a call (its :path), or None"""
    for e in reversed(peer.events):
        if isinstance(e, RequestReceived) and dict(e.headers).get(':path') == path:
            return e.stream_id
    return None


def warm_up(loop, ce, how):
    """a finished call before the one under test: 'reset' -- ended by the client's RST_STREAM (so that the
    next stream id is 3 and a GOAWAY can name a lower one); 'normal' -- END_STREAM in both directions"""
    path = '/v.S/W' + how

    async def w():
        s = ce.channel.request(path, Cardinality.STREAM_STREAM, bytes, bytes)
        async with s:
            if how == 'reset':
                await s.send_request()
                await s.cancel()
            else:
                await s.send_request(end=True)
                await s.recv_initial_metadata()
    t = loop.create_task(w())
    loop.run_quiet(1.0)
    if how == 'normal' and not t.done():
        ce.peer.headers(sid_of(ce.peer, path), P.RESP_HEADERS + [('grpc-status', '0')], end_stream=True)
        loop.run_quiet(1.0)
    return t.done(), sid_of(ce.peer, path)


def h2_is_closed(proto):
    """did the client's h2 give the connection up (True / False / None = cannot tell)"""
    try:
        from h2.connection import H2Connection, ConnectionState
        h = _by_type(proto.connection, H2Connection)
        return h.state_machine.state is ConnectionState.CLOSED
    except Exception:
        return None


METHODS = {'UU': gclient.UnaryUnaryMethod, 'US': gclient.UnaryStreamMethod,
           'SU': gclient.StreamUnaryMethod, 'SS': gclient.StreamStreamMethod}


def run_cell(cell):
    """Returns the observation dict of one cell (strings / numbers / bools only)."""
    op, reason, event, order = cell['op'], cell['reason'], cell['event'], cell['order']
    deadline, status = cell['deadline'], cell.get('status', 'none')
    variant, holder_mode = cell.get('variant', 'base'), cell.get('holder', 'idle')
    progress = bool(cell.get('progress')) or op == 'cl'
    perr = cell.get('perr', 'continuation@own')
    obs = {'setup': 'ok'}
    with vloop.session() as loop:
        pre = cell.get('pre', 'live')
        config = None
        if pre == 'keepalive-closed':
            from grpclib.config import Configuration
            config = Configuration(_keepalive_time=4.0, _keepalive_timeout=4.0)
        ce = wire.ClientEnd(loop, config=config)
        rec = {}
        gate = asyncio.Event()
        hold = asyncio.Event()
        hdr_gate = asyncio.Event()
        kw = {'timeout': DEADLINE} if deadline else {}
        box = {}                 # 'stream': the client Stream of the call under test
        if op == 'cl':
            # the stub builds the Stream itself: note it on its way out of the public Channel.request
            orig_request = ce.channel.request

            def request(name, *a, **k):
                s = orig_request(name, *a, **k)
                if name == PATH:
                    box['stream'] = s
                return s
            ce.channel.request = request
            method = METHODS[cell.get('card', 'UU')](ce.channel, PATH, bytes, bytes)
        else:
            box['stream'] = ce.channel.request(PATH, Cardinality.STREAM_STREAM, bytes, bytes, **kw)
        need_headers = (op == 'rt') or variant == 'after_headers'
        opens_in_op = op in ('sr', 'cl') or (op == 'sm' and variant == 'implicit')
        client_ends = op in ('rt', 'ax', 'cl')

        async def prelude():
            if opens_in_op:
                # the connection exists (the reason is a state of it) but the call has no stream yet
                return
            await box['stream'].send_request(end=op in ('rt', 'ax'))
            if need_headers:
                await hdr_gate.wait()
                await box['stream'].recv_initial_metadata()

        async def the_op():
            stream = box['stream']
            if op == 'sr':
                await stream.send_request()
            elif op == 'sm':
                await stream.send_message(b'm' * 10)
            elif op == 'en':
                await stream.end()
            elif op == 'ri':
                await stream.recv_initial_metadata()
            elif op == 'rm':
                await stream.recv_message()
            elif op == 'rt':
                await stream.recv_trailing_metadata()
            elif op == 'ca':
                await stream.cancel()
            # 'ax': the operation is leaving the context

        async def call():
            if op == 'cl':
                await gate.wait()
                rec['started'] = loop.time()
                msg = b'q' * 10 if cell.get('card', 'UU')[0] == 'U' else [b'q' * 10]
                return await method(msg, **kw)
            async with box['stream']:
                await prelude()
                rec['prelude'] = True
                await gate.wait()
                rec['started'] = loop.time()
                if op != 'ax':
                    try:
                        await the_op()
                    except BaseException as e:
                        rec['op'] = err_class(e)
                        rec['op_t'] = loop.time()
                        raise
                    rec['op'] = 'ok'
                    rec['op_t'] = loop.time()

        async def live(path, mode):
            hs = ce.channel.request(path, Cardinality.STREAM_STREAM, bytes, bytes)
            async with hs:
                await hs.send_request()
                rec[path] = True
                if mode == 'blocked':
                    await hs.recv_message()
                else:
                    await hold.wait()

        # the connection first (every blocking reason is a state of an established connection)
        ct = loop.create_task(ce.channel.__connect__())
        loop.run_quiet(1.0)
        if not ct.done():
            obs['setup'] = 'connect-stuck'
            return obs
        proto = ce.proto
        finished_sid = other_sid = None
        if pre == 'keepalive-closed':
            # a transport with unsent data: close() marks it closing, connection_lost comes only when the
            # harness says so (MemTransport.lose)
            tr = ce.transport
            tr.close = lambda: setattr(tr, 'closing', True)

        def keepalive_gives_up():
            """let the unanswered keepalive PING time out; True when the transport is closing afterwards"""
            loop.advance(16.0)
            return ce.transport.is_closing() and not ce.transport.lost
        if event == 'goaway' and '/lower/' in (cell.get('goaway') or ''):
            if not warm_up(loop, ce, 'reset')[0]:
                obs['setup'] = 'warm-up-stuck'
                return obs
        if event == 'garbage' and perr.endswith('@finished'):
            ok, finished_sid = warm_up(loop, ce, 'normal')
            if not ok:
                obs['setup'] = 'warm-up-stuck'
                return obs
        if event == 'garbage' and perr.endswith('@other') and reason != 'slot':
            loop.create_task(live('/v.S/O', 'idle'))
            loop.run_quiet(1.0)
            other_sid = sid_of(ce.peer, '/v.S/O')
        if reason == 'slot' and opens_in_op:
            ce.peer.settings({SettingCodes.MAX_CONCURRENT_STREAMS: 1})
        if reason == 'window':
            ce.peer.settings({SettingCodes.INITIAL_WINDOW_SIZE: 0})
        loop.run_quiet(1.0)
        task = loop.create_task(call())
        done_at = {}
        task.add_done_callback(lambda t: done_at.setdefault('t', loop.time()))
        loop.run_quiet(1.0)
        if op != 'cl':
            if need_headers and 'prelude' not in rec:
                ce.peer.headers(sid_of(ce.peer, PATH), P.RESP_HEADERS)
                hdr_gate.set()
                loop.run_quiet(1.0)
            if 'prelude' not in rec:
                obs['setup'] = 'prelude-stuck'
                return obs
        sid = sid_of(ce.peer, PATH)
        if reason == 'slot':
            loop.create_task(live('/v.S/H', holder_mode))
            loop.run_quiet(1.0)
            if '/v.S/H' not in rec:
                obs['setup'] = 'holder-stuck'
                return obs
            if other_sid is None:
                other_sid = sid_of(ce.peer, '/v.S/H')
            if not opens_in_op:
                # the call under test has its stream already: the limit is reached with both open
                ce.peer.settings({SettingCodes.MAX_CONCURRENT_STREAMS: 2})
                loop.run_quiet(1.0)
        if reason == 'paused':
            ce.transport.pause()
        if status != 'none' and not progress:
            if sid is None:
                obs['setup'] = 'no-stream-for-status'
                return obs
            if need_headers and (status == 'h503' or status.startswith('tonly')):
                obs['setup'] = 'status-infeasible'      # the 200 headers are out already
                return obs
            send_status(ce.peer, sid, status, headers_sent=need_headers)
            loop.run_quiet(1.0)

        def fire():
            """None when the event happened, else why it cannot"""
            s = sid_of(ce.peer, PATH)
            if event == 'rst':
                if s is None:
                    return 'no-stream-for-rst'
                try:
                    ce.peer.reset(s, cell.get('rst_code', 8))
                except Exception:
                    return 'rst-infeasible'          # both sides ended the stream: the peer's h2 refuses
            elif event == 'serr':
                if s is None:
                    return 'no-stream-for-rst'
                if client_ends and server_ended(status):
                    return 'rst-infeasible'          # closed on both sides: h2 ignores frames for it
                stream_violation(ce.peer, s, cell.get('violation', 'window'))
            elif event == 'goaway':
                send_goaway(ce.peer, cell.get('goaway'), s)
            elif event == 'garbage':
                kind, target = perr.split('@')
                tsid = {'own': s, 'other': other_sid, 'finished': finished_sid, 'zero': 0,
                        'idle': 1001}[target]
                if tsid is None:
                    tsid = 1001                      # the call has no stream yet: an idle one
                ce.peer.raw(perr_bytes(ce.peer, kind, tsid))
                if h2_is_closed(proto) is False:
                    return 'perr-not-an-error'       # h2 did not treat it as a connection error
            elif event == 'lost':
                ce.transport.lose()
            elif event == 'close':
                ce.channel.close()
            return None

        if pre == 'keepalive-closed' and order == 'before':
            if not keepalive_gives_up():
                obs['setup'] = 'keepalive-did-not-close'
                return obs
        if order == 'before':
            obs['registered'] = registered(box['stream'], proto) if 'stream' in box else False
            why = fire()
            if why:
                obs['setup'] = why
                return obs
            loop.run_quiet(PROMPT_SPAN)
            obs['werr'] = wrapper_error(box['stream']) if 'stream' in box else 'ok'
            connects0 = ce.connects
            t_ev = loop.time()
            gate.set()
            q = loop.run_quiet(PROMPT_SPAN)
            obs['blocked'] = 'no'
            obs['opening'] = False
            if sid is None and event not in ('rst', 'serr') and ce.connects == connects0 + 1 and (
                    rec.get('op') == 'ok' or (op == 'cl' and sid_of(ce.peer, PATH) is not None)):
                # the call had not touched the lost connection: its send_request opened a new one
                obs['setup'] = 'call-unaffected'
                hold.set()
                return obs
        else:
            gate.set()
            loop.run_quiet(PROMPT_SPAN)
            if status != 'none' and progress and not task.done() and 'op' not in rec:
                # the server answers partially WHILE the operation waits
                s = sid_of(ce.peer, PATH)
                if s is None:
                    obs['setup'] = 'no-stream-for-status'
                    return obs
                if need_headers and (status == 'h503' or status.startswith('tonly')):
                    obs['setup'] = 'status-infeasible'
                    return obs
                send_status(ce.peer, s, status, headers_sent=need_headers)
                loop.run_quiet(PROMPT_SPAN)
            if task.done() or 'op' in rec:
                obs['blocked'] = 'no'
                obs['setup'] = 'op-not-blocked'
                obs['op'] = rec.get('op') if op not in ('ax', 'cl') else outcome_class(vloop.outcome(task))
                return obs
            stream = box.get('stream')
            obs['blocked'] = blocked_on(task, proto)
            obs['member'] = is_member(stream, task) if stream is not None else False
            obs['registered'] = registered(stream, proto) if stream is not None else False
            obs['opening'] = sid_of(ce.peer, PATH) is None
            if pre == 'keepalive-closed':
                if not keepalive_gives_up():
                    obs['setup'] = 'keepalive-did-not-close'
                    return obs
                if task.done():
                    obs['setup'] = 'op-not-blocked'
                    obs['op'] = outcome_class(vloop.outcome(task))
                    return obs
            t_ev = loop.time()
            why = fire()
            if why:
                obs['setup'] = why
                return obs
            q = loop.run_quiet(PROMPT_SPAN)
            obs['werr'] = wrapper_error(stream) if stream is not None else 'ok'
        obs['quiet'] = q
        ctx = outcome_class(vloop.outcome(task))
        obs['ctx'] = ctx
        whole = op in ('ax', 'cl')
        obs['op'] = ctx if whole else rec.get('op', 'pending')
        t_done = done_at.get('t') if whole else rec.get('op_t')
        obs['prompt'] = bool(t_done is not None and t_done == t_ev)
        if obs['op'] == 'pending':
            obs['stuck_on'] = blocked_on(task, proto)
            obs['opening'] = sid_of(ce.peer, PATH) is None
            # does anything ever end it?  (a deadline does; nothing else)
            loop.run_quiet(4 * DEADLINE)
            if whole:
                obs['late'] = outcome_class(vloop.outcome(task))
                t_late = done_at.get('t')
            else:
                obs['late'] = rec.get('op', 'pending')
                t_late = rec.get('op_t')
            obs['late_after'] = None if t_late is None else t_late - t_ev
        hold.set()
        loop.run_quiet(0.5)
        obs['unhandled'] = len(loop.unhandled)
    return obs


# ---- several operations of one call at once, each its own task ------------------------------------

def ev_is_lower_goaway(spec):
    return spec['event'] == 'goaway' and '/lower/' in (spec.get('goaway') or '')


def run_multi(spec):
    """spec = {'ops': [op, ...] started concurrently as tasks of one call (each blocked for its own reason:
    sm on flow control, en/ca on a paused transport, ri/rm/rt on the silent peer), 'paused': bool,
    'window': bool, 'mid': [step, ...] between the start of the operations and the event -- 'reply' (response
    headers if not yet sent + one message), 'credit' (exactly the flow-control credit one blocked
    send_message needs), 'resume' (the transport resumes writing), 's.<op>' (the application starts another
    operation, e.g. the receiver task loops) --, 'event': .., 'after': [op, ...] started after the event,
    'deadline': bool}.  Returns per-task outcomes (tasks in start order)."""
    out = {'setup': 'ok', 'during': [], 'after': []}
    with vloop.session() as loop:
        ce = wire.ClientEnd(loop)
        kw = {'timeout': DEADLINE} if spec['deadline'] else {}
        stream = ce.channel.request(PATH, Cardinality.STREAM_STREAM, bytes, bytes, **kw)
        go_after = asyncio.Event()
        go_ops = asyncio.Event()
        fin = asyncio.Event()
        tasks = {}
        more = asyncio.Queue()

        def coro_of(op):
            return {'sm': lambda: stream.send_message(b'x' * 8), 'en': stream.end,
                    'ri': stream.recv_initial_metadata, 'rm': stream.recv_message,
                    'rt': stream.recv_trailing_metadata, 'ca': stream.cancel}[op]()

        async def call():
            async with stream:
                await stream.send_request()
                if spec.get('headers'):
                    await stream.recv_initial_metadata()
                tasks['ready'] = True
                await go_ops.wait()
                tasks['during'] = [loop.create_task(coro_of(o)) for o in spec['ops']]
                while True:
                    o = await more.get()
                    if o is None:
                        break
                    tasks['during'].append(loop.create_task(coro_of(o)))
                await go_after.wait()
                tasks['after'] = [loop.create_task(coro_of(o)) for o in spec['after']]
                await fin.wait()
                await asyncio.gather(*(tasks['during'] + tasks['after']), return_exceptions=True)

        loop.create_task(ce.channel.__connect__())
        loop.run_quiet(1.0)
        finished_sid = None
        if ev_is_lower_goaway(spec):
            warm_up(loop, ce, 'reset')
        perr = spec.get('perr', 'continuation@own')
        if spec['event'] == 'garbage' and perr.endswith('@finished'):
            finished_sid = warm_up(loop, ce, 'normal')[1]
        if spec.get('window'):
            ce.peer.settings({SettingCodes.INITIAL_WINDOW_SIZE: 0})
            loop.run_quiet(1.0)
        task = loop.create_task(call())
        loop.run_quiet(1.0)
        sid = sid_of(ce.peer, PATH)
        if spec.get('headers') and 'ready' not in tasks:
            ce.peer.headers(sid, P.RESP_HEADERS)
            loop.run_quiet(1.0)
        if 'ready' not in tasks:
            out['setup'] = 'prelude-stuck'
            return out
        if spec.get('paused'):
            ce.transport.pause()
        go_ops.set()
        loop.run_quiet(1.0)
        headers_sent = bool(spec.get('headers'))
        names = list(spec['ops'])
        for step in spec.get('mid', []):
            if step == 'reply':
                if not headers_sent:
                    ce.peer.headers(sid, P.RESP_HEADERS)
                    headers_sent = True
                ce.peer.data(sid, P.grpc_frame(b'r'))
            elif step == 'credit':
                ce.peer.window_update(sid, 13)          # the 5-byte prefix + the 8-byte message
            elif step == 'resume':
                ce.transport.resume()
            else:
                names.append(step[2:])
                more.put_nowait(step[2:])
            loop.run_quiet(1.0)
        more.put_nowait(None)
        loop.run_quiet(1.0)
        cancelled_by_client = any(o == 'ca' and t.done() for o, t in zip(names, tasks['during']))
        pend = [not t.done() for t in tasks['during']]
        t_ev = loop.time()
        ev = spec['event']
        if ev in ('rst', 'serr') and cancelled_by_client:
            out['setup'] = 'rst-infeasible'      # the client has reset the stream itself
            return out
        if ev == 'rst':
            try:
                ce.peer.reset(sid, spec.get('rst_code', 8))
            except Exception:
                out['setup'] = 'rst-infeasible'
                return out
        elif ev == 'serr':
            stream_violation(ce.peer, sid, 'window')
        elif ev == 'goaway':
            send_goaway(ce.peer, spec.get('goaway'), sid)
        elif ev == 'garbage':
            kind, target = perr.split('@')
            tsid = {'own': sid, 'other': 1001, 'finished': finished_sid, 'zero': 0, 'idle': 1001}[target]
            ce.peer.raw(perr_bytes(ce.peer, kind, tsid if tsid is not None else 1001))
            if h2_is_closed(ce.proto) is False:
                out['setup'] = 'perr-not-an-error'
                return out
        elif ev == 'lost':
            ce.transport.lose()
        else:
            ce.channel.close()
        loop.run_quiet(PROMPT_SPAN)
        for o, t, was_pending in zip(names, tasks['during'], pend):
            out['during'].append({'op': o, 'blocked': was_pending, 'res': outcome_class(vloop.outcome(t))})
        go_after.set()
        loop.run_quiet(PROMPT_SPAN)
        for o, t in zip(spec['after'], tasks.get('after', [])):
            out['after'].append({'op': o, 'res': outcome_class(vloop.outcome(t))})
        out['clock_advanced'] = loop.time() != t_ev
        fin.set()
        loop.run_quiet(PROMPT_SPAN)
        out['ctx'] = outcome_class(vloop.outcome(task))
    return out
