"""C04 -- implementation side: ONE cell of the matrix
    op x blocking reason x termination event x order x deadline (x status already arrived x variant)
run on the real grpclib client objects on the virtual-time loop.  Nothing here knows the model.

A cell is a dict
  op      : sr | sm | en | ri | rm | rt | ca | ax      (send_request, send_message, end, recv_initial_metadata,
                                                        recv_message, recv_trailing_metadata, cancel, context exit)
  reason  : paused | window | slot | silent            (state of the connection when the op runs; the peer is
                                                        silent in every cell)
  event   : rst | goaway | garbage | lost | close | serr
            (serr: a stream-level protocol violation by the peer that makes the client's h2 reset the stream
             ITSELF -- StreamReset(remote_reset=False); `violation` = window: two WINDOW_UPDATEs overflowing
             the stream window | data: a stray DATA frame after the server's END_STREAM)
  order   : before | during                            (event before the op starts / while it is blocked)
  deadline: bool
  status  : none | h503 | tonly7 | trailers5 | trailers0   (what the server had already sent for this call)
  goaway  : '<error code>/<last_stream_id: zero | highest | lower | max>/<debug data 0|1>'  (event=goaway;
            default '0/highest/0'; lower = below the in-flight stream of the call -- a finished warm-up call
            has used stream 1 --, max = 2**31-1, the "shutdown notice" of a graceful shutdown)
  rst_code: error code of the RST_STREAM (event=rst; default 8)
  variant : base | implicit | after_headers            (implicit: send_message opens the stream itself;
                                                        after_headers: initial metadata already received)
  holder  : idle | blocked                             (reason=slot: what the call holding the slot is doing)
"""
import asyncio
import struct

from h2.settings import SettingCodes

from grpclib.const import Cardinality
from grpclib.exceptions import GRPCError, StreamTerminatedError

from harness import vloop, wire, peer as P
from harness.svc import exc_name

OPS = ['sr', 'sm', 'en', 'ri', 'rm', 'rt', 'ca', 'ax']
REASONS = ['paused', 'window', 'slot', 'silent']
EVENTS = ['rst', 'goaway', 'garbage', 'lost', 'close', 'serr']
ORDERS = ['before', 'during']
STATUSES = ['none', 'h503', 'tonly7', 'trailers5', 'trailers0']
OPNAME = {'sr': 'send_request', 'sm': 'send_message', 'en': 'end', 'ri': 'recv_initial_metadata',
          'rm': 'recv_message', 'rt': 'recv_trailing_metadata', 'ca': 'cancel', 'ax': 'context exit'}
DEADLINE = 64.0          # seconds (dyadic); far beyond the 'prompt' window
PROMPT_SPAN = 1.0
# a frame h2 must refuse: CONTINUATION (type 9) without a preceding HEADERS
GARBAGE = b'\x00\x00\x04\x09\x00\x00\x00\x00\x01abcd'


def stream_violation(peer, sid, kind):
    """the peer breaks an HTTP/2 rule that concerns ONE stream: the client's h2 resets that stream itself"""
    if kind == 'data':
        peer.raw(P.data_frame(sid, b'stray'))              # DATA after the server's END_STREAM
    else:
        wu = P.frame_bytes(0x8, 0, sid, struct.pack('>I', 0x7fffffff))
        peer.raw(wu + wu)                                  # stream window above 2^31-1


def _chain(coro):
    inner = coro
    while inner is not None:
        yield inner
        nxt = getattr(inner, 'cr_await', None)
        if nxt is None:
            nxt = getattr(inner, 'gi_yieldfrom', None)
        if nxt is None or not (hasattr(nxt, 'cr_frame') or hasattr(nxt, 'gi_frame')):
            break
        inner = nxt


def blocked_on(task, proto):
    """(event, site): the asyncio primitive the task is suspended on --
    write_ready | stream_slot | window | headers | trailers | buffer | gate | other -- and the name of
    the grpclib function that awaits it (send_request, send_data, end, reset, recv_headers,
    recv_trailers, read, ...), both read from the chain of awaiting frames."""
    frames, names = [], []
    for c in _chain(task.get_coro()):
        fr = getattr(c, 'cr_frame', None) or getattr(c, 'gi_frame', None)
        code = getattr(c, 'cr_code', None) or getattr(c, 'gi_code', None)
        frames.append(fr)
        names.append(code.co_name if code else '?')
    me = frames[-1].f_locals.get('self') if frames and frames[-1] is not None else None
    site = names[-2] if len(names) >= 2 else '?'
    conn = proto.connection if proto is not None else None
    if isinstance(me, asyncio.Event):
        if conn is not None and me is conn.write_ready:
            return 'write_ready', site
        if conn is not None and me is conn.stream_close_waiter:
            return 'stream_slot', site
        for fr in frames:
            s = fr.f_locals.get('self') if fr is not None else None
            if s is not None and hasattr(s, 'window_updated') and hasattr(s, 'headers_received'):
                if me is s.window_updated:
                    return 'window', site
                if me is s.headers_received:
                    return 'headers', site
                if me is s.trailers_received:
                    return 'trailers', site
        return 'gate', site
    if isinstance(me, asyncio.Queue):
        return 'buffer', site
    return 'other', site


def err_class(e):
    """canonical class of an operation's / call's exception (never message text)"""
    if e is None:
        return 'ok'
    if isinstance(e, GRPCError):
        return 'GRPCError:%d' % e.status.value
    if isinstance(e, StreamTerminatedError):
        return 'StreamTerminated'
    if isinstance(e, asyncio.TimeoutError):
        return 'Timeout'
    if isinstance(e, asyncio.CancelledError):
        return 'Cancelled'
    return exc_name(e)


def send_status(peer, sid, status, headers_sent=False):
    if headers_sent:
        # the response headers (200) are out already: only trailers can follow
        peer.headers(sid, [('grpc-status', status[8:]), ('grpc-message', 'm')], end_stream=True)
    elif status == 'h503':
        peer.headers(sid, [(':status', '503'), ('content-type', 'application/grpc')])
    elif status.startswith('tonly'):
        peer.headers(sid, P.RESP_HEADERS + [('grpc-status', status[5:])], end_stream=True)
    elif status.startswith('trailers'):
        peer.headers(sid, P.RESP_HEADERS)
        peer.headers(sid, [('grpc-status', status[8:]), ('grpc-message', 'm')], end_stream=True)


def send_goaway(peer, spec, sid):
    code, last, data = (spec or '0/highest/0').split('/')
    last_id = {'zero': 0, 'highest': None, 'max': 2 ** 31 - 1,
               'lower': max(0, (sid or 1) - 2)}[last]
    peer.h2.close_connection(error_code=int(code), additional_data=b'debug data' if data == '1' else None,
                             last_stream_id=last_id)
    peer.flush()


def warm_up(loop, ce):
    """a finished call, so that the next stream id is 3 and a GOAWAY can name a lower one"""
    async def w():
        s = ce.channel.request('/v.S/W', Cardinality.STREAM_STREAM, bytes, bytes)
        async with s:
            await s.send_request()
            await s.cancel()
    t = loop.create_task(w())
    loop.run_quiet(1.0)
    return t.done()


def run_cell(cell):
    """Returns the observation dict of one cell (strings / numbers / bools only)."""
    op, reason, event, order = cell['op'], cell['reason'], cell['event'], cell['order']
    deadline, status = cell['deadline'], cell.get('status', 'none')
    variant, holder_mode = cell.get('variant', 'base'), cell.get('holder', 'idle')
    obs = {'setup': 'ok'}
    with vloop.session() as loop:
        ce = wire.ClientEnd(loop)
        rec = {}
        gate = asyncio.Event()
        hold = asyncio.Event()
        hdr_gate = asyncio.Event()
        kw = {'timeout': DEADLINE} if deadline else {}
        stream = ce.channel.request('/v.S/M', Cardinality.STREAM_STREAM, bytes, bytes, **kw)
        need_headers = (op == 'rt') or variant == 'after_headers'
        opens_in_op = op == 'sr' or (op == 'sm' and variant == 'implicit')

        async def prelude():
            if opens_in_op:
                # the connection exists (the reason is a state of it) but the call has no stream yet
                return
            await stream.send_request(end=op in ('rt', 'ax'))
            if need_headers:
                await hdr_gate.wait()
                await stream.recv_initial_metadata()

        async def the_op():
            if op == 'sr':
                await stream.send_request()
            elif op == 'sm':
                await stream.send_message(b'm' * 10)
            elif op == 'en':
                await stream.end()
            elif op == 'ri':
                await stream.recv_initial_metadata()
            elif op == 'rm':
                await stream.recv_message()
            elif op == 'rt':
                await stream.recv_trailing_metadata()
            elif op == 'ca':
                await stream.cancel()
            # 'ax': the operation is leaving the context

        async def call():
            async with stream:
                await prelude()
                rec['prelude'] = True
                await gate.wait()
                rec['started'] = loop.time()
                if op != 'ax':
                    try:
                        await the_op()
                    except BaseException as e:
                        rec['op'] = err_class(e)
                        rec['op_t'] = loop.time()
                        raise
                    rec['op'] = 'ok'
                    rec['op_t'] = loop.time()

        async def holder():
            hs = ce.channel.request('/v.S/H', Cardinality.STREAM_STREAM, bytes, bytes)
            async with hs:
                await hs.send_request()
                rec['holder_sid'] = hs._stream.id
                if holder_mode == 'blocked':
                    await hs.recv_message()
                else:
                    await hold.wait()

        # the connection first (every blocking reason is a state of an established connection)
        ct = loop.create_task(ce.channel.__connect__())
        loop.run_quiet(1.0)
        if not ct.done():
            obs['setup'] = 'connect-stuck'
            return obs
        proto = ce.proto
        if event == 'goaway' and '/lower/' in (cell.get('goaway') or ''):
            if not warm_up(loop, ce):
                obs['setup'] = 'warm-up-stuck'
                return obs
        if reason == 'slot' and opens_in_op:
            ce.peer.settings({SettingCodes.MAX_CONCURRENT_STREAMS: 1})
        if reason == 'window':
            ce.peer.settings({SettingCodes.INITIAL_WINDOW_SIZE: 0})
        loop.run_quiet(1.0)
        task = loop.create_task(call())
        done_at = {}
        task.add_done_callback(lambda t: done_at.setdefault('t', loop.time()))
        loop.run_quiet(1.0)
        if need_headers and 'prelude' not in rec:
            ce.peer.headers(stream._stream.id, P.RESP_HEADERS)
            hdr_gate.set()
            loop.run_quiet(1.0)
        if 'prelude' not in rec:
            obs['setup'] = 'prelude-stuck'
            return obs
        sid = stream._stream.id if stream._send_request_done else None
        if reason == 'slot':
            ht = loop.create_task(holder())             # noqa: F841  (kept alive by the loop)
            loop.run_quiet(1.0)
            if 'holder_sid' not in rec:
                obs['setup'] = 'holder-stuck'
                return obs
            if not opens_in_op:
                # the call under test has its stream already: the limit is reached with both open
                ce.peer.settings({SettingCodes.MAX_CONCURRENT_STREAMS: 2})
                loop.run_quiet(1.0)
        if reason == 'paused':
            ce.transport.pause()
        if status != 'none':
            if sid is None:
                obs['setup'] = 'no-stream-for-status'
                return obs
            if need_headers and not status.startswith('trailers'):
                obs['setup'] = 'status-infeasible'      # the 200 headers are out already
                return obs
            send_status(ce.peer, sid, status, headers_sent=need_headers)
            loop.run_quiet(1.0)

        def fire():
            """None when the event happened, else why it cannot"""
            if event == 'rst':
                s = stream._stream.id if stream._send_request_done else None
                if s is None:
                    return 'no-stream-for-rst'
                try:
                    ce.peer.reset(s, cell.get('rst_code', 8))
                except Exception:
                    return 'rst-infeasible'          # both sides ended the stream: the peer's h2 refuses
            elif event == 'serr':
                s = stream._stream.id if stream._send_request_done else None
                if s is None:
                    return 'no-stream-for-rst'
                if stream._end_done and (status.startswith('tonly') or status.startswith('trailers')):
                    return 'rst-infeasible'          # closed on both sides: h2 ignores frames for it
                stream_violation(ce.peer, s, cell.get('violation', 'window'))
            elif event == 'goaway':
                send_goaway(ce.peer, cell.get('goaway'), stream._stream.id if stream._send_request_done else None)
            elif event == 'garbage':
                ce.peer.raw(GARBAGE)
            elif event == 'lost':
                ce.transport.lose()
            elif event == 'close':
                ce.channel.close()
            return None

        def registered_now():
            s_now = getattr(getattr(stream, '_stream', None), 'id', None)
            return bool(s_now is not None and proto.processor.streams.get(s_now) is
                        getattr(stream, '_stream', None))

        if order == 'before':
            obs['registered'] = registered_now()
            why = fire()
            if why:
                obs['setup'] = why
                return obs
            loop.run_quiet(PROMPT_SPAN)
            obs['werr'] = err_class(stream._wrapper._error)
            connects0 = ce.connects
            t_ev = loop.time()
            gate.set()
            q = loop.run_quiet(PROMPT_SPAN)
            obs['blocked'] = 'no'
            obs['site'] = 'no'
            if sid is None and event not in ('rst', 'serr') and rec.get('op') == 'ok' and ce.connects == connects0 + 1:
                # the call had not touched the lost connection: its send_request opened a new one
                obs['setup'] = 'call-unaffected'
                hold.set()
                return obs
        else:
            gate.set()
            loop.run_quiet(PROMPT_SPAN)
            if task.done() or 'op' in rec:
                obs['blocked'] = 'no'
                obs['site'] = 'no'
                obs['setup'] = 'op-not-blocked'
                o = vloop.outcome(task)
                obs['op'] = rec.get('op') if op != 'ax' else (
                    'ok' if o[0] == 'ok' else err_class(o[1]) if o[0] == 'exc' else 'Cancelled')
                return obs
            obs['blocked'], obs['site'] = blocked_on(task, proto)
            obs['member'] = task in stream._wrapper._tasks
            obs['registered'] = registered_now()
            t_ev = loop.time()
            why = fire()
            if why:
                obs['setup'] = why
                return obs
            q = loop.run_quiet(PROMPT_SPAN)
            obs['werr'] = err_class(stream._wrapper._error)
        obs['quiet'] = q
        o = vloop.outcome(task)
        ctx = ('pending' if o[0] == 'pending' else 'ok' if o[0] == 'ok' else
               'Cancelled' if o[0] == 'cancelled' else err_class(o[1]))
        obs['ctx'] = ctx
        obs['op'] = ctx if op == 'ax' else rec.get('op', 'pending')
        t_done = rec.get('op_t') if op != 'ax' else done_at.get('t')
        obs['prompt'] = bool(t_done is not None and t_done == t_ev)
        if obs['op'] == 'pending':
            obs['stuck_on'], obs['stuck_site'] = blocked_on(task, proto)
            # does anything ever end it?  (a deadline does; nothing else)
            loop.run_quiet(4 * DEADLINE)
            o2 = vloop.outcome(task)
            if op != 'ax':
                obs['late'] = rec.get('op', 'pending')
                t_late = rec.get('op_t')
            else:
                obs['late'] = ('pending' if o2[0] == 'pending' else 'ok' if o2[0] == 'ok' else
                               err_class(o2[1]) if o2[0] == 'exc' else 'Cancelled')
                t_late = done_at.get('t')
            obs['late_after'] = None if t_late is None else t_late - t_ev
        hold.set()
        loop.run_quiet(0.5)
        obs['unhandled'] = len(loop.unhandled)
    return obs


# ---- several operations of one call at once, each its own task ------------------------------------

def ev_is_lower_goaway(spec):
    return spec['event'] == 'goaway' and '/lower/' in (spec.get('goaway') or '')


def run_multi(spec):
    """spec = {'ops': [op, ...] started concurrently as tasks of one call (each blocked for its own reason:
    sm on flow control, en/ca on a paused transport, ri/rm/rt on the silent peer), 'paused': bool,
    'window': bool, 'event': .., 'after': [op, ...] started after the event, 'deadline': bool}.
    Returns per-task outcomes."""
    out = {'setup': 'ok', 'during': [], 'after': []}
    with vloop.session() as loop:
        ce = wire.ClientEnd(loop)
        kw = {'timeout': DEADLINE} if spec['deadline'] else {}
        stream = ce.channel.request('/v.S/M', Cardinality.STREAM_STREAM, bytes, bytes, **kw)
        go_after = asyncio.Event()
        go_ops = asyncio.Event()
        fin = asyncio.Event()
        tasks = {}

        def coro_of(op):
            return {'sm': lambda: stream.send_message(b'x' * 8), 'en': stream.end,
                    'ri': stream.recv_initial_metadata, 'rm': stream.recv_message,
                    'rt': stream.recv_trailing_metadata, 'ca': stream.cancel}[op]()

        async def call():
            async with stream:
                await stream.send_request()
                if spec.get('headers'):
                    await stream.recv_initial_metadata()
                tasks['ready'] = True
                await go_ops.wait()
                tasks['during'] = [loop.create_task(coro_of(o)) for o in spec['ops']]
                await go_after.wait()
                tasks['after'] = [loop.create_task(coro_of(o)) for o in spec['after']]
                await fin.wait()
                await asyncio.gather(*(tasks['during'] + tasks['after']), return_exceptions=True)

        loop.create_task(ce.channel.__connect__())
        loop.run_quiet(1.0)
        if ev_is_lower_goaway(spec):
            warm_up(loop, ce)
        if spec.get('window'):
            ce.peer.settings({SettingCodes.INITIAL_WINDOW_SIZE: 0})
            loop.run_quiet(1.0)
        task = loop.create_task(call())
        loop.run_quiet(1.0)
        if spec.get('headers') and 'ready' not in tasks:
            ce.peer.headers(stream._stream.id, P.RESP_HEADERS)
            loop.run_quiet(1.0)
        if 'ready' not in tasks:
            out['setup'] = 'prelude-stuck'
            return out
        if spec.get('paused'):
            ce.transport.pause()
        go_ops.set()
        loop.run_quiet(1.0)
        pend = [not t.done() for t in tasks['during']]
        t_ev = loop.time()
        ev = spec['event']
        if ev == 'rst':
            try:
                ce.peer.reset(stream._stream.id, spec.get('rst_code', 8))
            except Exception:
                out['setup'] = 'rst-infeasible'
                return out
        elif ev == 'serr':
            stream_violation(ce.peer, stream._stream.id, 'window')
        elif ev == 'goaway':
            send_goaway(ce.peer, spec.get('goaway'), stream._stream.id)
        elif ev == 'garbage':
            ce.peer.raw(GARBAGE)
        elif ev == 'lost':
            ce.transport.lose()
        else:
            ce.channel.close()
        loop.run_quiet(PROMPT_SPAN)
        for o, t, was_pending in zip(spec['ops'], tasks['during'], pend):
            oc = vloop.outcome(t)
            out['during'].append({'op': o, 'blocked': was_pending,
                                  'res': 'pending' if oc[0] == 'pending' else 'ok' if oc[0] == 'ok' else
                                  'Cancelled' if oc[0] == 'cancelled' else err_class(oc[1])})
        go_after.set()
        loop.run_quiet(PROMPT_SPAN)
        for o, t in zip(spec['after'], tasks.get('after', [])):
            oc = vloop.outcome(t)
            out['after'].append({'op': o,
                                 'res': 'pending' if oc[0] == 'pending' else 'ok' if oc[0] == 'ok' else
                                 'Cancelled' if oc[0] == 'cancelled' else err_class(oc[1])})
        out['clock_advanced'] = loop.time() != t_ev
        fin.set()
        loop.run_quiet(PROMPT_SPAN)
        oc = vloop.outcome(task)
        out['ctx'] = ('pending' if oc[0] == 'pending' else 'ok' if oc[0] == 'ok' else
                      'Cancelled' if oc[0] == 'cancelled' else err_class(oc[1]))
    return out
