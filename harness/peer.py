"""Scripted HTTP/2 peer: a real h2.H2Connection (validation off so that it can send what a hostile
or sloppy peer may send) plus hyperframe for frames h2 itself never emits.  Everything grpclib
writes is parsed by this real h2 instance, which raises on flow-control / frame-size / state
violations -- those are recorded in .violations (the 'strict peer' of C07)."""
import struct

from h2.config import H2Configuration
from h2.connection import H2Connection
from h2.events import DataReceived
from h2.exceptions import ProtocolError
from h2.settings import SettingCodes
from hyperframe import frame as hf


class Peer:
    def __init__(self, client_side, auto_ack=True, settings=None):
        self.client_side = client_side
        self.h2 = H2Connection(H2Configuration(
            client_side=client_side, header_encoding='ascii',
            validate_inbound_headers=False, validate_outbound_headers=False,
            normalize_inbound_headers=False, normalize_outbound_headers=False))
        self.initial_settings = settings
        self.auto_ack = auto_ack
        self.transport = None
        self.events = []
        self.violations = []
        self.received = 0
        self.clock = None

    def attach(self, transport):
        self.transport = transport

    def start(self):
        self.h2.initiate_connection()
        if self.initial_settings:
            self.h2.update_settings(self.initial_settings)

    # ---- bytes from grpclib
    def receive(self, data):
        self.received += len(data)
        try:
            evs = self.h2.receive_data(data)
        except ProtocolError as e:           # grpclib broke HTTP/2 rules
            self.violations.append(e)
            return
        for ev in evs:
            self.events.append(ev)
            if self.auto_ack and isinstance(ev, DataReceived) and ev.flow_controlled_length:
                try:
                    self.h2.acknowledge_received_data(ev.flow_controlled_length, ev.stream_id)
                except Exception:
                    pass

    def take_events(self):
        evs, self.events = self.events, []
        return evs

    # ---- bytes to grpclib
    def flush(self, cuts=None):
        data = self.h2.data_to_send()
        if data and self.transport is not None:
            self.transport.feed(data, cuts)
        return data

    def pending_bytes(self):
        return self.h2.data_to_send()

    def raw(self, data, cuts=None):
        self.transport.feed(data, cuts)

    # ---- convenience
    def next_stream_id(self):
        return self.h2.get_next_available_stream_id()

    def request(self, headers, end_stream=False, flush=True, sid=None):
        sid = sid or self.next_stream_id()
        self.h2.send_headers(sid, headers, end_stream=end_stream)
        if flush:
            self.flush()
        return sid

    def headers(self, sid, headers, end_stream=False, flush=True):
        self.h2.send_headers(sid, headers, end_stream=end_stream)
        if flush:
            self.flush()

    def data(self, sid, data, end_stream=False, flush=True, pad=None):
        self.h2.send_data(sid, data, end_stream=end_stream, pad_length=pad)
        if flush:
            self.flush()

    def end(self, sid, flush=True):
        self.h2.end_stream(sid)
        if flush:
            self.flush()

    def reset(self, sid, code=0, flush=True):
        self.h2.reset_stream(sid, error_code=code)
        if flush:
            self.flush()

    def goaway(self, code=0, flush=True):
        self.h2.close_connection(error_code=code)
        if flush:
            self.flush()

    def window_update(self, sid, incr, flush=True):
        self.h2.increment_flow_control_window(incr, stream_id=sid or None)
        if flush:
            self.flush()

    def settings(self, values, flush=True):
        self.h2.update_settings(values)
        if flush:
            self.flush()

    def ping(self, payload=b'\0' * 8, flush=True):
        self.h2.ping(payload)
        if flush:
            self.flush()


def grpc_frame(msg, compressed=False):
    return struct.pack('?', compressed) + struct.pack('>I', len(msg)) + msg


def frame_bytes(ftype, flags, stream_id, payload):
    """a syntactically valid HTTP/2 frame of any type (incl. unknown >= 0x0a)"""
    n = len(payload)
    return struct.pack('>I', n)[1:] + bytes([ftype & 0xff, flags & 0xff]) + \
        struct.pack('>I', stream_id & 0x7fffffff) + payload


def data_frame(stream_id, data=b'', end_stream=False, pad=None):
    flags, payload = 0, data
    if end_stream:
        flags |= 0x1
    if pad is not None:
        flags |= 0x8
        payload = bytes([pad]) + data + b'\0' * pad
    return frame_bytes(0x0, flags, stream_id, payload)


REQ_HEADERS = [(':method', 'POST'), (':scheme', 'http'), (':path', '/v.S/M'), (':authority', 'x'),
               ('te', 'trailers'), ('content-type', 'application/grpc')]
RESP_HEADERS = [(':status', '200'), ('content-type', 'application/grpc')]
