"""C20 helper process: runs the REAL grpclib.plugin.main.main() on synthesised CodeGeneratorRequests and
EXECUTES the generated modules against dynamically built `<name>_pb2` modules.

Started by harness/drive_C20.py as `/venv/bin/python harness/c20_helper.py` with PYTHONPATH=<repo>.
Protocol: one JSON descriptor set per line on stdin, one JSON observation per line on stdout (the
original fds 0/1 are duplicated at start; main() is run with fds 0/1 swapped to temporary files
because it does os.fdopen(sys.stdin.fileno()) / os.fdopen(sys.stdout.fileno()) and closes both).

Descriptor set:  {"files": [{"name", "package", "deps": [..], "messages": [{"name", "nested": [..]}],
                             "services": [{"name", "methods": [{"name","cs","ss","in","out"[,"cs_set","ss_set"]}]}]}],
                  "gen": [file names]}

Nothing here knows the model.  The only naming rule used is protoc's own rule for python modules
(compiler/python/helpers.cc: StripProto, '-' -> '_', '/' -> '.', + "_pb2"), needed to lay out the fake
pb2 modules exactly as protoc --python_out would.
"""
import ast
import json
import os
import sys
import types


def protoc_module_name(path):
    # google/protobuf/compiler/python/helpers.cc ModuleName(): StripProto + replace + "_pb2"
    if path.endswith('.protodevel'):
        base = path[:-len('.protodevel')]
    elif path.endswith('.proto'):
        base = path[:-len('.proto')]
    else:
        base = path
    return base.replace('-', '_').replace('/', '.') + '_pb2'


# ---- request construction ----------------------------------------------------------------------

def build_request(ds):
    from google.protobuf import descriptor_pb2
    from google.protobuf.compiler import plugin_pb2
    req = plugin_pb2.CodeGeneratorRequest()
    for f in ds['files']:
        fd = req.proto_file.add()
        fill_file(fd, f)
    for g in ds['gen']:
        req.file_to_generate.append(g)
    return req


def fill_msg(md, m):
    md.name = m['name']
    for n in m.get('nested', []):
        fill_msg(md.nested_type.add(), n)


def fill_file(fd, f):
    fd.name = f['name']
    if f.get('package'):
        fd.package = f['package']
    fd.syntax = 'proto3'
    for d in f.get('deps', []):
        fd.dependency.append(d)
    for i in f.get('public', []):
        fd.public_dependency.append(i)
    for m in f.get('messages', []):
        fill_msg(fd.message_type.add(), m)
    for s in f.get('services', []):
        sd = fd.service.add()
        sd.name = s['name']
        for me in s['methods']:
            x = sd.method.add()
            x.name = me['name']
            x.input_type = me['in']
            x.output_type = me['out']
            # the two flags are optional proto2 fields with three states each: absent, explicitly false
            # ('cs_set'/'ss_set': what a programmatic descriptor or another compiler may send), true
            if me['cs']:
                x.client_streaming = True
            elif me.get('cs_set'):
                x.client_streaming = False
            if me['ss']:
                x.server_streaming = True
            elif me.get('ss_set'):
                x.server_streaming = False


# ---- running the real main() -------------------------------------------------------------------

_DEVNULL = None


def run_main(data):
    """real main() with fd 0 <- data, fd 1 -> an anonymous memory file; returns (status, bytes written)
    where status is 'ok' or the name of the exception the plugin process would have died with"""
    global _DEVNULL
    from grpclib.plugin.main import main
    if _DEVNULL is None:
        _DEVNULL = os.open(os.devnull, os.O_RDWR)
        while _DEVNULL < 3:
            _DEVNULL = os.dup(_DEVNULL)
    fin = os.memfd_create('c20-in')
    fout = os.memfd_create('c20-out')
    try:
        os.write(fin, data)
        os.lseek(fin, 0, os.SEEK_SET)
        os.dup2(fin, 0)
        os.dup2(fout, 1)
        status = 'ok'
        try:
            main()
        except BaseException as e:  # noqa: the plugin process would die with this exception
            status = type(e).__name__
        finally:
            # main() closes fds 0 and 1 itself; keep both numbers occupied for the next case
            os.dup2(_DEVNULL, 0)
            os.dup2(_DEVNULL, 1)
        os.lseek(fout, 0, os.SEEK_SET)
        chunks = []
        while True:
            b = os.read(fout, 1 << 20)
            if not b:
                break
            chunks.append(b)
        return status, b''.join(chunks)
    finally:
        os.close(fin)
        os.close(fout)


# ---- fake pb2 modules --------------------------------------------------------------------------

class Registry:
    def __init__(self):
        self.modules = {}       # name -> module object (installed into sys.modules)
        self.by_id = {}         # id(class) -> {'path': python path, 'proto': full proto name, 'file': file}
        self.keep = []
        self.mode = None
        self.real = set()       # names that were already real modules (e.g. the package `grpclib`)
        self.added = []         # (real module, attribute) pairs to remove afterwards

    def module(self, name, package=False):
        if name in self.modules:
            m = self.modules[name]
        else:
            if name in sys.modules:
                m = sys.modules[name]
                self.real.add(name)
            else:
                m = types.ModuleType(name)
            self.modules[name] = m
            if '.' in name:
                parent, _, leaf = name.rpartition('.')
                pm = self.module(parent, package=True)
                if parent in self.real and not hasattr(pm, leaf):
                    self.added.append((pm, leaf))
                setattr(pm, leaf, m)
        if package and not hasattr(m, '__path__'):
            m.__path__ = []
            if name in self.real:
                self.added.append((m, '__path__'))
        return m

    def install(self):
        for n, m in self.modules.items():
            if n not in self.real:
                sys.modules[n] = m

    def uninstall(self):
        for n in self.modules:
            if n not in self.real:
                sys.modules.pop(n, None)
        for m, a in self.added:
            try:
                delattr(m, a)
            except AttributeError:
                pass


def walk_msgs(f):
    """(parents tuple, msg) for every message of file f, depth first, declaration order"""
    def go(parents, ms):
        for m in ms:
            yield parents, m
            yield from go(parents + (m['name'],), m.get('nested', []))
    yield from go((), f.get('messages', []))


def full_name(f, parents, name):
    return '.' + '.'.join(([f['package']] if f.get('package') else []) + list(parents) + [name])


def build_registry(ds):
    """Lay out `<protoc module name>` modules holding the message classes.  Real protobuf classes
    (fresh DescriptorPool + message_factory) when the descriptor set is acceptable to protobuf;
    otherwise plain Python classes (malformed stream: undeclared types, duplicate names)."""
    reg = Registry()
    classes = None
    try:
        from google.protobuf import descriptor_pool, message_factory, descriptor_pb2
        pool = descriptor_pool.DescriptorPool()
        pending = list(ds['files'])
        added = set()
        progress = True
        while pending and progress:
            progress = False
            for f in list(pending):
                if all(d in added for d in f.get('deps', [])):
                    fd = descriptor_pb2.FileDescriptorProto()
                    fill_file(fd, f)
                    pool.Add(fd)
                    added.add(f['name'])
                    pending.remove(f)
                    progress = True
        if pending:
            raise ValueError('dependency cycle or missing dependency')
        classes = {}
        for f in ds['files']:
            for parents, m in walk_msgs(f):
                fn = full_name(f, parents, m['name'])
                d = pool.FindMessageTypeByName(fn[1:])
                if d.file.name != f['name']:
                    raise ValueError('duplicate full name')
                classes[(f['name'], fn)] = message_factory.GetMessageClass(d)
        reg.keep.append(pool)
        reg.mode = 'protobuf'
    except Exception:
        classes = None
        reg.mode = 'plain'
    for f in ds['files']:
        modname = protoc_module_name(f['name'])
        try:
            mod = reg.module(modname)
        except Exception:
            continue
        holders = {(): mod}
        for parents, m in walk_msgs(f):
            fn = full_name(f, parents, m['name'])
            if classes is not None:
                if parents:
                    cls = getattr(holders[parents], m['name'])
                else:
                    cls = classes[(f['name'], fn)]
                    setattr(mod, m['name'], cls)
            else:
                cls = type(m['name'], (), {'__proto__': fn})
                try:
                    setattr(holders[parents], m['name'], cls)
                except Exception:
                    pass
            holders[parents + (m['name'],)] = cls
            reg.keep.append(cls)
            reg.by_id[id(cls)] = {'path': '.'.join([modname] + list(parents) + [m['name']]),
                                  'proto': fn, 'file': f['name']}
    return reg


# ---- executing a generated module ---------------------------------------------------------------

def describe(reg, cls):
    info = reg.by_id.get(id(cls))
    if info is None:
        return {'path': '?' + repr(cls)[:60], 'proto': '?', 'file': '?'}
    return info


def imports_of(text):
    tree = ast.parse(text)
    top, guarded, other = [], [], []
    for node in tree.body:
        if isinstance(node, ast.Import):
            top += [a.name for a in node.names]
        elif isinstance(node, ast.If):
            for n in ast.walk(node):
                if isinstance(n, ast.Import):
                    guarded += [a.name for a in n.names]
                elif isinstance(n, ast.ImportFrom):
                    other.append(ast.unparse(n))
        elif isinstance(node, ast.ImportFrom):
            other.append(ast.unparse(node))
    return top, guarded, other


class FakeChannel:
    """Stands in for grpclib.client.Channel: a stub method is observed through the PUBLIC call it makes when
    it is opened -- channel.request(name, cardinality, request_type, reply_type, timeout=, metadata=) -- so
    that no private attribute of the method classes is needed."""

    def request(self, *args, **kwargs):
        return ('opened', args, kwargs)


def observe_method(mobj, ch):
    """(route, Cardinality or None, request_type, reply_type, on-the-channel?) of a stub attribute, taken
    from what it hands to channel.request() when opened; falls back to its public attributes"""
    route = getattr(mobj, 'name', '?')
    req = getattr(mobj, 'request_type', None)
    rep = getattr(mobj, 'reply_type', None)
    card = None
    on_channel = getattr(mobj, 'channel', None) is ch
    try:
        opened = mobj.open()
        if isinstance(opened, tuple) and len(opened) == 3 and opened[0] == 'opened':
            on_channel = True
            args, kwargs = list(opened[1]), dict(opened[2])
            names = ['name', 'cardinality', 'request_type', 'reply_type']
            vals = dict(zip(names, args))
            vals.update({k: v for k, v in kwargs.items() if k in names})
            route = vals.get('name', route)
            card = vals.get('cardinality')
            req = vals.get('request_type', req)
            rep = vals.get('reply_type', rep)
    except BaseException:  # noqa
        pass
    return route, card, req, rep, on_channel


def exec_generated(reg, name, text):
    obs = {'name': name, 'exec': 'ok', 'imports': None, 'guarded_imports': None, 'classes': {},
           'other_names': [], 'header': text.split('\n')[:3]}
    modname = name[:-3].replace('/', '.') if name.endswith('.py') else name
    ns = {'__name__': modname}
    try:
        top, guarded, other = imports_of(text)
        obs['imports'], obs['guarded_imports'] = top, guarded
        if other:
            obs['other_names'].append('from-import')
        exec(compile(text, name, 'exec'), ns)
    except BaseException as e:  # noqa
        obs['exec'] = type(e).__name__
        return obs
    import grpclib.const
    for k, v in ns.items():
        if k.startswith('__') and k.endswith('__'):
            continue
        if isinstance(v, types.ModuleType):
            continue
        if not isinstance(v, type) or v.__module__ != modname:
            obs['other_names'].append(k)
            continue
        c = {'abstract_keys': None, 'abstractmethods': None, 'mapping': None, 'stub': None,
             'is_abc': False}
        obs['classes'][k] = c
        import abc as _abc
        c['is_abc'] = isinstance(v, _abc.ABCMeta)
        own = vars(v)
        c['abstract_keys'] = [a for a, f in own.items() if getattr(f, '__isabstractmethod__', False)]
        c['abstractmethods'] = sorted(getattr(v, '__abstractmethods__', ()))
        c['has_mapping'] = '__mapping__' in own
        c['own_init'] = '__init__' in own
        if c['has_mapping']:
            # a concrete implementation: every abstract method overridden, tagged with its key
            def mk(key):
                async def impl(self, stream):
                    return None
                impl._key = key
                return impl
            try:
                Impl = type('Impl', (v,), {a: mk(a) for a in c['abstractmethods']})
                inst = Impl()
                mp = inst.__mapping__()
                rows = []
                for route, h in mp.items():
                    f = h.func
                    rows.append({
                        'route': route,
                        'func': getattr(getattr(f, '__func__', None), '_key', '?'),
                        'bound': getattr(f, '__self__', None) is inst,
                        'handler': type(h) is grpclib.const.Handler,
                        'card': h.cardinality.name if isinstance(h.cardinality, grpclib.const.Cardinality) else '?',
                        'flags': [bool(h.cardinality.client_streaming), bool(h.cardinality.server_streaming)],
                        'req': describe(reg, h.request_type), 'rep': describe(reg, h.reply_type)})
                c['mapping'] = rows
            except BaseException as e:  # noqa
                c['mapping'] = 'raised:' + type(e).__name__
        elif c['own_init']:
            try:
                ch = FakeChannel()
                stub = v(ch)
                rows = []
                for a, mobj in vars(stub).items():
                    route, card, req, rep, on_channel = observe_method(mobj, ch)
                    is_card = isinstance(card, grpclib.const.Cardinality)
                    rows.append({
                        'attr': a, 'cls': type(mobj).__name__,
                        'cls_module': type(mobj).__module__,
                        'card': card.name if is_card else '?',
                        'flags': [bool(card.client_streaming), bool(card.server_streaming)] if is_card else None,
                        'route': route,
                        'channel': on_channel,
                        'req': describe(reg, req),
                        'rep': describe(reg, rep)})
                c['stub'] = rows
            except BaseException as e:  # noqa
                c['stub'] = 'raised:' + type(e).__name__
    return obs


def run_case(ds):
    from google.protobuf.compiler import plugin_pb2
    out = {'main': None, 'files': [], 'mode': None}
    try:
        data = build_request(ds).SerializeToString()
    except BaseException as e:  # noqa
        out['main'] = 'request-build:' + type(e).__name__
        return out
    status, raw = run_main(data)
    out['main'] = status
    if status != 'ok':
        out['wrote'] = len(raw)
        return out
    import hashlib
    out['resp_sha'] = hashlib.sha1(raw).hexdigest()
    resp = plugin_pb2.CodeGeneratorResponse.FromString(raw)
    out['response_error'] = resp.error if resp.HasField('error') else None
    out['features'] = resp.supported_features
    reg = build_registry(ds)
    out['mode'] = reg.mode
    reg.install()
    try:
        for f in resp.file:
            out['files'].append(exec_generated(reg, f.name, f.content))
    finally:
        reg.uninstall()
    return out


def main_loop():
    cin = os.fdopen(os.dup(0), 'r')
    cout = os.fdopen(os.dup(1), 'w')
    sys.dont_write_bytecode = True
    for line in cin:
        line = line.strip()
        if not line:
            continue
        try:
            obs = run_case(json.loads(line))
        except BaseException as e:  # noqa
            import traceback
            obs = {'main': 'helper-error', 'detail': traceback.format_exc()[-800:]}
        cout.write(json.dumps(obs) + '\n')
        cout.flush()


if __name__ == '__main__':
    main_loop()
